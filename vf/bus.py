"""simulated EtherCAT ring: ESC/terminal model, CoE SDO server, bus, transport

Written from the EtherCAT specifications (ETG.1000.4/.6, ESC datasheet
register map), not from ebpfcat.  Everything observable is recorded as events.
"""
import struct

from . import frames

NOP, APRD, APWR, APRW, FPRD, FPWR, FPRW, BRD, BWR, BRW, LRD, LWR, LRW, \
    ARMW, FRMW = range(15)
READS = {APRD, FPRD, BRD, LRD}
WRITES = {APWR, FPWR, BWR, LWR}
RWS = {APRW, FPRW, BRW, LRW}

INIT, PREOP, BOOT, SAFEOP, OP = 1, 2, 3, 4, 8
ORDER = [INIT, PREOP, SAFEOP, OP]


class SimTerminal:
    """one EtherCAT slave controller with AL state machine, SII EEPROM
    interface, FMMUs, sync managers, mailbox and process data RAM"""

    def __init__(self, name="T", eeprom=b"", station=0, fmmus=4,
                 eeprom_8byte=True):
        self.name = name
        self.mem = bytearray(0x10000)
        self.events = []            # (kind, ...) in order
        self.station = station
        struct.pack_into("<H", self.mem, 0x10, station)
        self.mem[4] = fmmus
        self.nfmmu = fmmus
        # AL
        self.al_state = INIT
        self.al_error = False
        self.al_code = 0
        self.al_pending = None      # [target, polls left]
        self.al_queue = []          # requests waiting for the pending one
        self.al_latency = lambda frm, to: 0
        self.al_error_at_poll = None
        self.al_polls = 0
        self.al_fail = None         # callable(target) -> bool: refuse
        # EEPROM
        self.eeprom = bytearray(eeprom)
        self.eeprom_8byte = eeprom_8byte
        self.ee_busy = 0
        self.ee_busy_for = lambda: 0
        self.ee_addr = 0
        self.ee_idle_busy = 0       # busy polls before the first command
        # mailbox
        self.mbx_handler = None     # callable(message bytes) -> [responses]
        self.mbx_in_queue = []
        self.mbx_in_loaded = False
        self.mbx_resp_latency = lambda: 0
        self.mbx_wait = 0
        self.mbx_out_full = False
        # polls of a sync-manager status until the terminal's application
        # fetches a mail the master wrote (0: at once); while the mail waits
        # the mailbox is full and further writes into it are refused
        self.mbx_fetch_latency = lambda: 0
        self.mbx_out_pending = None
        self.mbx_fetch_wait = 0
        self.mbx_writes = []        # raw messages written by the master
        self.mbx_reads = []
        self.sm_update()

    # -- sync manager geometry (from the registers the master wrote) -----
    def sm(self, i):
        off, size, ctrl = struct.unpack_from("<HHB", self.mem, 0x800 + 8 * i)
        return off, size, ctrl

    def sm_update(self):
        pass

    # -- register access ---------------------------------------------------
    def read(self, addr, n):
        out = bytearray(self.mem[addr:addr + n])
        out += bytes(n - len(out))
        # AL status
        if addr <= 0x130 < addr + n:
            self.al_poll()
            v = self.al_state | (0x10 if self.al_error else 0) | \
                getattr(self, "al_extra", 0)
            struct.pack_into("<H", out, 0x130 - addr, v)
            if addr <= 0x134 and 0x136 <= addr + n:
                struct.pack_into("<H", out, 0x134 - addr, self.al_code)
            self.events.append(("al_status_read", v))
        # EEPROM status/data
        if addr <= 0x502 < addr + n:
            st = 0x40 if self.eeprom_8byte else 0
            if self.ee_idle_busy > 0:
                self.ee_idle_busy -= 1
                st |= 0x8000
            elif self.ee_busy > 0:
                self.ee_busy -= 1
                st |= 0x8000
            struct.pack_into("<H", out, 0x502 - addr, st)
            if addr + n > 0x508:
                a = self.ee_addr * 2
                width = 8 if self.eeprom_8byte else 4
                blob = bytes(self.eeprom[a:a + width])
                blob += b"\xff" * (width - len(blob))
                blob += b"\xee" * (8 - width)       # not valid data
                if st & 0x8000:
                    blob = b"\xdd" * 8              # busy: data not ready
                lo = max(addr, 0x508)
                hi = min(addr + n, 0x510)
                out[lo - addr:hi - addr] = blob[lo - 0x508:hi - 0x508]
            self.events.append(("eeprom_status_read", st))
        # SM status bytes
        for i in range(4):
            sa = 0x805 + 8 * i
            if addr <= sa < addr + n:
                self.mbx_fetch_poll()
                off, size, ctrl = self.sm(i)
                mode = ctrl & 0xf
                st = 0
                if mode == 6 and self.mbx_out_full:     # master -> slave
                    st |= 8
                if mode == 2:                            # slave -> master
                    self.mbx_poll()
                    if self.mbx_in_loaded:
                        st |= 8
                out[sa - addr] = st
        # reading the last byte of the input mailbox frees it
        for i in range(4):
            off, size, ctrl = self.sm(i)
            if ctrl & 0xf == 2 and size and \
                    addr <= off + size - 1 < addr + n and self.mbx_in_loaded:
                msg = bytes(self.mem[off:off + size])
                self.mbx_reads.append(msg)
                self.events.append(("mbx_read", msg))
                self.mbx_in_loaded = False
        return bytes(out)

    def mbx_fetch_poll(self):
        if self.mbx_out_full:
            self.mbx_fetch_wait -= 1
            if self.mbx_fetch_wait <= 0:
                self.mbx_out_full = False
                msg, self.mbx_out_pending = self.mbx_out_pending, None
                self.events.append(("mbx_fetched",))
                self.mbx_deliver(msg)

    def write(self, addr, data):
        """returns False when the write is refused (no working counter)"""
        n = len(data)
        if self.mbx_out_full:
            for i in range(4):
                off, size, ctrl = self.sm(i)
                if ctrl & 0xf == 6 and size and addr < off + size and \
                        off < addr + n:
                    self.events.append(("mbx_write_refused", addr))
                    return False
        self.events.append(("write", addr, bytes(data)))
        self.mem[addr:addr + n] = data
        if addr <= 0x10 < addr + n:
            self.station, = struct.unpack_from("<H", self.mem, 0x10)
            self.events.append(("station", self.station))
        if addr <= 0x120 < addr + n:
            v, = struct.unpack_from("<H", self.mem, 0x120)
            self.al_request(v)
        if addr <= 0x502 < addr + n and n >= 2:
            ctrl, = struct.unpack_from("<H", self.mem, 0x502)
            if ctrl & 0x0700 == 0x0100:            # read command
                if self.ee_idle_busy > 0 or self.ee_busy > 0:
                    # a busy EEPROM interface does not take commands
                    self.events.append(("eeprom_cmd_ignored_while_busy",))
                else:
                    self.ee_addr, = struct.unpack_from("<I", self.mem, 0x504)
                    self.ee_busy = self.ee_busy_for()
                    self.events.append(("eeprom_read_cmd", self.ee_addr))
        for i in range(self.nfmmu):
            base = 0x600 + 16 * i
            if addr < base + 16 and base < addr + n:
                self.events.append(("fmmu", i, bytes(self.mem[base:base + 16])))
        # writing the last byte of the output mailbox hands it over
        for i in range(4):
            off, size, ctrl = self.sm(i)
            if ctrl & 0xf == 6 and size and addr <= off + size - 1 < addr + n:
                msg = bytes(self.mem[off:off + size])
                self.mbx_writes.append(msg)
                self.events.append(("mbx_write", msg))
                lat = self.mbx_fetch_latency()
                if lat <= 0:
                    self.mbx_deliver(msg)
                else:
                    self.mbx_out_full = True
                    self.mbx_out_pending = msg
                    self.mbx_fetch_wait = lat

    # -- AL state machine ------------------------------------------------
    def al_request(self, v):
        req = v & 0xf
        ack = bool(v & 0x10)
        self.events.append(("al_control", v))
        if ack:
            self.al_error = False
            self.al_code = 0
        if req == self.al_state and not self.al_pending:
            return
        # an ESC handles requests one after the other: a request written
        # while a transition is still going on starts when that one is done
        cur = self.al_pending[0] if self.al_pending else self.al_state
        if self.al_queue:
            cur = self.al_queue[-1]
        ok = req in ORDER and (
            ORDER.index(req) <= ORDER.index(cur)
            or ORDER.index(req) == ORDER.index(cur) + 1)
        if self.al_fail and self.al_fail(req):
            ok = False
        if not ok:
            self.al_error = True
            self.al_code = 0x11      # invalid requested state change
            self.events.append(("al_refused", cur, req))
            return
        if self.al_pending:
            self.al_queue.append(req)
            return
        self._al_start(cur, req)

    def _al_start(self, cur, req):
        self.al_pending = [req, self.al_latency(cur, req)]
        if self.al_pending[1] == 0:
            self._al_done()

    def _al_done(self):
        self.al_state = self.al_pending[0]
        self.al_pending = None
        while self.al_queue and self.al_pending is None:
            req = self.al_queue.pop(0)
            if req != self.al_state:
                self._al_start(self.al_state, req)

    def al_poll(self):
        self.al_polls += 1
        if self.al_error_at_poll is not None and \
                self.al_polls == self.al_error_at_poll:
            self.al_error = True
            self.al_code = 0x1b      # e.g. sync manager watchdog
        if self.al_pending:
            if self.al_pending[1] <= 0:
                self._al_done()
            else:
                self.al_pending[1] -= 1
                if self.al_pending[1] == 0:
                    self._al_done()

    # -- mailbox ---------------------------------------------------------
    def mbx_deliver(self, msg):
        if self.mbx_handler is None:
            return
        length, = struct.unpack_from("<H", msg, 0)
        body = msg[:6 + length]
        for r in self.mbx_handler(body) or []:
            self.mbx_in_queue.append(r)
        self.mbx_wait = self.mbx_resp_latency()

    def mbx_push(self, msg):
        """queue an unsolicited message (emergency, other protocol)"""
        self.mbx_in_queue.append(msg)

    def mbx_poll(self):
        if self.mbx_in_loaded or not self.mbx_in_queue:
            return
        if self.mbx_wait > 0:
            self.mbx_wait -= 1
            return
        for i in range(4):
            off, size, ctrl = self.sm(i)
            if ctrl & 0xf == 2 and size:
                msg = self.mbx_in_queue.pop(0)
                if len(msg) > size:
                    self.events.append(("mbx_response_too_long", len(msg)))
                    msg = msg[:size]
                self.mem[off:off + size] = msg.ljust(size, b"\0")
                self.mbx_in_loaded = True
                return

    # -- FMMU ---------------------------------------------------------------
    def fmmus(self):
        for i in range(self.nfmmu):
            lstart, ln, lsb, leb, phys, pb, typ, act = struct.unpack_from(
                "<IHBBHBBB", self.mem, 0x600 + 16 * i)
            if act & 1 and ln:
                yield i, lstart, ln, phys, typ


class SdoServer:
    """CoE SDO server following ETG.1000.6 (expedited, normal, segmented
    up- and download, complete access, toggle checking)"""

    def __init__(self, objects=None, mbx_in_size=128, mbx_out_size=128,
                 strict_size=True, ca_expedited=False):
        # ca_expedited: complete-access uploads of up to 4 bytes are answered
        # with an expedited response that mirrors the complete-access bit
        # (ETG.1000.6 table "SDO upload expedited response")
        self.ca_expedited = ca_expedited
        self.objects = dict(objects or {})    # (index, sub) -> bytes
        self.in_size = mbx_in_size            # slave -> master mailbox
        self.out_size = mbx_out_size
        self.strict_size = strict_size
        self.log = []                         # protocol events
        self.errors = []                      # protocol violations seen
        self.up = None                        # upload in progress
        self.down = None                      # download in progress
        self.counter = 0
        self.counters_seen = []
        self.last_counter = 0                 # of the last mail accepted

    def reply(self, coe_service, body):
        self.counter = self.counter % 7 + 1
        payload = struct.pack("<H", coe_service << 12) + body
        hdr = struct.pack("<HHBB", len(payload), 0, 0,
                          3 | (self.counter << 4))
        msg = hdr + payload
        if len(msg) > self.in_size:
            self.errors.append(f"server response of {len(msg)} bytes "
                               f"exceeds mailbox {self.in_size}")
        return msg

    def abort(self, index, sub, code, why):
        self.log.append(("abort", index, sub, hex(code), why))
        self.up = self.down = None
        return [self.reply(2, struct.pack("<BHBI", 0x80, index, sub, code))]

    def handle(self, msg):
        length, addr, chan, tc = struct.unpack_from("<HHBB", msg, 0)
        typ, cnt = tc & 0xf, tc >> 4
        self.counters_seen.append(cnt)
        if cnt != 0 and cnt == self.last_counter:
            # ETG.1000.4: a mailbox service with the counter of the previous
            # one is a repetition and is not executed again
            self.log.append(("repeated-counter-dropped", cnt))
            return []
        self.last_counter = cnt
        if 6 + length > self.out_size:
            self.errors.append(f"request of {6 + length} bytes exceeds "
                               f"mailbox {self.out_size}")
        body = msg[6:6 + length]
        if typ != 3:
            self.log.append(("non-coe", typ))
            return []
        coe, = struct.unpack_from("<H", body, 0)
        service = coe >> 12
        if service == 8:
            return self.sdo_info(body[2:])
        if service != 2:
            self.log.append(("coe-service", service))
            return []
        sdo = body[2:]
        if len(sdo) < 8:
            self.errors.append(f"SDO request of {len(sdo)} bytes (< 8)")
            sdo = sdo.ljust(8, b"\0")
        cmd = sdo[0]
        ccs = cmd >> 5
        if ccs == 2:                           # upload init
            index, sub = struct.unpack_from("<HB", sdo, 1)
            ca = bool(cmd & 0x10)
            self.log.append(("upload_init", index, sub, ca))
            return self.upload_init(index, sub, ca)
        if ccs == 3:                           # upload segment
            toggle = (cmd >> 4) & 1
            self.log.append(("upload_seg", toggle))
            return self.upload_segment(toggle)
        if ccs == 1:                           # download init
            index, sub = struct.unpack_from("<HB", sdo, 1)
            return self.download_init(cmd, index, sub, sdo[4:])
        if ccs == 0:                           # download segment
            return self.download_segment(cmd, sdo[1:])
        if ccs == 4:
            self.log.append(("client-abort",))
            self.up = self.down = None
            return []
        return self.abort(0, 0, 0x05040001, "unknown command specifier")

    def value(self, index, sub, ca):
        if ca:
            if (index, "CA") in self.objects:
                return self.objects[index, "CA"]
            parts = []
            i = sub
            while (index, i) in self.objects:
                parts.append(self.objects[index, i])
                i += 1
            return b"".join(parts) if parts else None
        return self.objects.get((index, sub))

    def upload_init(self, index, sub, ca):
        v = self.value(index, sub, ca)
        if v is None:
            return self.abort(index, sub, 0x06020000, "object does not exist")
        if 1 <= len(v) <= 4 and (not ca or self.ca_expedited):
            n = 4 - len(v)
            cmd = 0x40 | (n << 2) | 0x03 | (0x10 if ca else 0)
            return [self.reply(3, struct.pack("<BHB4s", cmd, index, sub,
                                              v.ljust(4, b"\0")))]
        room = self.in_size - 6 - 2 - 8        # mbx hdr, coe hdr, sdo hdr+size
        first = v[:room]
        cmd = 0x40 | 0x01 | (0x10 if ca else 0)
        msg = self.reply(3, struct.pack("<BHBI", cmd, index, sub, len(v))
                         + first)
        if len(first) < len(v):
            self.up = dict(data=v, pos=len(first), toggle=0, index=index,
                           sub=sub)
        return [msg]

    def upload_segment(self, toggle):
        u = self.up
        if u is None:
            return self.abort(0, 0, 0x05040001, "segment without upload")
        if toggle != u["toggle"]:
            self.errors.append(f"upload segment toggle {toggle}, expected "
                               f"{u['toggle']}")
            return self.abort(u["index"], u["sub"], 0x05030000,
                              "toggle bit not alternated")
        room = self.in_size - 6 - 2 - 1
        seg = u["data"][u["pos"]:u["pos"] + room]
        u["pos"] += len(seg)
        last = u["pos"] >= len(u["data"])
        n = 0
        if len(seg) < 7:
            n = 7 - len(seg)
            seg = seg.ljust(7, b"\0")
        cmd = (toggle << 4) | (n << 1) | (1 if last else 0)
        u["toggle"] ^= 1
        if last:
            self.up = None
        return [self.reply(3, bytes([cmd]) + seg)]

    def download_init(self, cmd, index, sub, rest):
        e, s = bool(cmd & 2), bool(cmd & 1)
        ca = bool(cmd & 0x10)
        self.log.append(("download_init", index, sub, ca, e, s, len(rest)))
        if e:
            n = (cmd >> 2) & 3 if s else 0
            data = rest[:4 - n]
            self.store(index, sub, ca, data)
            return [self.reply(3, struct.pack("<BHB4x", 0x60, index, sub))]
        size, = struct.unpack_from("<I", rest.ljust(4, b"\0"), 0)
        data = rest[4:]
        if not s:
            return self.abort(index, sub, 0x05040001,
                              "normal download without size")
        if len(data) > size:
            if self.strict_size:
                self.errors.append(
                    f"download init: complete size {size} but {len(data)} "
                    f"data bytes follow")
                return self.abort(index, sub, 0x06070010,
                                  "length of service parameter does not "
                                  "match")
            size = len(data)
        if len(data) == size:
            self.store(index, sub, ca, data)
        else:
            self.down = dict(index=index, sub=sub, ca=ca, size=size,
                             data=bytearray(data), toggle=0)
        return [self.reply(3, struct.pack("<BHB4x", 0x60, index, sub))]

    def download_segment(self, cmd, rest):
        d = self.down
        toggle = (cmd >> 4) & 1
        self.log.append(("download_seg", toggle, cmd & 1, len(rest)))
        if d is None:
            self.errors.append("download segment without a download")
            return self.abort(0, 0, 0x05040001, "segment without download")
        if toggle != d["toggle"]:
            self.errors.append(f"download segment toggle {toggle}, "
                               f"expected {d['toggle']}")
            return self.abort(d["index"], d["sub"], 0x05030000,
                              "toggle bit not alternated")
        n = (cmd >> 1) & 7
        seg = rest
        if len(seg) <= 7:
            seg = seg[:7 - n]
        d["data"] += seg
        d["toggle"] ^= 1
        out = [self.reply(3, bytes([0x20 | (toggle << 4)]) + bytes(7))]
        if cmd & 1:
            if len(d["data"]) != d["size"]:
                self.errors.append(
                    f"download finished with {len(d['data'])} bytes, "
                    f"announced {d['size']}")
                self.down = None
                return self.abort(d["index"], d["sub"], 0x06070010,
                                  "length mismatch")
            self.store(d["index"], d["sub"], d["ca"], bytes(d["data"]))
            self.down = None
        return out

    def store(self, index, sub, ca, data):
        self.log.append(("stored", index, sub, ca, bytes(data)))
        if ca:
            self.objects[index, "CA"] = bytes(data)
        else:
            self.objects[index, sub] = bytes(data)

    def sdo_info(self, body):
        return []


class Bus:
    """the ring: applies the datagrams of a frame to the terminals in order"""

    def __init__(self, terminals):
        self.terminals = terminals
        self.frames = []          # every frame seen (parsed)
        self.wkc_override = None  # callable(frame_no, dgram_no, wkc) -> wkc

    def process(self, frame):
        length, typ, dgs, pad = frames.parse(frame)
        out = bytearray(frame)
        self.frames.append(dgs)
        fno = len(self.frames) - 1
        for dno, d in enumerate(dgs):
            data = bytearray(d.data)
            wkc = d.wkc
            cmd = d.cmd
            if cmd == NOP:
                continue
            if cmd in (APRD, APWR, APRW):
                adp, ado = d.addr
                for t in self.terminals:
                    if adp == 0:
                        wkc = self.access(t, cmd - APRD, ado, data, wkc)
                    adp = (adp + 1) & 0xffff
                    if adp >= 0x8000:
                        adp -= 0x10000
                struct.pack_into("<hH", out, d.hdr_pos + 2, adp, ado)
            elif cmd in (FPRD, FPWR, FPRW):
                adp, ado = d.addr
                for t in self.terminals:
                    if t.station == (adp & 0xffff) and t.station != 0:
                        wkc = self.access(t, cmd - FPRD, ado, data, wkc)
            elif cmd in (BRD, BWR, BRW):
                adp, ado = d.addr
                acc = bytearray(len(data))
                for t in self.terminals:
                    if cmd in (BRD, BRW):
                        r = t.read(ado, len(data))
                        acc = bytearray(a | b for a, b in zip(acc, r))
                        wkc += 1
                    if cmd in (BWR, BRW):
                        t.write(ado, bytes(d.data))
                        wkc += 1 if cmd == BWR else 2
                if cmd in (BRD, BRW):
                    data = bytearray(a | b for a, b in zip(data, acc))
            elif cmd in (LRD, LWR, LRW):
                la, = d.addr
                la &= 0xffffffff
                for t in self.terminals:
                    did_r = did_w = False
                    for i, lstart, ln, phys, typ in t.fmmus():
                        lo = max(la, lstart)
                        hi = min(la + len(data), lstart + ln)
                        if lo >= hi:
                            continue
                        if typ & 1 and cmd in (LRD, LRW):
                            data[lo - la:hi - la] = t.mem[
                                phys + lo - lstart:phys + hi - lstart]
                            did_r = True
                        if typ & 2 and cmd in (LWR, LRW):
                            t.mem[phys + lo - lstart:phys + hi - lstart] = \
                                d.data[lo - la:hi - la]
                            t.events.append(("pd_write", phys + lo - lstart,
                                             bytes(d.data[lo - la:hi - la])))
                            did_w = True
                    wkc += (1 if did_r else 0) + (
                        (1 if cmd == LWR else 2) if did_w else 0)
            if self.wkc_override:
                wkc = self.wkc_override(fno, dno, wkc)
            out[d.data_pos:d.wkc_pos] = data
            struct.pack_into("<H", out, d.wkc_pos, wkc & 0xffff)
        return bytes(out)

    @staticmethod
    def access(t, kind, ado, data, wkc):
        """kind 0 read, 1 write, 2 read-write"""
        if kind in (0, 2):
            refuse = getattr(t, "read_refuse", None)
            if refuse is not None and refuse(ado, len(data)):
                # the terminal does not process this datagram (injected)
                t.events.append(("read_refused", ado))
                return wkc
            data[:] = t.read(ado, len(data))
            wkc += 1
        if kind in (1, 2):
            if t.write(ado, bytes(data)) is not False:
                wkc += 1 if kind == 1 else 2
        return wkc


class FakeSock:
    def __init__(self):
        self.bound = None

    def bind(self, addr):
        self.bound = addr


class FakeTransport:
    """stands in for the AF_PACKET datagram transport"""

    def __init__(self, loop, bus, proto, policy=None):
        self.loop = loop
        self.bus = bus
        self.proto = proto
        self._sock = FakeSock()
        self.sent = []            # raw frames in send order
        self.policy = policy      # callable(frame_no, frame) -> list of
        #                           (delay, response bytes) deliveries
        self.closed = False
        self.misrouted = 0        # frames whose replies go elsewhere

    def get_extra_info(self, name, default=None):
        return self._sock if name == "socket" else default

    def sendto(self, data, addr=None):
        data = bytes(data)
        n = len(self.sent)
        self.sent.append(data)
        # the socket is bound to the master's own ethertype and the XDP
        # dispatcher stamps every returning frame with the ethertype its
        # identification datagram carries: a frame identifying itself with
        # another ethertype comes back on somebody else's socket
        if len(data) >= 16 and data[2] == 0 and data[8:10] == b"\x02\x80":
            et = int.from_bytes(data[12:14], "little")
            if et != getattr(self.proto, "ethertype", 0x88A4):
                self.misrouted += 1
                if self.policy is not None:
                    self.policy(n, data)
                else:
                    self.bus.process(data)
                return
        if self.policy is not None:
            deliveries = self.policy(n, data)
        else:
            deliveries = [(0.0001, self.bus.process(data))]
        for delay, resp in deliveries:
            self.loop.call_later(delay, self.proto.datagram_received,
                                 resp, addr)

    def close(self):
        self.closed = True


async def connect(ec, loop, bus, policy=None):
    """the master's own connect() over the simulated bus: only the loop's
    datagram endpoint is replaced"""
    async def endpoint(protocol_factory, **kw):
        proto = protocol_factory()
        tr = FakeTransport(loop, bus, proto, policy)
        proto.connection_made(tr)
        return tr, proto
    old = loop.create_datagram_endpoint
    loop.create_datagram_endpoint = endpoint
    try:
        await ec.connect()
    finally:
        loop.create_datagram_endpoint = old


def attach(ec, loop, bus, policy=None):
    """connect a real EtherCat object to the simulated bus"""
    import asyncio
    ec.send_queue = asyncio.Queue()
    tr = FakeTransport(loop, bus, ec, policy)
    ec.connection_made(tr)
    return tr
