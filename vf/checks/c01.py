"""C01 integer DSL expressions compute the exact value (K authority, V sample)"""
import random

from .. import dsl, gen, kern, specrun
from ..core import Result

PROPERTY = "C01"
LEVEL = "exploration"
RULE = ("seeded random well-typed integer statements (depth<=3 quick, <=4 "
        "thorough; 1-6 statements per program; registers r/sr/w/sw, map and "
        "stack variables of formats BHIQbhiq, constants up to >64 bit) built "
        "with the real DSL, executed in the kernel (BPF_PROG_TEST_RUN) and in "
        "the reference machine on 4-6 input vectors each; a case = (program, "
        "input vector); non-trivial = at least one statement is inside the "
        "statement's precondition (strict: full destination compared) or "
        "ring-only (low min(dest,W) bits compared); distinct by hash of "
        "(spec, inputs)")
ASSUMPTIONS = [
    "the kernel's eBPF interpreter/JIT executes the bytecode faithfully",
    "operands are loaded by the harness prologue with 8/4-byte moves "
    "(w/sw registers hold zero-extended 32-bit values, as 32-bit ALU "
    "instructions leave them)",
    "a statement containing a known-finding trigger is attributed to that "
    "finding and not searched for further defects",
]
MIN_EVALUATIONS = {"quick": 2000, "thorough": 50000}


def plan(tier, seed):
    if tier == "quick":
        return [dict(seed=seed, shard=i, n=700, depth=3) for i in range(16)]
    return [dict(seed=seed, shard=i, n=2400, depth=4) for i in range(64)]


def gen_case(rng, depth):
    regs, vars_, locs = gen.gen_decls(rng)
    # some variables with an explicit byte order
    for decl in vars_ + locs:
        if rng.random() < 0.15:
            decl[1] = rng.choice(gen.ORDERED_FMTS)
    places = gen.places_of(regs, vars_, locs)
    style = rng.random()
    if style < 0.35:
        nst, d = 1, 1
    elif style < 0.6:
        nst, d = rng.randint(1, 3), 2
    else:
        nst, d = rng.randint(1, 6), rng.randint(2, depth)
    stmts = []
    for _ in range(nst):
        dest = rng.choice(places)
        if rng.random() < 0.15:
            t = gen.gen_tree(rng, places, d - 1) if d > 1 else \
                rng.choice([["p", rng.choice(places)],
                            ["c", gen.gen_const(rng)]])
            op = rng.choice(gen.INT_OPS)
            if t[0] == "c" and op in ("<<", ">>"):
                t = ["c", gen.gen_const(rng, True)]
            if t[0] == "c" and op in ("//", "%") and t[1] == 0:
                t = ["c", 5]
            stmts.append(["aug", op, dest, t])
        elif regs and rng.random() < 0.12:
            # register +- constant (folded into one node by the generator)
            # as the operand of an operator that depends on signedness
            inner = ["b", rng.choice("+-"), ["p", "r%d" % rng.choice(regs)[0]],
                     ["c", rng.choice([1, 2, 5, 150, 0x7fff, 0x10000,
                                       -1, -3, -150])]]
            op = rng.choice([">>", ">>", "//", "%", "*", "+"])
            right = ["c", gen.gen_const(rng, True) or 1] if op == ">>" else \
                rng.choice([["p", rng.choice(places)],
                            ["c", rng.choice([3, 7, 1000])]])
            t = ["b", op, inner, right]
            if rng.random() < 0.3:
                t = ["b", rng.choice("+|^"), t, ["p", rng.choice(places)]]
            stmts.append(["set", dest, t])
        else:
            t = gen.gen_tree(rng, places, d)
            if t[0] == "p" and rng.random() < 0.5:
                t = ["c", gen.gen_const(rng)]
            stmts.append(["set", dest, t])
    specd = dict(regs=regs, vars=vars_, locs=locs, stmts=stmts)
    spec = dsl.Spec(specd)
    inputs = [gen.gen_inputs(rng, spec) for _ in range(rng.randint(4, 6))]
    return dict(spec=specd, inputs=inputs)


# ---------------------------------------------------------------------------
# attribution of a failing statement to a known mechanism
# ---------------------------------------------------------------------------

def stmt_tree(s):
    if s[0] == "set":
        return s[1], s[2]
    return s[2], ["b", s[1], ["p", s[2]], s[3]]


def eff_tree(spec, stmt):
    """the tree the DSL really builds: `mem -= expr` on a 4/8-byte memory
    variable becomes an in-place add of Negate(expr)"""
    dest, tree = stmt_tree(stmt)
    if stmt[0] == "aug" and stmt[1] == "-" and dest[0] in "vl" \
            and spec.fmt(dest) in ("q", "Q", "i", "I", "x") \
            and stmt[3][0] != "c":
        tree = ["b", "+", ["p", dest], ["neg", stmt[3]]]
    return dest, tree


def unary_regs(spec, stmt):
    """registers that appear directly under a neg/abs in this statement"""
    out = set()

    def walk(t):
        if t[0] in ("neg", "abs"):
            if t[1][0] == "p" and t[1][1][0] == "r":
                out.add(t[1][1])
            walk(t[1])
        elif t[0] == "b":
            walk(t[2])
            walk(t[3])
    walk(eff_tree(spec, stmt)[1])
    return out


def triggers(spec, stmt, store):
    """mechanisms (from reading the generator) that this statement, on
    this store, exercises.  Only used to attribute an observed mismatch."""
    dest, tree = eff_tree(spec, stmt)
    dsize = spec.info(dest)[0]
    long = dsize == 8
    ref = dsl.Ref(spec)
    ref.W = ref.width_of([tree], dest)
    found = []

    def vals(t):
        try:
            return ref.ev(t, store).vals
        except dsl.Unchecked:
            return set()

    def narrow_leaf(t):
        # a unary node inherits the computation width from its operand
        while t[0] in ("neg", "abs"):
            t = t[1]
        return t[0] == "p" and spec.info(t[1])[0] <= 4

    def dsl_signed(t):
        """signedness the DSL assigns: `&` and abs results are unsigned"""
        k = t[0]
        if k == "p":
            return spec.info(t[1])[1]
        if k == "c":
            return t[1] < 0
        if k == "neg":
            return True
        if k == "abs":
            return False
        if t[1] == "&":
            return False
        if t[1] == ">>":
            return dsl_signed(t[2])
        return dsl_signed(t[2]) or dsl_signed(t[3])

    def has_and(t):
        if t[0] == "b":
            return t[1] == "&" or has_and(t[2]) or has_and(t[3])
        if t[0] in ("neg", "abs"):
            return has_and(t[1])
        return False

    def has_abs(t):
        if t[0] == "b":
            return has_abs(t[2]) or has_abs(t[3])
        if t[0] == "abs":
            return True
        if t[0] == "neg":
            return has_abs(t[1])
        return False

    def is_sum(t):
        """64-bit integer register +/- constant is built as a `Sum`"""
        return (t[0] == "b" and t[1] in "+-" and (
            (t[2][0] == "p" and t[2][1][0] == "r"
             and spec.regs[int(t[2][1][1:])] in ("r", "sr")
             and t[3][0] == "c")
            or (t[1] == "+" and t[3][0] == "p" and t[3][1][0] == "r"
                and spec.regs[int(t[3][1][1:])] in ("r", "sr")
                and t[2][0] == "c")))

    def walk(t):
        k = t[0]
        if k == "p":
            p = t[1]
            if p[0] == "r" and spec.regs[int(p[1:])] == "sw" and long \
                    and any(v < 0 for v in vals(t)):
                found.append("sw-register-negative-in-64bit")
        elif k == "b":
            if t[1] in ("//", "%") and (any(v < 0 for v in vals(t[2]))
                                        or any(v < 0 for v in vals(t[3]))):
                found.append("signed-div-mod-negative-operand")
            if t[1] == "-" and is_sum(t[2]) and t[3][0] != "c":
                found.append("sum-minus-expression-adds")
            if t[1] == ">>" and has_and(t[2]) and not dsl_signed(t[2]) \
                    and any(v < 0 for v in vals(t[2])):
                found.append("and-result-negative-shifted-logically")
            if t[1] == ">>" and has_abs(t[2]) and not dsl_signed(t[2]) \
                    and any(v < 0 for v in vals(t[2])):
                found.append("abs-result-negative-shifted-logically")
            walk(t[2])
            walk(t[3])
        elif k in ("neg", "abs"):
            a = t[1]
            walk(a)
    walk(tree)
    return found


PRIORITY = ["signed-div-mod-negative-operand",
            "sw-register-negative-in-64bit",
            "w-register-dirty-upper-bits",
            "sum-minus-expression-adds",
            "and-result-negative-shifted-logically",
            "abs-result-negative-shifted-logically"]


def stmt_by_path(spec, path):
    stmts = spec.stmts
    s = None
    for el in path:
        if isinstance(el, int):
            s = stmts[el]
        else:
            stmts = s[2] if el == "T" else s[3]
    return s


def all_stmts(stmts, path=()):
    for i, s in enumerate(stmts):
        p = path + (i,)
        if s[0] == "if":
            yield from all_stmts(s[2], p + ("T",))
            if s[3] is not None:
                yield from all_stmts(s[3], p + ("E",))
        else:
            yield p, s


def attribute(spec, ref, bad):
    """(key, description) for the first mismatch in program order"""
    stm = [b for b in bad if b["kind"] == "stmt"]
    if stm:
        order = {p: i for i, (p, _) in enumerate(all_stmts(spec.stmts))}
        first = min(stm, key=lambda b: order[tuple(b["path"])])
        path = tuple(first["path"])
        s = stmt_by_path(spec, path)
        tr = triggers(spec, s, ref["stores"][path])
        # a 32-bit register view assigned from a constant outside
        # [0, 2^32) or from an 8-byte place keeps dirty upper bits, which a
        # later 64-bit use of the view copies
        dirty32 = set()
        for p, s2 in all_stmts(spec.stmts):
            if order[p] < order[path] and s2[0] == "set" \
                    and s2[1][0] == "r" and spec.info(s2[1])[0] == 4:
                t2 = s2[2]
                if (t2[0] == "c" and not 0 <= t2[1] < (1 << 32)) or \
                        (t2[0] == "p" and spec.info(t2[1])[0] == 8):
                    dirty32.add(s2[1])
        if dirty32 & set(_places(stmt_tree(s)[1])) \
                and spec.info(stmt_tree(s)[0])[0] == 8:
            tr.append("w-register-dirty-upper-bits")
        for k in PRIORITY:
            if k in tr:
                return k, first
        dest, tree = stmt_tree(s)
        ops = sorted(set(_ops(tree)))
        return ("unexplained:stmt ops=" + ",".join(ops)), first
    fin = [b for b in bad if b["kind"] == "final"]
    if fin:
        first = fin[0]
        place = first["place"]
        return "unexplained:unrelated-place-changed", first
    return "unexplained:" + bad[0]["kind"], bad[0]


def _ops(t):
    if t[0] == "b":
        yield t[1]
        yield from _ops(t[2])
        yield from _ops(t[3])
    elif t[0] in ("neg", "abs"):
        yield t[0]
        yield from _ops(t[1])


def _has_unary_of(t, place):
    if t[0] in ("neg", "abs"):
        if t[1] == ["p", place]:
            return True
        return _has_unary_of(t[1], place)
    if t[0] == "b":
        return _has_unary_of(t[2], place) or _has_unary_of(t[3], place)
    return False


# ---------------------------------------------------------------------------

def stratum(spec, stmt):
    dest, tree = stmt_tree(stmt)
    ops = sorted(set(_ops(tree))) or ["copy"]
    signed = any(spec.info(p)[1] for p in _places(tree))
    W = dsl.Ref(spec).width_of([tree], dest)
    return [f"{op}/{'s' if signed else 'u'}/{W}" for op in ops]


def _places(t):
    if t[0] == "p":
        yield t[1]
    elif t[0] == "b":
        yield from _places(t[2])
        yield from _places(t[3])
    elif t[0] in ("neg", "abs"):
        yield from _places(t[1])


def check_case(case, res, use_v=True, scale_guard=False, prop="C01"):
    specd = case["spec"]
    spec = dsl.Spec(specd)
    with kern.session() as sess:
        cr = specrun.CaseRun(specd, sess)
        try:
            res.count("programs")
            res.count("status:" + cr.status)
            if cr.status != "ok":
                res.count("unchecked_programs")
                return
            for inputs in case["inputs"]:
                ref = dsl.run_ref(specd, inputs, scale_guard)
                nstrict = npartial = 0
                for path, (dest, vals, nbits) in ref["stmt"].items():
                    if nbits == 8 * spec.info(dest)[0]:
                        nstrict += 1
                        for st in stratum(spec, stmt_by_path(spec, path)):
                            res.count("strict[" + st + "]")
                    elif nbits:
                        npartial += 1
                    else:
                        res.count("stmt_unchecked")
                res.count("stmt_strict", nstrict)
                res.count("stmt_ring_lowbits", npartial)
                res.case([specd, inputs], nontrivial=bool(nstrict + npartial))
                obs_k, obs_v, fault = cr.run(inputs, use_v=use_v)
                if use_v:
                    res.count("v_runs")
                    if fault:
                        res.count("v_fault")
                        res.inconc(f"V faulted where K ran: {fault}; "
                                   f"spec={specd} inputs={inputs}")
                    elif obs_v != obs_k:
                        res.count("kv_disagree")
                        res.inconc(f"K/V disagree spec={specd} "
                                   f"inputs={inputs} K={obs_k} V={obs_v}")
                bad = specrun.compare(spec, ref, obs_k)
                if bad:
                    key, first = attribute(spec, ref, bad)
                    res.count("mismatch[" + key.split(" ")[0] + "]")
                    res.violation(
                        key, f"{first}", case=dict(spec=specd, inputs=[inputs]),
                        witness=dict(mismatches=bad[:4],
                                     disasm=cr.disasm()[:120]))
                if len(res.samples) < 3 and nstrict:
                    res.sample(dict(spec=specd, inputs=inputs,
                                    observed_final=obs_k["final"]))
        finally:
            cr.close()


def table_leg(res, rng, n):
    """operands behind an address computed at run time (a table in an array
    map indexed by a register) of every width and signedness, and constants
    of the upper half of the 64-bit range, in sums, shifts and comparisons;
    run in the kernel, compared with Python's integers"""
    from .. import kern, prog
    from ebpfcat.arraymap import ArrayMap
    from ebpfcat.xdp import XDP
    import struct
    M = (1 << 64) - 1
    for _ in range(n):
        fmt = rng.choice("bhiqBHIQ")
        size = struct.calcsize(fmt)
        vals = [rng.getrandbits(8 * size) for _ in range(8)]
        vals[rng.randrange(8)] = (1 << (8 * size)) - 1      # -1 / all ones
        vals[rng.randrange(8)] = 1 << (8 * size - 1)        # the minimum
        idx = rng.randrange(8)
        big = rng.choice([M, 1 << 63, 0xffffffff00000000,
                          rng.getrandbits(64) | 1 << 63])
        sh = rng.randint(1, 6)
        m = ArrayMap()
        ns = {"license": "GPL", "m": m, "tab": m.globalVar(f"8{fmt}"),
              "idx": m.globalVar("I"), "u": m.globalVar("Q")}
        for k in range(8):
            ns[f"o{k}"] = m.globalVar("Q")

        def program(self):
            e = self
            mm = getattr(e, "m" + fmt)
            off = type(e).__dict__["tab"].fmt_addr(e)[1]
            e.r3 = (e.idx & 7) * size       # (bounded for the verifier)
            e.o0 = mm[e.r7 + e.r3 + off]
            e.o1 = mm[e.r7 + e.r3 + off] + 1
            e.o2 = mm[e.r7 + e.r3 + off] >> sh
            with mm[e.r7 + e.r3 + off] < 0:
                e.o3 = 1
            e.o4 = (e.u + big) >> sh
            with e.u + big > 5:
                e.o5 = 1
            # the register that indexes the table receives the result
            e.r2 = (e.u & 3) * size
            e.r3 = (e.idx & 7) * size
            e.r3 = e.r2 + mm[e.r7 + e.r3 + off]
            e.o6 = e.r3
            e.r2 = (e.u & 3) * size
            e.r4 = (e.idx & 7) * size
            e.r4 = (e.r2 + 3) * mm[e.r7 + e.r4 + off]
            e.o7 = e.r4
            e.r0 = 2
            e.exit()
        ns["program"] = program
        desc = dict(table_leg=True, fmt=fmt, index=idx, value=vals[idx],
                    constant=big, shift=sh)
        with kern.session() as sess:
            try:
                e = type("VfTab", (XDP,), ns)()
                ld = prog.Loaded(e, sess)
                ld.load()
            except Exception as ex:
                res.count("table_leg_not_generated_or_loaded")
                continue
            try:
                sv = [v - (1 << (8 * size)) if fmt.islower()
                      and v >> (8 * size - 1) else v for v in vals]
                e.tab = tuple(sv)
                e.idx = idx
                u = rng.choice([5, 0, rng.getrandbits(62)])
                e.u = u
                ld.run_k(bytes(64))
                v = sv[idx]
                sumbig = (u + big) & M
                want = [v & M, (v + 1) & M,
                        (v >> sh) & M if fmt.islower() else (v & M) >> sh,
                        1 if v < 0 else 0, sumbig >> sh,
                        1 if sumbig > 5 else 0,
                        ((u & 3) * size + v) & M,
                        (((u & 3) * size + 3) * v) & M]
                got = [getattr(e, f"o{k}") for k in range(8)]
                res.case([desc, u], nontrivial=True)
                res.count("table_leg_programs")
                for k, (g, w_) in enumerate(zip(got, want)):
                    res.count("table_leg_results")
                    if g != w_:
                        what = ["table element", "element + 1",
                                f"element >> {sh}", "element < 0",
                                f"(u + {big:#x}) >> {sh}",
                                f"u + {big:#x} > 5",
                                "r3 = r2 + table[r3]",
                                "r4 = (r2 + 3) * table[r4]"][k]
                        res.violation(
                            "unexplained:computed-address-or-large-constant",
                            f"{what}: program {g:#x}, exact {w_:#x} "
                            f"(format {fmt}, element {v}, u {u})", case=desc)
                        break
            finally:
                ld.close()


def minsize_leg(res, rng, n):
    """programs that declare minimumPacketSize: self.pB/pH/pI/pQ[...] as
    operands and destinations, over packets with all bytes in use; run in the
    kernel, compared with Python's integers on the packet bytes"""
    from .. import kern, prog
    from ebpfcat.arraymap import ArrayMap
    from ebpfcat.xdp import XDP
    import struct
    M = (1 << 64) - 1
    for _ in range(n):
        m = ArrayMap()
        ns = {"license": "GPL", "m": m, "u": m.globalVar("Q"),
              "minimumPacketSize": rng.choice([48, 64, 100])}
        widths = {"B": 1, "H": 2, "I": 4, "Q": 8}
        reads = []
        stores = []
        for k in range(6):
            w = rng.choice("BHIQ")
            reads.append((w, rng.randrange(0, 24 - widths[w] + 1),
                          rng.choice(["plain", "+1", ">>3", "neg"])))
            ns[f"o{k}"] = m.globalVar("Q")
        for k in range(3):
            w = rng.choice("BHIQ")
            stores.append((w, 24 + 8 * k))

        def program(self):
            e = self
            for k, (w, off, how) in enumerate(reads):
                x = getattr(e, "p" + w)[off]
                x = {"plain": x, "+1": x + 1, ">>3": x >> 3,
                     "neg": -x}[how]
                setattr(e, f"o{k}", x)
            for w, off in stores:
                getattr(e, "p" + w)[off] = e.u
            e.r0 = 2
            e.exit()
        ns["program"] = program
        desc = dict(minsize_leg=True, reads=reads, stores=stores)
        with kern.session() as sess:
            try:
                e = type("VfMin", (XDP,), ns)()
                ld = prog.Loaded(e, sess)
                ld.load()
            except Exception as ex:
                res.violation("unexplained:minimum-packet-size-program-not-"
                              "generated-or-loaded",
                              f"{type(ex).__name__}: {str(ex)[-300:]}",
                              case=desc)
                continue
            try:
                pkt = bytes(rng.getrandbits(8) | 1 for _ in range(120))
                u = rng.getrandbits(64) | 1 << 63 | 1 << 31
                e.u = u
                _, out, _ = ld.run_k(pkt)
                res.case([desc, u], nontrivial=True)
                res.count("minsize_leg_programs")
                for k, (w, off, how) in enumerate(reads):
                    v = int.from_bytes(pkt[off:off + widths[w]], "little")
                    want = {"plain": v, "+1": v + 1, ">>3": v >> 3,
                            "neg": -v}[how] & M
                    res.count("minsize_leg_results")
                    if getattr(e, f"o{k}") != want:
                        res.violation(
                            "unexplained:minimum-packet-size-accessor",
                            f"p{w}[{off}] ({how}): program "
                            f"{getattr(e, f'o{k}'):#x}, exact {want:#x}",
                            case=desc)
                        break
                exp = bytearray(pkt)
                for w, off in stores:
                    exp[off:off + widths[w]] = (
                        u & ((1 << 8 * widths[w]) - 1)).to_bytes(
                            widths[w], "little")
                res.count("minsize_leg_results")
                if bytes(out[:120]) != bytes(exp):
                    bad = [i for i in range(120) if out[i] != exp[i]]
                    res.violation(
                        "unexplained:minimum-packet-size-accessor",
                        f"stores {stores} of {u:#x}: packet bytes {bad[:12]} "
                        f"differ from the exact result", case=desc)
            finally:
                ld.close()


def run_shard(params):
    res = Result()
    rng = random.Random(params["seed"] * 100003 + params["shard"])
    table_leg(res, random.Random(rng.getrandbits(32)),
              max(6, params["n"] // 40))
    minsize_leg(res, random.Random(rng.getrandbits(32)),
                max(4, params["n"] // 60))
    use_v_every = 4
    for i in range(params["n"]):
        case = gen_case(rng, params["depth"])
        check_case(case, res, use_v=(i % use_v_every == 0))
    return res


def finalize(res, tier, seed):
    tot = (res.counters.get("stmt_strict", 0)
           + res.counters.get("stmt_ring_lowbits", 0)
           + res.counters.get("stmt_unchecked", 0))
    strict = res.counters.get("stmt_strict", 0)
    res.info["strict_fraction"] = round(strict / max(tot, 1), 3)
    if tot and strict / tot < 0.3:
        res.inconc(f"only {strict}/{tot} statement evaluations were strict")
    ops = ["+", "-", "*", "//", "%", "&", "|", "^", "<<", ">>", "neg", "abs"]
    missing = [f"{op}/{s}/{w}" for op in ops for s in "su" for w in (32, 64)
               if not res.counters.get(f"strict[{op}/{s}/{w}]")]
    res.info["strata_without_strict_case"] = missing
    if missing:
        res.inconc(f"strata without a strict case: {missing}")


def replay(v):
    res = Result()
    if v["case"].get("table_leg"):
        # (the leg is re-run with fresh values: the witness names format,
        # constant and shift, which is where the mechanisms live)
        table_leg(res, random.Random(0), 200)
        return res
    if v["case"].get("minsize_leg"):
        minsize_leg(res, random.Random(0), 200)
        return res
    check_case(v["case"], res)
    return res
