"""C19 process variables access their own bits and bytes on both paths"""
import random
import struct

from .. import ecat, ebpfvm, kern, prog, use_repo
from ..core import Result
use_repo()

from ebpfcat.ebpfcat import (  # noqa: E402
    Device, DeviceVar, EBPFTerminal, FastSyncGroup, PacketDesc, PacketVar,
    ProcessDesc,
    SimpleEtherCat, Struct, SyncGroup, SyncManager, TerminalVar)

PROPERTY = "C19"
LEVEL = "exploration"
RULE = ("seeded random terminals with random PDO maps (bit entries, byte "
        "entries of formats B H I Q b h i q, gaps), channel Structs with "
        "byte and CoE offsets, PacketDesc and ProcessDesc descriptors incl. "
        "size overrides; devices link 2-8 of the variables, each as a read "
        "or a write; random frame contents and values. Slow path: the real "
        "SyncGroup with current_data and the device's Python update(). Fast "
        "path: the real FastSyncGroup.program() with the device's generated "
        "program, loaded into the kernel and executed with "
        "BPF_PROG_TEST_RUN on Ethernet header + the same frame. Oracle: a "
        "read returns the struct decode ('<' + fmt) of the variable's own "
        "byte range inside its terminal's region (or its own bit); a write "
        "changes exactly those bytes / that bit; both paths give identical "
        "values and frames. a case = (configuration, frame); non-trivial = "
        ">= 2 linked variables")
ASSUMPTIONS = ["the host is little-endian (native == '<')"]
MIN_EVALUATIONS = {"quick": 1000, "thorough": 30000}
FM = ["B", "H", "I", "Q", "b", "h", "i", "q"]
BITS = {"B": 8, "H": 16, "I": 32, "Q": 64, "b": 8, "h": 16, "i": 32, "q": 64}


def plan(tier, seed):
    n = 120 if tier == "quick" else 600
    return [dict(seed=seed, shard=i, n=n) for i in range(16)]


def gen_entries(rng):
    ents = []
    bitpos = 0
    for _ in range(rng.randint(1, 6)):
        if rng.random() < 0.4:
            ents.append(["bit", bitpos // 8, bitpos % 8])
            bitpos += 1
        else:
            if bitpos % 8:
                bitpos += 8 - bitpos % 8
            f = rng.choice(FM)
            ents.append([f, bitpos // 8, None])
            bitpos += BITS[f]
    return ents, (bitpos + 7) // 8


def gen_case(rng):
    nt = rng.randint(1, 3)
    terms = []
    for i in range(nt):
        ie, isz = gen_entries(rng)
        oe, osz = gen_entries(rng)
        nch = rng.choice([1, 1, 2])
        kwform = False
        if nch == 2 and rng.random() < 0.5:
            # both directions with the same channel stride: the channel is
            # declared as Ch(offset, coe=...) and the output offset defaults
            isz = osz = max(isz, osz)
            kwform = True
        terms.append(dict(pos=4 + i, ins=ie, outs=oe, isz=isz * nch,
                          osz=osz * nch, stride_in=isz, stride_out=osz,
                          nch=nch, fmmu=rng.random() < 0.5, kwform=kwform))
    if rng.random() < 0.35:
        # a second terminal of the same type: another object of the very
        # same terminal class (and channel Struct class)
        src = rng.randrange(nt)
        terms.append(dict(terms[src], pos=4 + nt, clone_of=src,
                          fmmu=rng.random() < 0.5))
        nt += 1
    links = []
    for _ in range(rng.randint(2, 8)):
        ti = rng.randrange(nt)
        d = terms[ti]
        sm = rng.choice(["IN", "OUT"])
        ents = d["ins"] if sm == "IN" else d["outs"]
        k = rng.randrange(len(ents))
        ch = rng.randrange(d["nch"])
        via = rng.choice(["process", "packet"])
        mode = "read" if sm == "IN" or rng.random() < 0.4 else "write"
        override = None
        e = ents[k]
        if e[0] == "bit" and rng.random() < 0.2 and \
                e[1] + 2 <= (d["stride_in"] if sm == "IN"
                             else d["stride_out"]):
            override = "H"       # read the status word around a bit
        elif e[0] != "bit" and rng.random() < 0.25:
            # a single bit (by number) of a byte / word entry
            override = ["bit", rng.choice([0, 0, 3, 7, rng.randint(0, 7)])]
        links.append(dict(term=ti, sm=sm, entry=k, ch=ch, via=via, mode=mode,
                          override=override))
    return dict(terms=terms, links=links, fseed=rng.getrandbits(32))


def build(case, ec):
    """terminal classes with channel Structs; returns (terminals, vars)"""
    ts = []
    classes = []
    for d in case["terms"]:
        if d.get("clone_of") is not None:
            T = classes[d["clone_of"]]
            classes.append(T)
            ts.append(make_terminal_object(T, d, ec))
            continue
        ns = {}
        cns = {}
        for smname, ents in (("IN", d["ins"]), ("OUT", d["outs"])):
            sm = SyncManager.IN if smname == "IN" else SyncManager.OUT
            base = 0x6000 if smname == "IN" else 0x7000
            for k, (f, byte, bit) in enumerate(ents):
                cns[f"p_{smname}{k}"] = ProcessDesc(base + k, 1)
                cns[f"po_{smname}{k}"] = ProcessDesc(base + k, 1, "H")
                if f != "bit":
                    for n in range(8):
                        cns[f"pb_{smname}{k}_{n}"] = ProcessDesc(
                            base + k, 1, n)
                cns[f"k_{smname}{k}"] = PacketDesc(
                    sm, byte, bit if f == "bit" else f)
        Ch = type("Ch", (Struct,), cns)
        for c in range(d["nch"]):
            if d.get("kwform"):
                ns[f"ch{c}"] = Ch(d["stride_in"] * c, coe=0x100 * c)
            else:
                ns[f"ch{c}"] = Ch(d["stride_in"] * c, d["stride_out"] * c,
                                  0x100 * c)
        T = type("VfT", (EBPFTerminal,), ns)
        classes.append(T)
        ts.append(make_terminal_object(T, d, ec))
    return ts


def make_terminal_object(T, d, ec):
    if True:
        t = T(ec)
        t.position = d["pos"]
        t.name = f"T{d['pos']}"
        t.use_fmmu = d["fmmu"]
        t.pdo_in_sz, t.pdo_in_off = d["isz"], 0x1100
        t.pdo_out_sz, t.pdo_out_off = d["osz"], 0x1000
        t.fmmu_used = [None] * 4
        # what parse_pdos would have produced, per channel
        t.pdos = {}
        for c in range(d["nch"]):
            for smname, ents, stride in (("IN", d["ins"], d["stride_in"]),
                                         ("OUT", d["outs"],
                                          d["stride_out"])):
                sm = SyncManager.IN if smname == "IN" else SyncManager.OUT
                base = (0x6000 if smname == "IN" else 0x7000) + 0x100 * c
                for k, (f, byte, bit) in enumerate(ents):
                    t.pdos[base + k, 1] = (
                        sm, byte + stride * c, bit if f == "bit" else f)
        return t


def make_device(case, ts):
    links = case["links"]
    ns = {}
    for i, l in enumerate(links):
        ns[f"tv{i}"] = TerminalVar()
        d = case["terms"][l["term"]]
        ents = d["ins"] if l["sm"] == "IN" else d["outs"]
        f = ents[l["entry"]][0]
        fmt = "B" if isinstance(l["override"], list) else (
            l["override"] or ("B" if f == "bit" else f))
        ns[f"dv{i}"] = DeviceVar(fmt, write=l["mode"] == "write")
    ns["sv"] = TerminalVar()

    twice = case["fseed"] % 4 == 1

    # single bits are also read by comparing them with 1 / 0 explicitly
    # (`with self.switch == 1:` in a program, `if self.switch == 1:` in
    # Python)
    cmp_style = [None, "== 1", "!= 1", "== 0"][case["fseed"] % 4]

    def isbit(i):
        l = links[i]
        d = case["terms"][l["term"]]
        ents = d["ins"] if l["sm"] == "IN" else d["outs"]
        return isinstance(l["override"], list) or (
            not l["override"] and ents[l["entry"]][0] == "bit")

    def compared(self, i, fast):
        v = tv(self, i)
        c = {"== 1": lambda: v == 1, "!= 1": lambda: v != 1,
             "== 0": lambda: v == 0}[cmp_style]()
        if not fast:
            setattr(self, f"dv{i}", 1 if c else 0)
            return
        with c as Else:
            setattr(self, f"dv{i}", 1)
        with Else:
            setattr(self, f"dv{i}", 0)

    def program(self, fast=True):
        for i, l in enumerate(links):
            if l["mode"] == "read" and cmp_style and isbit(i):
                compared(self, i, fast)
            elif l["mode"] == "read":
                setattr(self, f"dv{i}", tv(self, i))
            else:
                if twice:
                    # a default first, then the value: the same variable is
                    # written at two places of one program
                    settv(self, i, 0)
                settv(self, i, getattr(self, f"dv{i}"))

    def update(self):
        program(self, fast=False)

    def tv(self, i):
        l = links[i]
        if l["via"] == "struct" and f"_s{i}" in self.__dict__:
            return getattr(self.__dict__[f"_s{i}"], name_of(l))
        return getattr(self, f"tv{i}")

    def settv(self, i, v):
        l = links[i]
        if l["via"] == "struct":
            # a Struct attribute resolves to the value; writes go through
            # the TerminalVar of the same variable
            setattr(self, f"tv{i}", v)
        else:
            setattr(self, f"tv{i}", v)
    ns["program"] = program
    ns["update"] = update
    D = type("VfDev", (Device,), ns)
    dev = D()
    # first take all PacketVars (a channel linked to a device resolves its
    # descriptors to values), then link the channel Structs
    for i, l in enumerate(links):
        t = ts[l["term"]]
        ch = getattr(t, f"ch{l['ch']}")
        setattr(dev, f"tv{i}", getattr(ch, name_of(l)))
    # (linking a whole channel Struct to a TerminalVar is not exercised: a
    # device holding one cannot join a sync group, Device.get_terminals
    # reads `.sm` of the Struct)
    return dev


def name_of(l):
    if isinstance(l["override"], list):
        return f"pb_{l['sm']}{l['entry']}_{l['override'][1]}"
    if l["override"]:
        return f"po_{l['sm']}{l['entry']}"
    if l["via"] in ("process", "struct"):
        return f"p_{l['sm']}{l['entry']}"
    return f"k_{l['sm']}{l['entry']}"


def var_range(case, l, region_start):
    """(byte offset in the frame payload, fmt or bit) of a linked variable"""
    d = case["terms"][l["term"]]
    ents = d["ins"] if l["sm"] == "IN" else d["outs"]
    f, byte, bit = ents[l["entry"]]
    stride = d["stride_in"] if l["sm"] == "IN" else d["stride_out"]
    off = region_start + byte + stride * l["ch"]
    if isinstance(l["override"], list):
        return off, ("bit", l["override"][1])
    if l["override"]:
        return off, "H"
    return off, (("bit", bit) if f == "bit" else f)


class _Other(Device):
    a = TerminalVar()
    b = TerminalVar()

    def program(self):
        pass

    def update(self):
        pass


def second_group(ec, ts, cls):
    """another sync group over some of the same terminal objects, with a
    different frame layout (an extra terminal in front), allocated before
    the first group's variables are used"""
    tx, vx = ecat.make_terminal(ec, 99, [("H",), ("B",)], [], use_fmmu=False)
    d = _Other()
    d.a = vx[SyncManager.IN, 0]
    t0 = ts[-1]
    sm = SyncManager.IN if t0.pdo_in_sz else SyncManager.OUT
    d.b = PacketVar(t0, sm, 0, "B")
    sg = cls(ec, [d])
    sg.allocate()
    return sg


def check_case(case, res):
    rng = random.Random(case["fseed"])
    links = case["links"]
    shared = case["fseed"] % 3 == 0
    if case["fseed"] % 4 == 1:
        res.count("cases_whose_program_writes_each_output_twice")
    with kern.session() as sess:
        # ---- fast path -----------------------------------------------
        ecf = ecat.OfflineFastEtherCat(sess)
        tsf = build(case, ecf)
        devf = make_device(case, tsf)
        try:
            sgf = FastSyncGroup(ecf, [devf])
            sgf.allocate()
            if shared:
                second_group(ecf, tsf, SyncGroup)
                res.count("terminals_shared_with_a_second_group")
            ld = prog.Loaded(sgf, sess)
            ld.load()
        except Exception as ex:
            res.case(case, nontrivial=False)
            res.violation("unexplained:fast-build",
                          f"{type(ex).__name__}: {str(ex)[-300:]}", case=case)
            return
        try:
            sgf.wkc_errors = 1
            # ---- slow path ----------------------------------------------
            ecs = SimpleEtherCat("vf")
            tss = build(case, ecs)
            devs = make_device(case, tss)
            sgs = SyncGroup(ecs, [devs])
            sgs.next_logical = None
            ecs.next_logical_addr = ecf.next_logical_addr - 0x1000
            sgs.allocate()
            if shared:
                second_group(ecs, tss, SyncGroup)
            if sgs.packet.size != sgf.packet.size or any(
                    sgs.pdo_assign.get(a) != sgf.pdo_assign.get(b)
                    for a, b in zip(tss, tsf)):
                res.inconc("slow and fast groups were laid out differently: "
                           f"{sgs.packet.size} vs {sgf.packet.size}; "
                           f"{[sgs.pdo_assign.get(a) for a in tss]} vs "
                           f"{[sgf.pdo_assign.get(b) for b in tsf]}")
                return
            # where the working counters of the frame lie (parsed from the
            # pristine frame by the harness's own parser)
            from .. import frames as _frames
            wkc_at = set()
            for d_ in _frames.parse(bytes(sgf.packet.sterile(3, 0x3333)),
                                    strict=False)[2]:
                wkc_at.update((d_.wkc_pos, d_.wkc_pos + 1))
            for rep in range(4):
                payload = bytearray(sgf.packet.sterile(3, 0x3333))
                for i in range(16, len(payload)):
                    payload[i] = rng.getrandbits(8)
                # keep datagram headers / counters intact? not needed for
                # the devices; the activate() part only touches writers
                payload[:len(sgf.packet.sterile(3, 0x3333))] = payload
                vals = {}
                for i, l in enumerate(links):
                    if l["mode"] == "write":
                        off, f = var_range(case, l, 0)
                        if isinstance(f, tuple):
                            # any non-zero value sets the bit
                            vals[i] = rng.choice([0, 0, 0, 1, 1, 2, 6, 128,
                                                  255])
                        else:
                            size = struct.calcsize(f)
                            v = rng.getrandbits(8 * size)
                            if f.islower() and v >> (8 * size - 1):
                                v -= 1 << (8 * size)
                            vals[i] = v
                # expected
                exp = bytearray(payload)
                reads = {}
                for i, l in enumerate(links):
                    t = tsf[l["term"]]
                    sm = SyncManager.IN if l["sm"] == "IN" \
                        else SyncManager.OUT
                    if t not in sgf.pdo_assign:
                        res.violation(
                            "unexplained:terminal-not-in-the-group",
                            f"the device uses variables of {t.name}, but "
                            f"the group's frame has no region for that "
                            f"terminal (regions for "
                            f"{[x.name for x in sgf.pdo_assign]})",
                            case=case)
                        return
                    if sm not in sgf.pdo_assign[t]:
                        reads[i] = None
                        continue
                    off, f = var_range(case, l, sgf.pdo_assign[t][sm])
                    if l["mode"] == "read":
                        if isinstance(f, tuple):
                            reads[i] = (exp[off] >> f[1]) & 1
                            # (the device may read the bit by comparing it:
                            # see make_device)
                            style = [None, "== 1", "!= 1",
                                     "== 0"][case["fseed"] % 4]
                            if style in ("!= 1", "== 0"):
                                reads[i] ^= 1
                            if style:
                                res.count("bits_read_by_comparison["
                                          + style + "]")
                        else:
                            reads[i], = struct.unpack_from("<" + f, exp, off)
                    else:
                        if isinstance(f, tuple):
                            if vals[i]:
                                exp[off] |= 1 << f[1]
                            else:
                                exp[off] &= ~(1 << f[1])
                        else:
                            struct.pack_into("<" + f, exp, off, vals[i])
                if any(v is None for v in reads.values()):
                    res.count("skipped_unmapped_region")
                    return
                # fast run
                for i, v in vals.items():
                    setattr(devf, f"dv{i}", v)
                fr = ecat_frame(payload)
                ret, out, _ = ld.run_k(fr)
                fast_reads = {i: int(getattr(devf, f"dv{i}"))
                              for i in reads}
                fast_frame = out[14:]
                # the writer datagrams are re-activated by the group
                # program: compare only the data areas
                # slow run
                sgs.current_data = bytearray(payload)
                for i, v in vals.items():
                    setattr(devs, f"dv{i}", v)
                try:
                    if rep % 2:
                        # the way a received frame reaches the devices
                        # (SyncGroupBase.run -> update_devices)
                        import logging as _lg
                        sgs.wkc_errors = 0      # (as SyncGroup.run does)
                        _lg.disable(_lg.WARNING)
                        try:
                            sgs.update_devices(bytes(payload))
                        finally:
                            _lg.disable(_lg.NOTSET)
                        res.count("slow_cycles_through_update_devices")
                    else:
                        devs.update()
                except Exception as ex:
                    res.case([case, rep], nontrivial=True)
                    res.violation(
                        "unexplained:slow-path-raised",
                        f"the device's Python update raised "
                        f"{type(ex).__name__}: {str(ex)[:100]} for values "
                        f"{vals}", case=case)
                    return
                slow_reads = {i: int(getattr(devs, f"dv{i}")) for i in reads}
                slow_frame = bytes(sgs.current_data)
                res.case([case, rep], nontrivial=len(links) >= 2)
                res.count("reads_compared", len(reads))
                res.count("writes_compared", len(vals))
                for i, want in reads.items():
                    l = links[i]
                    kind = ("bit" if case_fmt(case, l) == "bit"
                            else "bytes")
                    res.count(f"var[{l['via']}/{kind}/{l['mode']}]")
                    if slow_reads[i] != want:
                        res.violation(
                            "unexplained:slow-read",
                            f"slow path read {slow_reads[i]} for {l}, own "
                            f"bytes decode to {want}", case=case)
                        return
                    if fast_reads[i] != want:
                        res.violation(
                            "unexplained:fast-read",
                            f"fast path read {fast_reads[i]} for {l}, own "
                            f"bytes decode to {want}", case=case,
                            witness=ebpfvm.disasm(ld.code)[:80])
                        return
                data_ok_slow = same_data(sgf, slow_frame, exp, wkc_at)
                data_ok_fast = same_data(sgf, fast_frame, exp)
                if data_ok_slow is not None:
                    res.violation(
                        "unexplained:slow-write",
                        f"slow path: frame byte {data_ok_slow} differs from "
                        f"the expected write of exactly the variables' own "
                        f"bytes; links {links}", case=case)
                    return
                if data_ok_fast is not None:
                    res.violation(
                        "unexplained:fast-write",
                        f"fast path: frame byte {data_ok_fast} differs; "
                        f"links {links}", case=case,
                        witness=ebpfvm.disasm(ld.code)[:80])
                    return
            if len(res.samples) < 2:
                res.sample(dict(terms=case["terms"][:2], links=links[:4]))
        finally:
            ld.close()


def case_fmt(case, l):
    d = case["terms"][l["term"]]
    ents = d["ins"] if l["sm"] == "IN" else d["outs"]
    if isinstance(l["override"], list):
        return "bit"
    return "H" if l["override"] else ents[l["entry"]][0]


def ecat_frame(payload):
    return bytes.fromhex("ffffffffffff02000000000188a4") + bytes(payload)


def same_data(sg, got, exp, also_skip=()):
    """compare the data areas of all datagrams (commands and counters of
    writer datagrams are the group program's business, C21)"""
    skip = set(also_skip)
    for start, stop, cmd in sg.packet.on_the_fly:
        skip.add(start)
        skip.update((stop - 2, stop - 1))
    for i in range(16, min(len(got), len(exp))):
        if i in skip:
            continue
        if got[i] != exp[i]:
            return i
    return None


def run_shard(params):
    res = Result()
    rng = random.Random(params["seed"] * 100379 + params["shard"])
    for i in range(params["n"]):
        check_case(gen_case(rng), res)
    return res


def finalize(res, tier, seed):
    c = res.counters
    need = [f"var[{v}/{k}/read]" for v in ("process", "packet")
            for k in ("bit", "bytes")]
    missing = [n for n in need if not c.get(n)]
    if missing:
        res.inconc(f"variable kinds never compared: {missing}")
    if not c.get("writes_compared"):
        res.inconc("no write was compared")


def replay(v):
    res = Result()
    check_case(v["case"], res)
    return res
