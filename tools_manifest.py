"""regenerate MANIFEST.json from the table below (run with any python3)"""
import json
import os

ROOT = os.path.dirname(os.path.abspath(__file__))

# id -> (category, text, note, technique, design_ref)
CHECKS = {
 "C01": ("exploration",
         "Differential execution: seeded random integer DSL programs are "
         "built with the real generator, run in the kernel "
         "(BPF_PROG_TEST_RUN) and in an independent reference eBPF machine, "
         "and every destination is compared with an exact-integer reference "
         "semantics that implements the statement (strict cases in full, "
         "ring-only cases on the low bits). Holds on the executions "
         "observed; strata (operator x signedness x width) are counted and "
         "an empty stratum makes the run inconclusive.",
         "trusts the kernel's execution of eBPF; reference semantics "
         "written from the property statement; statements containing a "
         "known-finding trigger are attributed to that finding",
         "runtime differential monitoring (kernel + reference VM vs exact "
         "reference semantics)", "4 C01"),
 "C02": ("exploration",
         "Differential execution of seeded random fixed-point/integer "
         "statements (kernel + reference machine) against Fraction "
         "arithmetic with set-valued floor/trunc dropping, with-blocks "
         "comparing fixed-point places with decimal / integer constants "
         "and other places at any magnitude the 64-bit representation "
         "holds, plus a "
         "Python-side leg for decimal writes/reads of x variables; strata "
         "(operator x destination kind) are counted, an empty stratum is "
         "inconclusive.",
         "trusts the kernel's execution; strictness is decided "
         "conservatively below arithmetic nodes (every raw value x 10^10 "
         "must fit the width); plain comparisons only need the once-scaled "
         "operands to fit",
         "runtime differential monitoring against a rational reference "
         "model", "4 C02"),
 "C03": ("exploration",
         "Seeded random condition trees (all comparison operators, bit "
         "tests, bit fields, ~ & | nesting, with/Else, nested and sequenced "
         "blocks) are compiled by the real generator; marker variables "
         "record which body / Else body / continuation ran in the kernel "
         "and in the reference machine and are compared with the truth "
         "value computed over exact numbers. Atom x polarity coverage is "
         "counted; holes make the run inconclusive.",
         "trusts the kernel's execution; conditions outside the "
         "precondition (values not fitting the narrowest width) are "
         "counted as unchecked",
         "runtime differential monitoring (branch markers vs reference "
         "truth value)", "4 C03"),
 "C07": ("exploration",
         "Seeded random XDP programs with static and dynamic packet-size "
         "guards and packet variable / packet array accesses of every "
         "format and byte order run on packets of every length around the "
         "guard; the kernel's output packet, return code and read values "
         "are compared with struct.pack/unpack on the input packet, and the "
         "reference machine's byte-level store events on the packet region "
         "must stay inside the declared bytes.",
         "trusts BPF_PROG_TEST_RUN; in-place updates of native 4/8-byte "
         "packet variables cannot be exercised because those programs are "
         "rejected by the verifier (recorded under C05)",
         "runtime differential monitoring (packet bytes vs struct) + store-"
         "event monitor in the reference VM", "4 C07"),
 "C06": ("exploration",
         "The single in-place add statement is compiled by the real "
         "generator for every 4/8-byte format x memory kind x amount kind "
         "(+= and -= of constants, registers, expressions, 4- and 8-byte "
         "variables, 32-bit register views, fixed-point constants); "
         "two instances are run over ALL interleavings of the statement's "
         "instructions (three over all or a seeded sample) in the reference "
         "machine and the conservation law final = initial + sum(amounts) is "
         "checked on every schedule; a kernel leg runs the loaded program "
         "from 8 threads x 100000 repeats on the shared cell.",
         "instruction-granular interleaving model (each eBPF instruction "
         "atomic); exhaustive for 2 instances, bounded for 3; kernel leg "
         "adds real but uncontrolled interleavings",
         "schedule enumeration in a single-step reference VM + kernel "
         "stress, conservation oracle", "4 C06"),
 "C08": ("exploration",
         "Seeded random declaration sets over a base class, a derived class "
         "(with overriding and inherit-only variants) and SubProgram "
         "instances: after the real ArrayMap.init/collect a layout monitor "
         "asserts that the byte ranges of the descriptors attribute lookup "
         "resolves are pairwise disjoint and inside the map; then values "
         "written from Python are copied by the loaded program in the kernel "
         "and read back from Python; per-CPU leg: random declarations incl. "
         "x, the process pinned to chosen CPUs in turn with CPU-specific "
         "inputs, every CPU's entry of every variable compared.",
         "trusts the kernel; multi-element formats are exercised from the "
         "Python side only (the program side addresses their first element)",
         "structural invariant monitor at a hook-free observation point + "
         "round-trip differential runs in the kernel", "4 C08"),
 "C09": ("exploration",
         "Random operation sequences from both sides (Python mapping API; "
         "program update/lookup/member writes/in-place updates executed by "
         "BPF_PROG_TEST_RUN) on hash-map variables and on Dict maps with "
         "random packed Key/Value structures are checked after every "
         "operation against a reference dict bytes->bytes with independently "
         "computed struct layouts, and against the raw kernel contents read "
         "with the harness's own bpf() calls.",
         "trusts the kernel; LRU maps are kept below capacity",
         "runtime monitoring against an executable reference model "
         "(history of operations, model-based oracle)", "4 C09"),
 "C10": ("exploration",
         "A syscall interposer at ebpfcat.bpf.bpf records every map command "
         "with the size of the Python object behind each pointer (captured "
         "at addrof/addressof/c_char.from_buffer) and asserts key >= "
         "key_size, value >= value_size (per-CPU: round_up(8) x possible "
         "CPUs), next_key >= key_size, with map geometry from the "
         "intercepted MAP_CREATE calls; workload = C09's random API "
         "sequences + per-CPU maps created and read under full and "
         "narrowed CPU affinity masks. Thorough tier adds valgrind memcheck "
         "as a second, independent sanitizer.",
         "only calls reachable from the workload are seen; unknown pointer "
         "provenance is counted and must stay below 1%",
         "argument/buffer-size monitor on every syscall + memcheck", "4 C10"),
 "C04": ("exploration",
         "Seeded random programs (main program + SubProgram instances, "
         "stack / array-map / hash-map variables, Dict key and value "
         "members) initialise every variable, write some from expressions "
         "that force generator temporaries, and read everything back; the "
         "kernel result must differ from the initial values only in the "
         "written variables. In the reference machine a shadow ownership map "
         "of the declared stack ranges turns every store into a live foreign "
         "variable into an event with pc and address (caught even when the "
         "clobbering value equals the old one); declared ranges must be "
         "pairwise disjoint.",
         "trusts the kernel; programs whose store events hit only "
         "sub-program locals are attributed to the known finding "
         "subprogram-locals-overlap and not searched further",
         "store-event monitor (shadow ownership map) in the reference VM + "
         "differential final-state oracle", "4 C04"),
 "C05": ("exploration",
         "Every program produced by the generators of C01-C04, C06, C07, C09, "
         "hand-parameterised families (helper calls inside expressions and "
         "conditions, sub-programs, dynamic and nested packet guards) and "
         "the library's own programs (EtherXDP dispatcher; FastSyncGroup "
         "with every bundled device alone and combined over random offline "
         "terminals, FMMU and direct) is assembled by the real generator and "
         "submitted to BPF_PROG_LOAD; the kernel verifier is the oracle and "
         "its log the witness. AssembleError counts as not accepted.",
         "relative to the verifier of the running kernel (6.18) and to the "
         "program families generated; there is no substitute oracle",
         "runtime monitoring with the kernel verifier as sanitizer/oracle",
         "4 C05"),
 "C11": ("exploration",
         "Random datagram sequences (all commands, all addressing forms, "
         "lengths solved onto the size and count boundaries, counters) are "
         "appended to the real Packet / SterilePacket; an independent frame "
         "parser written from the EtherCAT layout checks header length, "
         "type, every datagram header, data and counter positions against "
         "what append returned, the 'more' chain, padding, the maximum "
         "size, rejection without side effects and the sterile copy; "
         "icontract post-conditions on the real append are evaluated on "
         "every call (count reported).",
         "the parser is the trusted base; zero-datagram frames excluded",
         "runtime contracts (icontract) + independent parser as oracle",
         "4 C11"),
 "C13": ("exploration",
         "The real EtherCat.roundtrip is called with random combinations of "
         "format strings, values, trailing read-only formats and raw data "
         "(None / bytes incl. empty / zero count); an echo consumer on the "
         "send queue records the payload and answers with random bytes; "
         "payload and return value are compared with struct.pack/unpack.",
         "small input space sampled at random (24000 calls per quick run)",
         "runtime monitoring at the queue boundary with a struct-based "
         "oracle", "4 C13"),
 "C27": ("exploration",
         "ALL histories up to length 3 (quick) / 4 (thorough) of target "
         "changes, switch readings and clock advances around the moving "
         "time, for two moving times and both safe states, through the real "
         "Valve.update/reset bound to a real slow sync-group frame with a "
         "virtual clock, compared step by step with a reference automaton "
         "of the statement.",
         "exhaustive within the stated bound only; 'has not elapsed' read "
         "as elapsed < movingTime",
         "exhaustive bounded history enumeration against a reference "
         "automaton", "4 C27"),
 "C28": ("exploration",
         "The real Serial.update on an EL6002 channel of a real sync-group "
         "frame runs against a terminal-side handshake model with accept "
         "delays in both directions (all patterns up to the bound plus "
         "seeded random ones) while an application writes random chunks "
         "and drains the receive pipe; a trace automaton over the "
         "request/accept bits and strings seen each cycle checks one toggle "
         "per string, strings unchanged until accepted, and exact byte "
         "streams on both pipes.",
         "terminal handshake modelled from the EL6002 documentation; "
         "bounded delays and transfer counts",
         "online trace-specification checker over a simulated peer",
         "4 C28"),
 "C14": ("exploration",
         "ALL terminal behaviours within the bound (start state x error flag "
         "x target x per-transition latencies x error appearing at a poll) "
         "are played by an ESC model on a simulated ring against the full "
         "real stack (to_operational -> roundtrip -> sendloop -> transport); "
         "the ordered AL-control writes and AL-status reads observed at the "
         "terminal and the call's outcome are judged by a trace automaton "
         "written from the statement.",
         "exhaustive within the bound only; terminal modelled as a "
         "conformant slave that refuses skipped states",
         "online trace automaton over events hooked at the simulated "
         "hardware", "4 C14"),
 "C20": ("exploration",
         "ALL sequences of up to 5 (quick) / 7 (thorough) open-read, "
         "open-write and close operations on terminals with 1..4 FMMUs run "
         "through the real Terminal.map_fmmu context manager over the "
         "simulated bus; after every step the slot table and the FMMU "
         "register writes seen by the terminal model are checked against "
         "the invariant live mappings <-> distinct FMMUs; plus seeded "
         "histories of 2-4 concurrent tasks opening, holding and closing "
         "mappings of one terminal at random offsets.",
         "sequential part exhaustive within the bound only; concurrent "
         "part sampled",
         "invariant assertion at a hook (slot table + register writes at "
         "the simulated terminal) after every operation", "4 C20"),
 "C16": ("exploration",
         "The real Terminal.sdo_write / sdo_read run over the real send "
         "loop against an ESC mailbox model and an ETG.1000.6 SDO server "
         "(expedited, normal, segmented, complete access, toggle and size "
         "checking) for six mailbox sizes and every value length around the "
         "segmentation boundaries, with response latencies and one to three "
         "unrelated mails queued first, plus histories of 2-3 tasks "
         "transferring different objects of one terminal concurrently; the "
         "server's object store, its protocol-error "
         "log (toggle bits, message lengths vs mailbox size) and the "
         "returned bytes are compared with the value.",
         "the SDO server model is the conformance reference; at the pinned "
         "tree only expedited transfers and single-mailbox uploads work, "
         "the rest are known findings, so regressions inside the broken "
         "paths cannot be seen",
         "runtime monitoring against a protocol-conformant peer model "
         "(server-side protocol checker + value oracle)", "4 C16"),
 "C17": ("exploration",
         "Seeded random well-formed SII images are served by an EEPROM "
         "interface model (4- or 8-byte reads, random busy polls); the real "
         "read_eeprom / parse_sync_managers / parse_pdos (EEPROM source, and "
         "SDO source through the SDO server model for terminals with "
         "mailboxes) are compared with the generating image: identity "
         "words, every category keyed by type, every sync-manager area, "
         "every mapped entry's sync manager, byte offset and bit / format.",
         "well-formed images only (byte entries byte-aligned, distinct "
         "category types)",
         "runtime differential monitoring against the generating image",
         "4 C17"),
 "C12": ("exploration",
         "The real send path runs on a virtual-time event loop with a fake "
         "transport; client tasks issue requests with unique ids in the "
         "address fields (sizes up to and beyond the frame limit, bursts "
         "above 15 datagrams, seeded start order, cancellations at four "
         "points); the transport delays, loses, duplicates and reorders "
         "frames and sets per-datagram working counters; a history checker "
         "over call / enqueue / frame / return events decides sent-once, "
         "submission order, own bytes, error iff own counter 0, pending iff "
         "frame lost, independence of neighbours, and a logical-step "
         "watchdog detects a send loop that spins without yielding.",
         "FIFO scheduling of ready callbacks is kept; interleavings come "
         "from seeded delays, not from permuting the ready queue",
         "offline history checker with unique ids over recorded events + "
         "logical-step stall detector", "4 C12"),
 "C15": ("exploration",
         "In-process: concurrent sdo_read / expedited sdo_write / "
         "coe_request tasks of one terminal run through the simulated "
         "mailbox with MailboxLock and with ParallelMailboxLock; the "
         "terminal model's ordered mailbox write/read events (counter, owner "
         "tag) are checked for mutual exclusion and for the 1..7 counter "
         "chain. Creation window: a second LockFile is opened (and takes a "
         "counter) at every point between the creator's O_EXCL open and its "
         "initialising write through an os proxy. Cross-process: 2-3 real "
         "processes do locked exchanges on one lock file under random "
         "sleeps and injected delays around every pread/pwrite/lockf of the "
         "lock protocol; the shared append-only log is checked the same "
         "way.",
         "cross-process schedules are those the OS scheduler, random sleeps "
         "and injected delays produce (not enumerated)",
         "offline history checker over events recorded at the simulated "
         "terminal / shared log; deterministic fault point injection for "
         "the creation window", "4 C15"),
 "C25": ("exploration",
         "Simulated rings of 2-40 terminals with pre-assigned and missing "
         "station addresses and a narrowed address range run concurrent "
         "Terminal.initialize(relative=-i), scan_serial_numbers() and both, "
         "with seeded frame delays; every write to the station-address "
         "register observed at the terminal models is checked against the "
         "range, against addresses already answering on the ring at that "
         "moment, and for pairwise distinctness.",
         "range exhaustion is excluded (the statement does not cover it; "
         "find_free_address then spins without yielding, noted in DESIGN)",
         "invariant assertion at a hook on the simulated hardware "
         "(register 0x10 writes) under seeded schedules", "4 C25"),
 "C18": ("exploration",
         "Seeded random masters (1-12 terminals, FMMU / direct / "
         "Aerotech-style, read-only / read-write, 1-4 slow and fast sync "
         "groups, incl. oversized ones and groups solved to need exactly "
         "MAXSIZE-2 .. MAXSIZE+3 bytes): after the real allocate() the "
         "cyclic frame is parsed independently and each terminal's regions "
         "are checked for exact size, containment in the transporting "
         "datagram, disjointness, agreement of fmmu_maps with the datagram's "
         "logical base, disjoint logical windows across groups, and "
         "OverflowError for groups that cannot fit; dynamic leg: the real "
         "map_fmmu programs FMMU registers of terminal models, one cycle is "
         "exchanged and unique RAM patterns must land exactly in their "
         "regions / output RAM.",
         "placement freedom is accepted (any disjoint placement inside the "
         "transporting datagram); groups without process data are skipped",
         "layout invariant monitor after the real allocation + data-path "
         "probe through the simulated bus", "4 C18"),
 "C24": ("fault_enumeration",
         "For slow and fast sync groups (fast: real program load and real "
         "PROG_ARRAY) on the simulated bus, a baseline run counts the event "
         "loop iterations until three cycles are done and every (quick: "
         "every second) iteration is then used as a cancellation point in a "
         "fresh run; the parent side of the process-based kind is cancelled "
         "at several times with a real spawned child. After each injection: "
         "the task must end cancelled, every terminal model that saw an "
         "OPERATIONAL request must have seen SAFE-OPERATIONAL afterwards, "
         "all FMMU slots must be free, the kernel program table entry gone, "
         "the child exited.",
         "one cancellation per run, not inside the clean-up; the child of "
         "the process-based kind is a stand-in obeying the running flag "
         "(the real subprocess_run needs a NIC and RT scheduling)",
         "fault (cancellation) injection at every scheduling point + "
         "post-condition monitor on simulated hardware and kernel state",
         "4 C24"),
 "C30": ("exploration",
         "The real SyncGroup.start()/run() cycles on the virtual loop "
         "against the bus model, which feeds cycle-dependent input patterns, "
         "wrong working counters and lost frames; a history checker over the "
         "frames sent, responses, device-visible inputs, outputs and the "
         "error count verifies the data flow cycle by cycle and the exact "
         "error accounting from the second cycle on.",
         "random runs (128 per quick run, 8-30 cycles each)",
         "offline history checker over recorded frames and hook on "
         "update_devices", "4 C30"),
 "C26": ("exploration",
         "The real Motor.program inside a real FastSyncGroup is loaded into "
         "the kernel and executed with BPF_PROG_TEST_RUN on boundary cross "
         "products, seeded random vectors inside the preconditions and "
         "vectors solved onto each clamp edge (55 000 per quick run, 2 "
         "million thorough); the velocity and enable bytes of the output "
         "frame are compared with the limited control law over Python "
         "integers; the reference machine re-executes a sample.",
         "the statement is universal over bit-vectors; this decides only "
         "the executed vectors (a sparse counter-example away from the "
         "boundaries could be missed)",
         "runtime differential monitoring of the loaded program against a "
         "reference law", "4 C26"),
 "C19": ("exploration",
         "Seeded random terminals (random PDO maps with bit and byte "
         "entries, channel Structs with byte and CoE offsets, ProcessDesc / "
         "PacketDesc descriptors incl. format overrides and bit-number "
         "overrides 0..7 of byte entries) and devices linking "
         "2-8 variables as reads or writes are run on both paths over the "
         "same random frame: the real slow SyncGroup with the device's "
         "Python update(), and the real FastSyncGroup program loaded into "
         "the kernel (BPF_PROG_TEST_RUN); every read must equal the struct "
         "decode of the variable's own bytes / bit, every write must change "
         "exactly those, and both paths must agree.",
         "little-endian host; linking a whole channel Struct to a device is "
         "not exercised (such a device cannot join a sync group)",
         "runtime differential monitoring of two implementations against a "
         "struct-based oracle", "4 C19"),
 "C21": ("model_checking",
         "Breadth-first exploration (depth 8 quick / 16 thorough, several "
         "start counters, 8 group layouts with 0-3 direct/FMMU writer "
         "datagrams) of the abstract state (counter low byte, <= 3 in-flight "
         "frames with index byte, writer commands and counter classes, "
         "output-enabled flag); every transition executes the real "
         "dispatcher and group bytecode in the reference machine with a "
         "PROG_ARRAY model, every 50th is replayed in the kernel and must "
         "agree. Per-transition monitors check the re-activation rules and "
         "that no frame is sent back with enabled writers unless the group "
         "program ran in that pass.",
         "exhaustive only over the abstracted state, the bound and the "
         "layouts generated; the reference machine is validated against the "
         "kernel on the replayed sample",
         "bounded explicit-state exploration where every transition is a "
         "real bytecode execution, with per-step runtime monitors",
         "4 C21/C22"),
 "C22": ("model_checking",
         "Same engine as C21 for registered groups, groups without a "
         "registered program and group indices >= MAX_PROGS, plus random "
         "foreign frames (other ethertypes, first datagram not the "
         "identification NOP, short frames, garbage): the action must be TX "
         "or PASS, foreign frames must pass byte-identical without touching "
         "the counters, frames of an unregistered group must reach user "
         "space with the ethertype of the identification datagram within a "
         "bounded number of passes, and for a registered group never three "
         "consecutive frames are sent back to the bus without running the "
         "group program; read literally (every frame the dispatcher "
         "handles counts) the bound of two is checked on all histories "
         "with at most two frames in flight from every value of the "
         "counter byte, and a bound of three with three in flight.",
         "no re-injection for unregistered groups; the literal reading is "
         "violated by the pinned code with three frames in flight "
         "delivered out of order (known finding), see DESIGN",
         "bounded explicit-state exploration where every transition is a "
         "real bytecode execution, with per-step runtime monitors",
         "4 C21/C22"),
 "C29": ("exploration",
         "Real ProcessSyncGroup objects over devices with DeviceVars of "
         "every format (classes generated in an importable module) are "
         "pickled into a real multiprocessing 'spawn' child exactly like "
         "subprocess_run receives them; parent and child alternately write "
         "distinct random values (x variables with either sign) and read "
         "the other side's; then the same device objects join a second "
         "group with new devices and the exchange is repeated; the byte "
         "ranges of all variables in the shared array must be pairwise "
         "disjoint.",
         "the child runs a harness function instead of the cyclic loop; 32 "
         "configurations per quick run (process spawn dominates the cost)",
         "runtime monitoring across a real process boundary (value oracle + "
         "layout invariant)", "4 C29"),
 "C23": ("exploration",
         "2-3 participants run the real ParallelEtherCat.run() enter / hold "
         "/ exit under a gate scheduler: every file-system, lock and kernel "
         "operation they issue (mkdtemp, open 'x', rename, rmdir, remove, "
         "rmtree, os.open, pread, pwrite, ftruncate, lockf, obj_pin, "
         "obj_get, attach, detach, the 0.1 s retry sleep) is a scheduling "
         "point. All schedules with at most 2 (quick) / 3 (thorough) "
         "preemptions are enumerated for 2 participants, seeded random "
         "schedules for 3. A history checker over the recorded effects "
         "decides: installers never overlap, no detach / unpin while "
         "another participant runs or installs, a running participant "
         "always has the dispatcher attached and the table pinned, "
         "ethertypes of concurrent participants differ, logical windows of "
         "live participants are disjoint.",
         "participants are threads with a lock table standing in for "
         "per-process POSIX record locks; attach / pin are recording stubs "
         "with the real error behaviour; random choices are narrowed to "
         "1..3 values so that collisions are reachable; crash points are "
         "not explored (the statement gives no expected outcome)",
         "runtime monitoring under a controlled scheduler (bounded-"
         "preemption schedule enumeration + offline history checker)",
         "4 C23"),
}

STRENGTHENED = json.load(open(os.path.join(ROOT, "tools_strengthening.json")))

NOT_YET = "check not built yet in this round (design in DESIGN.md section 4)"


def main():
    props = [json.loads(l)["id"]
             for l in open(os.path.join(ROOT, "properties.jsonl"))]
    checks = []
    for pid in props:
        if pid not in CHECKS:
            continue
        cat, text, note, tech, ref = CHECKS[pid]
        added = [v for k, v in sorted(STRENGTHENED.items())
                 if k.startswith(pid + "-") and not v.startswith(
                     ("same as", "not caught by"))]
        if added:
            text += (" Input classes / legs added after independently "
                     "seeded changes were missed (DESIGN.md section 10): "
                     + "; ".join(added) + ".")
        checks.append(dict(
            property_id=pid,
            quick_cmd=f"./check {pid} --tier quick",
            thorough_cmd=f"./check {pid} --tier thorough",
            evidence_file=f"/verif/evidence/{pid}.json",
            replay_cmd_template=f"./check {pid} --replay {{path}}",
            engine="vf",
            level_claimed=dict(category=cat, text=text,
                               design_ref=f"DESIGN.md section {ref}"),
            level_note=note, technique=tech))
    man = dict(
        version=1,
        setup_cmd="sh ./setup.sh",
        hooks=dict(
            guard="EBPFCAT_VERIF",
            enable="no source hooks: every observation point is a "
                   "module-global proxy installed by the harness from "
                   "outside (DESIGN.md section 6)",
            baseline_off_cmd="cd /repo && /venv/bin/python -m pytest -ra -q "
                             "-p no:cacheprovider --timeout=900 "
                             "--continue-on-collection-errors",
            source_commits=[], add_only=True),
        engines=[dict(name="vf", path="/verif/vf",
                      serves_properties=sorted(CHECKS),
                      kind_free_text="runtime monitoring: real code under "
                      "generated workloads, kernel + reference eBPF machine, "
                      "simulated EtherCAT bus, history checkers")],
        checks=checks,
        notes="Runtime monitoring only; see DESIGN.md. Genuine defects are "
              "in known_findings.json (fixed ones were repaired by fix: "
              "commits in /repo).",
        not_applicable=[dict(property_id=p, reason=NOT_YET)
                        for p in props if p not in CHECKS])
    with open(os.path.join(ROOT, "MANIFEST.json"), "w") as f:
        json.dump(man, f, indent=1)
        f.write("\n")


if __name__ == "__main__":
    main()
