"""C11 assembled EtherCAT frames are well-formed with exact datagram positions"""
import random
import struct

from .. import frames, use_repo
from ..core import Result
use_repo()

from ebpfcat.ebpfcat import SterilePacket  # noqa: E402
from ebpfcat.ethercat import ECCmd, Packet  # noqa: E402

try:
    import icontract
except ImportError:          # the contracts are an extra monitor
    icontract = None

PROPERTY = "C11"
LEVEL = "exploration"
RULE = ("seeded random datagram sequences appended to the real Packet and "
        "SterilePacket (append, append_writer, append_fmmu): all ECCmd "
        "commands, position/node addressing (signed 16-bit + unsigned "
        "16-bit), logical addressing (signed 32-bit), data lengths 0..max "
        "with sizes solved to land on MAXSIZE-1/MAXSIZE/MAXSIZE+1 and on "
        "14/15/16 datagrams, working-counter presets, indices; every accepted "
        "datagram's returned (start, stop), every rejected datagram's "
        "OverflowError and the assembled / sterile bytes are checked by an "
        "independent parser; icontract post-conditions on the real append "
        "count their evaluations. a case = one sequence; non-trivial = at "
        "least one user datagram accepted")
ASSUMPTIONS = ["a frame without any user datagram is outside the rule about "
               "the 'more' flag (no library path produces one, see DESIGN)"]
MIN_EVALUATIONS = {"quick": 5000, "thorough": 200000}
CMDS = list(ECCmd)
HDR, TAIL, PH = 10, 2, 16


class PostBroken(Exception):
    pass


CONTRACT = dict(evaluations=0)


def _size_of(self):
    return self.size


def _len_of(self):
    return len(self.data)


def _post_append(self, result, OLD, data):
    CONTRACT["evaluations"] += 1
    return (self.size == OLD.size + len(data) + HDR + TAIL
            and len(self.data) == OLD.n + 1
            and result == (OLD.size + HDR, OLD.size + HDR + len(data)))


def contracted_packet():
    """Packet whose append carries an icontract post-condition"""
    if icontract is None:
        return Packet

    class CPacket(Packet):
        pass
    f = icontract.ensure(_post_append, error=PostBroken)(Packet.append)
    f = icontract.snapshot(_size_of, name="size")(f)
    f = icontract.snapshot(_len_of, name="n")(f)
    CPacket.append = f
    return CPacket


def plan(tier, seed):
    if tier == "quick":
        return [dict(seed=seed, shard=i, n=5000) for i in range(16)]
    return [dict(seed=seed, shard=i, n=20000) for i in range(32)]


def gen_case(rng):
    style = rng.random()
    sterile = rng.random() < 0.5
    dgs = []
    if style < 0.3:
        # fill up to the size boundary
        target = Packet.MAXSIZE + rng.choice([-2, -1, 0, 0, 1, 2])
        size = PH
        n = rng.randint(1, 10)
        for i in range(n):
            room = target - size - (HDR + TAIL)
            if i == n - 1:
                ln = max(0, room)
            else:
                ln = rng.randint(0, max(0, room // (n - i)))
            dgs.append(ln)
            size += ln + HDR + TAIL
        # more that may not fit, then smaller ones that may fit again
        for _ in range(rng.randint(1, 3)):
            dgs.append(rng.choice([rng.randint(0, 5), rng.randint(0, 40),
                                   0]))
    elif style < 0.5:
        # count boundary
        n = rng.choice([13, 14, 15, 16, 17])
        dgs = [rng.randint(0, 20) for _ in range(n)]
    else:
        n = rng.randint(1, 8)
        dgs = [rng.choice([0, 1, 2, 4, 8, rng.randint(0, 200),
                           rng.randint(0, 1488)]) for _ in range(n)]
    out = []
    for ln in dgs:
        cmd = rng.choice(CMDS)
        if cmd.value in frames.LOGICAL:
            addr = [rng.choice([0, 1, -1, 0x10000, 0x7fffffff, -0x80000000,
                                rng.randint(-2 ** 31, 2 ** 31 - 1)])]
        else:
            addr = [rng.choice([0, -1, 1, -32768, 32767,
                                rng.randint(-32768, 32767)]),
                    rng.choice([0, 0x10, 0x120, 0xffff,
                                rng.randint(0, 0xffff)])]
        out.append(dict(cmd=cmd.value, len=ln, seed=rng.getrandbits(16),
                        idx=rng.randint(0, 255), addr=addr,
                        wkc=rng.choice([0, 1, 3, rng.randint(0, 0xffff)]),
                        writer=rng.random() < 0.4))
    # identical datagrams in one frame (two tasks polling one register)
    if len(out) >= 2 and rng.random() < 0.25:
        i = rng.randrange(len(out) - 1)
        j = rng.choice([len(out) - 1, rng.randrange(i + 1, len(out))])
        out[j] = dict(out[i])
        if rng.random() < 0.3 and len(out) >= 3:
            out[rng.randrange(len(out))] = dict(out[i])
    fmmu = None
    if sterile and rng.random() < 0.4:
        # the FMMU datagrams of a sync group (LRD for the inputs, LWR for
        # the outputs) appended somewhere in the sequence
        fmmu = dict(at=rng.randint(0, len(out)),
                    isz=rng.choice([0, 0, 2, 6, 40, rng.randint(1, 300)]),
                    osz=rng.choice([0, 0, 2, 4, 30, rng.randint(1, 300)]),
                    ic=rng.randint(0, 5), oc=rng.randint(0, 5),
                    logical=rng.choice([0x1000, 0x2000, 0x400000,
                                        rng.randrange(0, 2 ** 31 - 0x1000)]))
    return dict(sterile=sterile, dgs=out, index=rng.getrandbits(31),
                ethertype=rng.choice([0x88A4, 0x3000, 0x5fff]), fmmu=fmmu)


def sterile_of(p, case, index=0, ethertype=0x88A4):
    """the sterile copy (or the exception it raises, as a string)"""
    if not case["sterile"]:
        return None
    try:
        return bytes(p.sterile(index, ethertype))
    except Exception as ex:
        return f"{type(ex).__name__}: {ex}"


def check_case(case, res):
    P = SterilePacket if case["sterile"] else PKT
    p = P()
    accepted = []
    writers = []
    fm = case.get("fmmu")

    def add_fmmu():
        need = sum(sz + HDR + TAIL for sz in (fm["isz"], fm["osz"]) if sz)
        nd = sum(1 for sz in (fm["isz"], fm["osz"]) if sz)
        if p.size + need > Packet.MAXSIZE or len(accepted) + nd > 15:
            res.count("fmmu_datagrams_skipped_no_room")
            return
        p.fmmu_in_size, p.fmmu_out_size = fm["isz"], fm["osz"]
        p.fmmu_in_count, p.fmmu_out_count = fm["ic"], fm["oc"]
        ipos, opos, ilog, olog = p.append_fmmu(fm["logical"])
        res.count("append_fmmu_calls")
        if fm["isz"]:
            accepted.append((dict(cmd=ECCmd.LRD.value, idx=0, addr=[ilog],
                                  len=fm["isz"], wkc=fm["ic"]),
                             bytes(fm["isz"]),
                             (ipos + HDR, ipos + HDR + fm["isz"])))
        if fm["osz"]:
            accepted.append((dict(cmd=ECCmd.LWR.value, idx=0, addr=[olog],
                                  len=fm["osz"], wkc=fm["oc"]),
                             bytes(fm["osz"]),
                             (opos + HDR, opos + HDR + fm["osz"])))
            writers.append(len(accepted) - 1)
    for nd_, d in enumerate(case["dgs"]):
        if fm and fm["at"] == nd_:
            add_fmmu()
        data = bytes((d["seed"] + i) & 0xff for i in range(d["len"]))
        before = (p.size, len(p.data), p.assemble(case["index"], case["ethertype"]),
                  sterile_of(p, case, case["index"], case["ethertype"]))
        fits = p.size + d["len"] + HDR + TAIL <= Packet.MAXSIZE and \
            len(accepted) < 15
        try:
            if case["sterile"]:
                if d["writer"]:
                    start0 = p.size
                    p.append_writer(ECCmd(d["cmd"]), data, d["idx"],
                                    *d["addr"], counter=d["wkc"])
                    ret = (start0 + HDR, start0 + HDR + len(data))
                else:
                    start0 = p.size
                    p.append(ECCmd(d["cmd"]), data, d["idx"], *d["addr"],
                             counter=d["wkc"])
                    ret = (start0 + HDR, start0 + HDR + len(data))
            else:
                ret = p.append(ECCmd(d["cmd"]), data, d["idx"], *d["addr"],
                               wkc=d["wkc"])
            ok = True
        except OverflowError:
            ok = False
        except PostBroken as ex:
            res.violation("unexplained:append-contract",
                          f"post-condition of Packet.append broken: {ex}",
                          case=case)
            return
        res.count("append_accepted" if ok else "append_rejected")
        if ok != fits:
            res.violation(
                "unexplained:accept-reject",
                f"datagram of {d['len']} bytes with packet size "
                f"{before[0]} and {before[1]} datagrams was "
                f"{'accepted' if ok else 'rejected'}", case=case)
            return
        if not ok:
            after = (p.size, len(p.data), p.assemble(case["index"], case["ethertype"]),
                     sterile_of(p, case, case["index"], case["ethertype"]))
            if after != before:
                res.violation("unexplained:rejected-append-changed-packet",
                              "a rejected datagram changed the packet",
                              case=case)
                return
            if before[0] + d["len"] + HDR + TAIL > Packet.MAXSIZE:
                res.count("rejected_for_size")
            else:
                res.count("rejected_for_count")
            continue
        accepted.append((d, data, ret))
        if case["sterile"] and d["writer"]:
            writers.append(len(accepted) - 1)
    if fm and fm["at"] >= len(case["dgs"]):
        add_fmmu()
    res.case(case, nontrivial=bool(accepted))
    if not accepted:
        return
    frame = p.assemble(case["index"], case["ethertype"])
    res.count("frames_parsed")
    res.count(f"datagrams_in_frame[{len(accepted)}]")
    if p.size in (Packet.MAXSIZE - 1, Packet.MAXSIZE):
        res.count("frames_at_size_boundary")
    try:
        length, typ, dgs, pad = frames.parse(frame)
    except frames.FrameError as ex:
        res.violation("unexplained:malformed-frame", str(ex), case=case,
                      witness=frame.hex())
        return
    problems = []
    if typ != 1:
        problems.append(f"type {typ}")
    if length != p.size - 2:
        problems.append(f"header length {length} vs payload {p.size - 2}")
    if len(frame) > Packet.MAXSIZE:
        problems.append(f"frame of {len(frame)} bytes")
    if len(frame) < 46:
        problems.append(f"frame of {len(frame)} bytes not padded to 46")
    if len(frame) != max(46, p.size):
        problems.append(f"frame is {len(frame)} bytes, size says {p.size}")
    if len(dgs) != len(accepted) + 1:
        problems.append(f"{len(dgs)} datagrams parsed, "
                        f"{len(accepted)} + id expected")
    else:
        idd = dgs[0]
        if (idd.cmd, idd.length) != (0, 2) or \
                struct.unpack("<i", struct.pack("<hH", *idd.addr))[0] != \
                case["index"] or \
                struct.unpack("<H", idd.data)[0] != case["ethertype"]:
            problems.append("identification datagram wrong: "
                            f"{idd.as_dict()}")
        for i, ((d, data, ret), g) in enumerate(zip(accepted, dgs[1:])):
            if (g.cmd, g.idx, list(g.addr), g.length) != \
                    (d["cmd"], d["idx"], d["addr"], d["len"]):
                problems.append(f"datagram {i} header {g.as_dict()} vs "
                                f"{d}")
            if g.data != data or g.wkc != d["wkc"]:
                problems.append(f"datagram {i} data/wkc differ")
            if ret != (g.data_pos, g.wkc_pos):
                problems.append(f"datagram {i}: append returned {ret}, "
                                f"data really at {(g.data_pos, g.wkc_pos)}")
            if g.more != (i < len(accepted) - 1):
                problems.append(f"datagram {i}: more={g.more}")
        if not dgs[0].more:
            problems.append("identification datagram without 'more'")
    if case["sterile"]:
        st = sterile_of(p, case, case["index"], case["ethertype"])
        if isinstance(st, str):
            res.violation("unexplained:sterile-raised",
                          f"sterile() raised {st}", case=case)
            return
        exp = bytearray(frame)
        for w in writers:
            exp[dgs[w + 1].hdr_pos] = 0
        res.count("sterile_frames")
        res.count("sterile_writer_datagrams", len(writers))
        if st != bytes(exp):
            diff = [i for i in range(min(len(st), len(exp)))
                    if st[i] != exp[i]]
            problems.append(f"sterile copy differs at {diff[:6]} "
                            f"(writers at "
                            f"{[dgs[w + 1].hdr_pos for w in writers]})")
    if problems:
        res.violation("unexplained:" + problems[0].split(":")[0][:40],
                      "; ".join(problems[:4]), case=case,
                      witness=frame[:120].hex())
    elif len(res.samples) < 3:
        res.sample(dict(datagrams=[(d["cmd"], d["len"], d["addr"])
                                   for d, _, _ in accepted][:6],
                        frame_bytes=len(frame), head=frame[:40].hex()))


PKT = contracted_packet()


def run_shard(params):
    res = Result()
    rng = random.Random(params["seed"] * 100193 + params["shard"])
    for i in range(params["n"]):
        case = gen_case(rng)
        try:
            check_case(case, res)
        except (struct.error, ValueError, IndexError, TypeError,
                OverflowError) as ex:
            # every datagram of a case was accepted by append(): assembling
            # must not fail afterwards
            res.violation("unexplained:assemble-raised",
                          f"assembling a packet of accepted datagrams "
                          f"raised {type(ex).__name__}: {ex}", case=case)
    res.count("icontract_postcondition_evaluations", CONTRACT["evaluations"])
    res.info["icontract_available"] = icontract is not None
    return res


def finalize(res, tier, seed):
    c = res.counters
    need = ["rejected_for_size", "rejected_for_count",
            "frames_at_size_boundary", "sterile_writer_datagrams"]
    missing = [n for n in need if not c.get(n)]
    if missing:
        res.inconc(f"never observed: {missing}")
    if not c.get("icontract_postcondition_evaluations"):
        res.info["note"] = "icontract post-conditions were not evaluated"


def replay(v):
    res = Result()
    check_case(v["case"], res)
    return res
