"""C07 packet variables access exactly their declared bytes and byte order"""
import random
import struct

from .. import ebpfvm, kern, prog
from ..core import Result
from .. import use_repo
use_repo()

from ebpfcat.arraymap import ArrayMap  # noqa: E402
from ebpfcat.ebpf import AssembleError  # noqa: E402
from ebpfcat.xdp import XDP, PacketVar, XDPExitCode  # noqa: E402

PROPERTY = "C07"
LEVEL = "exploration"
RULE = ("seeded random XDP programs with a static minimumPacketSize G or a "
        "dynamic guard in each spelling (`packetSize > G`, `>= G+1`, and "
        "the too-short forms `< G+1`, `<= G` with the body in the Else "
        "branch) and 1-4 packet accesses "
        "(PacketVar(p, fmt) for fmt in BHIQbhiq x byte order native < > !, "
        "packet arrays pB/pH/pI/pQ[p]; read into an 8-byte map variable, "
        "write of a constant / a map variable / an expression / a bare "
        "register that is stored twice and read back, in-place update) with p+size <= G; each run on packets of every length in "
        "[max(14,G-6), G+6] plus large ones with random contents, in the "
        "kernel (authority) and the reference machine (byte-level store "
        "events); a case = (program, packet); non-trivial = the body ran and "
        "at least one access was compared; distinct by hash")
ASSUMPTIONS = ["the kernel's BPF_PROG_TEST_RUN returns the packet as the "
               "program left it",
               "len == G may run or skip the body (the statement fixes only "
               "'longer' and 'shorter than its accesses need')"]
MIN_EVALUATIONS = {"quick": 3000, "thorough": 60000}

LETTERS = "BHIQbhiq"
ORDERS = ["", "<", ">", "!"]


def plan(tier, seed):
    if tier == "quick":
        return [dict(seed=seed, shard=i, n=400) for i in range(16)]
    return [dict(seed=seed, shard=i, n=1200) for i in range(64)]


def gen_case(rng):
    G = rng.choice([14, 15, 16, 20, 30, 33, 46, 60, 64, 100,
                    rng.randint(14, 120)])
    dynamic = rng.random() < 0.3
    # a dynamic guard "longer than G" guarantees the byte at offset G too
    limit = G + 1 if dynamic and rng.random() < 0.4 else G
    acc = []
    for i in range(rng.randint(1, 4)):
        letter = rng.choice(LETTERS)
        size = struct.calcsize(letter)
        if size > G:
            letter, size = "B", 1
        p = rng.randint(0, limit - size)
        if rng.random() < 0.25:
            p = limit - size          # touch the last guaranteed byte
        if rng.random() < 0.25:
            # packet array access (native order, unsigned)
            kind = "arr"
            letter = {1: "B", 2: "H", 4: "I", 8: "Q"}[size]
            fmt = letter
        else:
            kind = "var"
            fmt = rng.choice(ORDERS) + letter
        op = rng.choice(["read", "read", "wconst", "wvar", "wexpr", "iadd",
                         "isub", "wreg", "wcopy", "iand", "ior", "ixor",
                         "readand"])
        val = rng.getrandbits(8 * size)
        if size == 8 and rng.random() < 0.3:
            # constants around the 32-bit immediate range, as they are and
            # as they look after a byte swap
            val = rng.choice([0x80000000, 0xffffffff, 0xdeadbeef,
                              0x90000000, 0x100000000, 0x7fffffff,
                              0xefbeadde00000000, 0x0000008000000000,
                              0xffffffff00000000])
        elif rng.random() < 0.3:
            val = rng.choice([0, 1, (1 << (8 * size)) - 1,
                              1 << (8 * size - 1), 0x1234567890abcdef
                              & ((1 << (8 * size)) - 1)])
        extra = {}
        if op == "wcopy":
            # a direct copy from another packet variable (any width/order)
            sl = rng.choice(LETTERS)
            ssize = struct.calcsize(sl)
            if ssize > G:
                sl, ssize = "B", 1
            extra = dict(sfmt=rng.choice(ORDERS) + sl,
                         sp=rng.randint(0, G - ssize))
        if op in ("iand", "ior", "ixor"):
            # masks of the 32-bit immediate range and beyond
            extra = dict(mask=rng.choice([
                0xffffffff, 0x80000000, 0xffff0000, 0x7f, 0xff00,
                0xff00ff00ff00ff00, 0xffffffff00000000, 0x7fffffff,
                rng.getrandbits(8 * size)]))
        if op == "readand":
            # the field masked to (part of) its own width: the idiom for
            # the unsigned value of a signed field
            full = (1 << (8 * size)) - 1
            extra = dict(mask=rng.choice([full, full, full >> 1, 0x0f,
                                          rng.getrandbits(8 * size)]))
        acc.append(dict(kind=kind, fmt=fmt, p=p, op=op, val=val,
                        amount=rng.choice([1, 3, 7, 255, 65536, -1, -5,
                                           0x80000000, 0xffff0000]),
                        **extra))
    lens = sorted(set(
        [n for n in range(max(14, G - 6), G + 7)] +
        [rng.randint(G + 7, G + 300), 1400]))
    return dict(G=G, dynamic=dynamic, acc=acc, lens=lens,
                # the size is configured on the instance (a subclass
                # __init__, an application option) and differs from the
                # class's default
                instance_size=(not dynamic and rng.random() < 0.25),
                form=rng.choice(["gt", "gt", "ge", "lt", "le"]),
                pktseed=rng.getrandbits(32))


def to_signed(v, size):
    v &= (1 << (8 * size)) - 1
    return v - (1 << (8 * size)) if v >> (8 * size - 1) else v


def build(case):
    G = case["G"]
    ns = {"license": "GPL", "m": ArrayMap()}
    m = ns["m"]
    ns["mark"] = m.globalVar("B")
    ns["short"] = m.globalVar("B")
    if not case["dynamic"]:
        ns["minimumPacketSize"] = G
    for i, a in enumerate(case["acc"]):
        letter = a["fmt"][-1]
        ns[f"o{i}"] = m.globalVar("q" if letter.islower() else "Q")
        ns[f"i{i}"] = m.globalVar(letter)
        if a["kind"] == "var":
            ns[f"pv{i}"] = PacketVar(a["p"], a["fmt"])
        if a["op"] == "wcopy":
            ns[f"ps{i}"] = PacketVar(a["sp"], a["sfmt"])

    def body(self, pk):
        self.mark = 1
        for i, a in enumerate(case["acc"]):
            letter = a["fmt"][-1]
            size = struct.calcsize(letter)
            if a["kind"] == "var":
                def get():
                    return getattr(self, f"pv{i}")

                def put(v):
                    setattr(self, f"pv{i}", v)
            else:
                arr = getattr(pk, "p" + letter)

                def get():
                    return arr[a["p"]]

                def put(v):
                    arr[a["p"]] = v
            inp = getattr(self, f"i{i}")
            if a["op"] == "read":
                setattr(self, f"o{i}", get())
            elif a["op"] == "wconst":
                v = a["val"]
                put(to_signed(v, size) if letter.islower() else v)
            elif a["op"] == "wvar":
                put(inp)
            elif a["op"] == "wexpr":
                put(inp + 1)
            elif a["op"] == "wcopy":
                put(getattr(self, f"ps{i}"))
            elif a["op"] == "wreg":
                # a bare register stored twice and read back afterwards:
                # the store must not change the register
                if letter.islower():
                    self.sr6 = inp
                    put(self.sr6)
                    setattr(self, f"o{i}", self.sr6)
                    put(self.sr6)
                else:
                    self.r6 = inp
                    put(self.r6)
                    setattr(self, f"o{i}", self.r6)
                    put(self.r6)
            elif a["op"] == "iand":
                x = get()
                x &= a["mask"]
                put(x)
            elif a["op"] == "ior":
                x = get()
                x |= a["mask"]
                put(x)
            elif a["op"] == "ixor":
                x = get()
                x ^= a["mask"]
                put(x)
            elif a["op"] == "readand":
                setattr(self, f"o{i}", get() & a["mask"])
            elif a["op"] == "iadd":
                x = get()
                x += a["amount"]
                put(x)
            elif a["op"] == "isub":
                x = get()
                x -= a["amount"]
                put(x)
        self.exit(XDPExitCode.TX)

    form = case.get("form", "gt")
    if case["dynamic"] and form in ("lt", "le"):
        # "packet is too short" guard; the body sits in its Else branch
        def program(self):
            with (self.packetSize < G + 1 if form == "lt"
                  else self.packetSize <= G) as pk:
                self.short = 1
            with pk.Else:
                body(self, pk)
            self.exit(XDPExitCode.PASS)
    elif case["dynamic"]:
        def program(self):
            with (self.packetSize > G if form == "gt"
                  else self.packetSize >= G + 1) as pk:
                body(self, pk)
            self.exit(XDPExitCode.PASS)
    else:
        def program(self):
            body(self, self)
    ns["program"] = program
    if case.get("instance_size") and not case["dynamic"]:
        ns["minimumPacketSize"] = G + 30
        cls = type("VfPkt", (XDP,), ns)
        e = cls()
        e.minimumPacketSize = G
        return e
    cls = type("VfPkt", (XDP,), ns)
    return cls()


def expected(case, pkt):
    """(ran?, outputs dict, packet) if the body runs on pkt"""
    out = bytearray(pkt)
    outs = {}
    for i, a in enumerate(case["acc"]):
        fmt = a["fmt"]
        letter = fmt[-1]
        size = struct.calcsize(letter)
        sfmt = fmt if len(fmt) > 1 else "=" + fmt
        cur = struct.unpack_from(sfmt, out, a["p"])[0]
        mask = (1 << (8 * size)) - 1

        def enc(v):
            v &= mask
            if letter.islower():
                v = to_signed(v, size)
            return struct.pack(sfmt, v)
        if a["op"] == "read":
            outs[i] = cur & ((1 << 64) - 1)
        elif a["op"] == "wconst":
            out[a["p"]:a["p"] + size] = enc(a["val"])
        elif a["op"] == "wvar":
            out[a["p"]:a["p"] + size] = enc(a["val"])
        elif a["op"] == "wreg":
            out[a["p"]:a["p"] + size] = enc(a["val"])
            v = a["val"] & mask
            if letter.islower():
                v = to_signed(v, size)
            outs[i] = v & ((1 << 64) - 1)
        elif a["op"] == "wexpr":
            out[a["p"]:a["p"] + size] = enc(a["val"] + 1)
        elif a["op"] == "wcopy":
            sf = a["sfmt"] if len(a["sfmt"]) > 1 else "=" + a["sfmt"]
            out[a["p"]:a["p"] + size] = enc(
                struct.unpack_from(sf, out, a["sp"])[0])
        elif a["op"] == "iand":
            out[a["p"]:a["p"] + size] = enc(cur & a["mask"])
        elif a["op"] == "ior":
            out[a["p"]:a["p"] + size] = enc(cur | a["mask"])
        elif a["op"] == "ixor":
            out[a["p"]:a["p"] + size] = enc(cur ^ a["mask"])
        elif a["op"] == "readand":
            outs[i] = cur & a["mask"] & ((1 << 64) - 1)
        elif a["op"] == "iadd":
            out[a["p"]:a["p"] + size] = enc(cur + a["amount"])
        elif a["op"] == "isub":
            out[a["p"]:a["p"] + size] = enc(cur - a["amount"])
    return outs, bytes(out)


def classify(case, i):
    a = case["acc"][i]
    return (f"{a['kind']}/{a['op']}/"
            f"{'swapped' if a['fmt'][0] in '>!' else 'native'}/"
            f"{'signed' if a['fmt'][-1].islower() else 'unsigned'}"
            f"{struct.calcsize(a['fmt'][-1])}")


def check_case(case, res, use_v=True):
    G = case["G"]
    need = max(a["p"] + struct.calcsize(a["fmt"][-1]) for a in case["acc"])
    rng = random.Random(case["pktseed"])
    with kern.session() as sess:
        res.count("programs")
        try:
            e = build(case)
            ld = prog.Loaded(e, sess)
        except AssembleError as ex:
            res.count("status:assemble_error")
            return
        except (TypeError, AttributeError, ValueError) as ex:
            res.count("status:generator_crash")
            res.sample(dict(status="generator_crash", error=repr(ex)[:200],
                            case=case), limit=2)
            return
        try:
            ld.load()
        except OSError as ex:
            res.count("status:load_failed")
            if "BPF_ATOMIC stores into R9 pkt" in str(ex):
                res.count("load_failed:atomic-add-on-packet (C05 finding)")
            else:
                res.count("load_failed:other")
                res.sample(dict(status="load_failed", case=case,
                                log=str(ex)[-400:]), limit=2)
            return
        res.count("status:ok")
        try:
            m = e.__dict__["m"]
            for n in case["lens"]:
                pkt = bytes(rng.getrandbits(8) for _ in range(n))
                m[:] = bytes(len(m))
                for i, a in enumerate(case["acc"]):
                    size = struct.calcsize(a["fmt"][-1])
                    pos = e.__dict__[f"i{i}"]
                    m[pos:pos + size] = (a["val"] & ((1 << (8 * size)) - 1)
                                         ).to_bytes(size, "little")
                img = bytes(m)
                ret, out, _ = ld.run_k(pkt)
                ran = m[e.__dict__["mark"]]
                outs_k = {i: int.from_bytes(
                    m[e.__dict__[f"o{i}"]:e.__dict__[f"o{i}"] + 8], "little")
                    for i in range(len(case["acc"]))}
                res.case([case["G"], case["dynamic"], case["acc"], n,
                          case["pktseed"]], nontrivial=bool(ran))
                res.count("ran" if ran else "skipped")
                desc = dict(case=case, length=n)
                # guard
                if n > G and not ran:
                    res.violation("guard-skips-longer-packet",
                                  f"len {n} > G {G} but body did not run",
                                  case=desc)
                    continue
                if n < need and ran:
                    res.violation("guard-runs-on-short-packet",
                                  f"len {n} < {need} needed, body ran",
                                  case=desc)
                    continue
                if n == G:
                    res.count("len_eq_G_" + ("ran" if ran else "skipped"))
                if not ran:
                    if out != pkt:
                        res.violation("skipped-body-changed-packet",
                                      "packet changed though body skipped",
                                      case=desc)
                    if ret != 2:
                        res.violation("default-exit-code",
                                      f"skipped body returned {ret}",
                                      case=desc)
                    continue
                if ret != 3:
                    res.violation("exit-code-after-body",
                                  f"body ran but returned {ret}", case=desc)
                exp_outs, exp_pkt = expected(case, pkt)
                for i, v in exp_outs.items():
                    res.count("cmp[" + classify(case, i) + "]")
                    if outs_k[i] != v:
                        res.violation(
                            key_for(case, i, "read")
                            if case["acc"][i]["op"] == "read" else
                            "unexplained:masked read " + classify(case, i)
                            if case["acc"][i]["op"] == "readand" else
                            "register-changed-by-packet-store",
                            f"read #{i} {case['acc'][i]} gave "
                            f"{outs_k[i]:#x}, struct.unpack gives {v:#x}",
                            case=desc, witness=dict(
                                disasm=ebpfvm.disasm(ld.code)[:80]))
                if out != exp_pkt:
                    diff = [j for j in range(len(pkt)) if out[j] != exp_pkt[j]]
                    inside = [i for i, a in enumerate(case["acc"])
                              if any(a["p"] <= j < a["p"] + struct.calcsize(
                                  a["fmt"][-1]) for j in diff)]
                    i = inside[0] if inside else 0
                    res.violation(
                        key_for(case, i, "write") if inside
                        else "write-outside-declared-bytes",
                        f"packet bytes {diff[:8]} differ: got "
                        f"{out[diff[0]:diff[0] + 8].hex()} want "
                        f"{exp_pkt[diff[0]:diff[0] + 8].hex()} "
                        f"acc={case['acc']}",
                        case=desc, witness=dict(
                            disasm=ebpfvm.disasm(ld.code)[:80]))
                for i, a in enumerate(case["acc"]):
                    if a["op"] not in ("read", "wreg", "readand"):
                        res.count("cmp[" + classify(case, i) + "]")
                if use_v and n in (G + 1, case["lens"][-1]):
                    m[:] = img
                    stores = []

                    def hook(vm, kind, region, off, size, value):
                        if kind in ("w", "a") and region.tag and \
                                region.tag[0] == "pkt":
                            stores.append((off, size))
                    try:
                        retv, outv, vm = ld.run_v(pkt, hooks=[hook])
                    except ebpfvm.VMFault as ex:
                        res.inconc(f"V faulted where K ran: {ex} {desc}")
                        continue
                    res.count("v_runs")
                    if (retv, outv) != (ret, out):
                        res.inconc(f"K/V disagree on {desc}")
                    allowed = set()
                    for a in case["acc"]:
                        if a["op"] not in ("read", "readand"):
                            allowed |= set(range(
                                a["p"],
                                a["p"] + struct.calcsize(a["fmt"][-1])))
                    for off, size in stores:
                        res.count("v_packet_store_events")
                        if not set(range(off, off + size)) <= allowed:
                            res.violation(
                                "store-event-outside-declared-bytes",
                                f"store of {size} bytes at packet+{off}, "
                                f"declared {sorted(allowed)}", case=desc)
                if len(res.samples) < 3:
                    res.sample(dict(G=G, dynamic=case["dynamic"],
                                    acc=case["acc"], length=n,
                                    packet_in=pkt[:G + 2].hex(),
                                    packet_out=out[:G + 2].hex()))
        finally:
            ld.close()


def key_for(case, i, what):
    a = case["acc"][i]
    letter = a["fmt"][-1]
    swapped = a["fmt"][0] in ">!"
    if what == "read" and swapped and letter.islower():
        return "byte-swapped-signed-read-not-sign-extended"
    return f"unexplained:{what} {classify(case, i)}"


def reguard_case(rng, res):
    """two guards in one program with a helper call in between that
    invalidates packet pointers (bpf_xdp_adjust_tail by 0 bytes): a static
    minimum size, a packet write, the call, then a dynamic guard with more
    accesses - as the dispatcher re-checks the size after its tail call.
    Kernel only (the reference machine has no packet-resizing helpers)."""
    from ebpfcat.ebpf import FuncId
    from ebpfcat.xdp import PacketVar
    G1 = rng.randint(15, 40)     # test runs need >= 14 bytes
    G2 = G1 + rng.randint(1, 30)
    style = rng.choice([">", ">=", "<else"])
    f1 = rng.choice(["B", "H", ">H", "<H"])
    f2 = rng.choice(["B", "H", "I", ">I", "<I", ">H", "Q", ">Q"])
    s1, s2 = struct.calcsize(f1[-1]), struct.calcsize(f2[-1])
    p1 = rng.randint(0, G1 - s1)
    p2 = rng.randint(0, G2 - s2)
    v1 = rng.getrandbits(8 * s1)
    v2 = rng.getrandbits(8 * s2)
    desc = dict(reguard=True, G1=G1, G2=G2, style=style, f1=f1, f2=f2,
                p1=p1, p2=p2)

    def program(self):
        e = self
        e.r6 = e.r1
        e.a = v1
        e.r2 = 0
        e.call(FuncId.xdp_adjust_tail)
        e.r1 = e.r6

        def body(p):
            e.b = v2
            p.pB[G2] = 0x55
            e.exit(XDPExitCode.TX)
        if style == ">":
            with e.packetSize > G2 as p:
                body(p)
        elif style == ">=":
            with e.packetSize >= G2 + 1 as p:
                body(p)
        else:
            with e.packetSize < G2 + 1 as p:
                pass
            with p.Else:
                body(p)
    ns = dict(license="GPL", minimumPacketSize=G1, a=PacketVar(p1, f1),
              b=PacketVar(p2, f2), program=program)
    with kern.session() as sess:
        res.count("reguard_programs")
        try:
            e = type("VfReguard", (XDP,), ns)()
            ld = prog.Loaded(e, sess)
        except AssembleError:
            res.count("reguard_assemble_error")
            return
        try:
            ld.load()
        except OSError as ex:
            res.violation(
                "unexplained:reguard-rejected",
                "a program with a second packet-size guard after a helper "
                "call that invalidates packet pointers is rejected by the "
                "verifier, so its guarded bodies run on no packet: "
                + str(ex)[-160:].replace("\n", " | "), case=desc)
            return

        def order(f):
            return "big" if f[0] in ">!" else "little"
        for n in sorted({G1 - 1, G1, G1 + 1, G2 - 1, G2, G2 + 1, G2 + 2,
                         G2 + 9} | {rng.randint(14, G2 + 20)}):
            if n < 14:
                continue
            pkt = bytes(rng.getrandbits(8) for _ in range(n))
            ret, out, _ = ld.run_k(pkt)
            want = bytearray(pkt)
            wret = 2          # XDP_PASS, the default
            if n > G1:
                want[p1:p1 + s1] = v1.to_bytes(s1, order(f1))
            if n > G2:
                want[p2:p2 + s2] = v2.to_bytes(s2, order(f2))
                want[G2] = 0x55
                wret = 3
            res.case([desc, n], nontrivial=n > G1)
            res.count("reguard_runs")
            if (ret, out) != (wret, bytes(want)):
                res.violation(
                    "unexplained:reguard",
                    f"packet of {n} bytes: returned {ret}, expected {wret}; "
                    f"bytes differ at "
                    f"{[i for i in range(n) if out[i:i+1] != want[i:i+1]][:8]}",
                    case=dict(desc, length=n))
                return


def run_shard(params):
    res = Result()
    rng = random.Random(params["seed"] * 100057 + params["shard"])
    for i in range(params["n"]):
        check_case(gen_case(rng), res, use_v=(i % 2 == 0))
        if i % 4 == 0:
            reguard_case(rng, res)
    return res


def finalize(res, tier, seed):
    c = res.counters
    missing = []
    for kind in ("var", "arr"):
        for op in ("read", "wconst", "wvar", "wexpr", "iadd", "isub",
                   "wreg", "wcopy", "iand", "ior", "ixor", "readand"):
            if not any(k.startswith(f"cmp[{kind}/{op}/") for k in c):
                missing.append(f"{kind}/{op}")
    for sw in ("swapped", "native"):
        for sg in ("signed", "unsigned"):
            for sz in (1, 2, 4, 8):
                if not any(k.startswith("cmp[var/") and
                           k.endswith(f"/{sw}/{sg}{sz}]") for k in c):
                    missing.append(f"{sw}/{sg}{sz}")
    res.info["strata_never_compared"] = missing
    if missing:
        res.inconc(f"strata never compared: {missing}")
    if not c.get("reguard_runs"):
        res.inconc("second guard after a helper call: never run")
    if not c.get("skipped") or not c.get("ran"):
        res.inconc("guard never skipped / never ran")


def replay(v):
    res = Result()
    case = dict(v["case"]["case"])
    case["lens"] = [v["case"]["length"]] if False else case["lens"]
    check_case(case, res)
    return res
