"""seeded generators for program specs (see vf/dsl.py for the spec format)"""

INT_FMTS = ["B", "H", "I", "Q", "b", "h", "i", "q"]
# the same with an explicit byte order (big-endian ones are stored swapped)
ORDERED_FMTS = [o + f for o in "<>!" for f in "HIQhiq"]
FREE_REGS = [2, 3, 4, 5, 8, 9]
INT_OPS = ["+", "-", "*", "//", "%", "&", "|", "^", "<<", ">>"]
EDGES = [0, 1, -1, 2, -2, 7, 0x7f, 0x80, 0xff, 0x100, 0x7fff, 0x8000, 0xffff,
         0x10000, 0x7fffffff, 0x80000000, 0xffffffff, 0x100000000,
         -0x80000000, -0x80000001, 0x7fffffffffffffff, -0x8000000000000000,
         0xffffffffffffffff]


def pattern_for(rng, size, signed, mode):
    """a bit pattern for a place of `size` bytes"""
    bits = 8 * size
    mask = (1 << bits) - 1
    if mode == "small":
        v = rng.randint(-20, 20) if signed else rng.randint(0, 40)
    elif mode == "medium":
        lim = min(1 << (bits - 2), 1 << 20)
        v = rng.randint(-lim, lim) if signed else rng.randint(0, lim)
    elif mode == "edge":
        v = rng.choice(EDGES)
        if rng.random() < 0.3:
            v = rng.choice([0, 1, mask, mask >> 1, (mask >> 1) + 1,
                            mask - 1])
    else:
        v = rng.getrandbits(bits)
    return v & mask


def gen_const(rng, shift=False):
    if shift:
        return rng.choice([0, 1, 2, 3, 7, 8, 15, 16, 31, 32, 33, 63,
                           rng.randint(0, 63)])
    r = rng.random()
    if r < 0.5:
        return rng.randint(-12, 12)
    if r < 0.8:
        return rng.choice(EDGES)
    if r < 0.97:
        return rng.getrandbits(rng.choice([16, 31, 32, 33, 63, 64])) * \
            rng.choice([1, 1, -1])
    return rng.getrandbits(70) + (1 << 64)


def gen_tree(rng, places, depth, ops=INT_OPS, unary=True, pconst=0.3):
    """a tree that contains at least one place in every operator node"""
    if depth <= 0 or rng.random() < 0.25:
        return ["p", rng.choice(places)]
    r = rng.random()
    if unary and r < 0.12:
        return [rng.choice(["neg", "abs"]),
                gen_tree(rng, places, depth - 1, ops, unary, pconst)]
    op = rng.choice(ops)
    left = gen_tree(rng, places, depth - 1, ops, unary, pconst)
    if rng.random() < pconst:
        right = ["c", gen_const(rng, op in ("<<", ">>"))]
        if op in ("//", "%") and right[1] == 0:
            right = ["c", 3]
    else:
        right = gen_tree(rng, places, depth - 1, ops, unary, pconst)
    if right[0] == "c" and rng.random() < 0.25 and op not in ("<<", ">>"):
        left, right = right, left      # reflected form:  3 - x
    return ["b", op, left, right]


def gen_decls(rng, nregs=(0, 3), nvars=(2, 5), nlocs=(0, 3), fmts=INT_FMTS,
              regkinds=("r", "sr", "w", "sw")):
    regs = [[n, rng.choice(regkinds)]
            for n in rng.sample(FREE_REGS, rng.randint(*nregs))]
    vars_ = [[f"a{i}", rng.choice(fmts)] for i in range(rng.randint(*nvars))]
    locs = [[f"k{i}", rng.choice(fmts)] for i in range(rng.randint(*nlocs))]
    return regs, vars_, locs


def places_of(regs, vars_, locs):
    return ([f"r{n}" for n, _ in regs] + [f"v:{n}" for n, _ in vars_]
            + [f"l:{n}" for n, _ in locs])


def gen_inputs(rng, spec, modes=("small", "small", "medium", "edge", "rand")):
    """one input vector: place -> bit pattern"""
    mode = rng.choice(modes)
    out = {}
    for p in spec.places():
        size, signed, fixed = spec.info(p)
        m = mode if rng.random() < 0.8 else rng.choice(modes)
        out[p] = pattern_for(rng, size, signed, m)
    return out
