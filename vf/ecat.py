"""offline EtherCAT objects: terminals with hand-made PDO maps, sync groups
without a bus (for program generation, layout and data-path checks)"""
import struct

from . import use_repo
use_repo()

from ebpfcat.ebpfcat import (  # noqa: E402
    EBPFTerminal, FastEtherCat, FastSyncGroup, PacketVar, SimpleEtherCat,
    SyncGroup, SyncManager)
from ebpfcat.ethercat import Packet  # noqa: E402

FMT_BITS = {"B": 8, "H": 16, "I": 32, "Q": 64, "b": 8, "h": 16, "i": 32,
            "q": 64}


class OfflineTerminal(EBPFTerminal):
    """a terminal whose PDO map was 'parsed' by the harness"""


def make_terminal(ec, position, inputs, outputs, use_fmmu=True,
                  in_off=0x1100, out_off=0x1000, name=None):
    """inputs/outputs: lists of entries ("bit",) or (fmt,) in PDO order;
    returns (terminal, vars) where vars[(sm, k)] is a PacketVar"""
    t = OfflineTerminal(ec)
    t.position = position
    t.name = name or f"T{position}"
    t.use_fmmu = use_fmmu
    t.pdos = {}
    vars_ = {}
    for sm, entries, base in ((SyncManager.IN, inputs, 0x6000),
                              (SyncManager.OUT, outputs, 0x7000)):
        bitpos = 0
        for k, ent in enumerate(entries):
            if ent[0] == "bit":
                t.pdos[base + k, 1] = (sm, bitpos // 8, bitpos % 8)
                vars_[sm, k] = PacketVar(t, sm, bitpos // 8, bitpos % 8)
                bitpos += 1
            elif ent[0] == "pad":
                bitpos += ent[1]
            else:
                fmt = ent[0]
                if bitpos % 8:
                    bitpos += 8 - bitpos % 8
                t.pdos[base + k, 1] = (sm, bitpos // 8, fmt)
                vars_[sm, k] = PacketVar(t, sm, bitpos // 8, fmt)
                bitpos += FMT_BITS[fmt]
        size = (bitpos + 7) // 8
        if sm is SyncManager.IN:
            t.pdo_in_sz, t.pdo_in_off = size, in_off
        else:
            t.pdo_out_sz, t.pdo_out_off = size, out_off
    t.fmmu_used = [None] * 4
    return t, vars_


class OfflineFastEtherCat(FastEtherCat):
    """FastEtherCat with a real PROG_ARRAY but no socket"""

    def __init__(self, sess, name="vf0"):
        super().__init__(name)
        from ebpfcat.bpf import MapType
        self.programs = sess.create_map(MapType.PROG_ARRAY, 4, 4,
                                        self.MAX_PROGS)
