"""independent EtherCAT frame parser (written from the frame layout, not from
ebpfcat's Packet.assemble)

frame (without Ethernet header):
  u16  length(11) | reserved(1) | type(4)          type 1 = EtherCAT datagrams
  datagram*:
     u8 cmd, u8 idx, 4 bytes address (ADP i16 + ADO u16, or logical i32),
     u16 len(11) | reserved(3) | circulating(1) | more(1), u16 irq,
     data[len], u16 working counter
  padding up to the Ethernet minimum payload (46)
"""
import struct

LOGICAL = {10, 11, 12}       # LRD LWR LRW


class FrameError(Exception):
    pass


class Datagram:
    __slots__ = ("cmd", "idx", "addr", "length", "more", "irq", "data",
                 "wkc", "hdr_pos", "data_pos", "wkc_pos", "circ")

    def as_dict(self):
        return {k: getattr(self, k) for k in self.__slots__}


def parse(frame, strict=True):
    """returns (declared_length, type, [Datagram], padding bytes)"""
    if len(frame) < 2:
        raise FrameError("frame shorter than the EtherCAT header")
    word, = struct.unpack_from("<H", frame, 0)
    length = word & 0x7ff
    typ = word >> 12
    pos = 2
    dgs = []
    end = 2 + length
    if end > len(frame):
        raise FrameError(f"header length {length} exceeds frame "
                         f"({len(frame) - 2} bytes of payload)")
    while True:
        if pos + 10 > end:
            raise FrameError(f"datagram header at {pos} crosses the declared "
                             f"length {length}")
        d = Datagram()
        d.hdr_pos = pos
        d.cmd, d.idx = frame[pos], frame[pos + 1]
        raw = frame[pos + 2:pos + 6]
        if d.cmd in LOGICAL:
            d.addr = struct.unpack("<i", raw)
        else:
            d.addr = struct.unpack("<hH", raw)
        lw, d.irq = struct.unpack_from("<HH", frame, pos + 6)
        d.length = lw & 0x7ff
        d.more = bool(lw >> 15)
        d.circ = bool(lw & 0x4000)
        d.data_pos = pos + 10
        d.wkc_pos = d.data_pos + d.length
        if d.wkc_pos + 2 > end:
            raise FrameError(f"datagram at {pos} (len {d.length}) crosses "
                             f"the declared length {length}")
        d.data = bytes(frame[d.data_pos:d.wkc_pos])
        d.wkc, = struct.unpack_from("<H", frame, d.wkc_pos)
        dgs.append(d)
        pos = d.wkc_pos + 2
        if not d.more:
            break
        if pos >= end:
            raise FrameError("'more' set on the last datagram")
    if strict and pos != end:
        raise FrameError(f"datagrams end at {pos}, header says {end}")
    return length, typ, dgs, bytes(frame[end:])


def build(datagrams, pad=True):
    """independent frame builder, used by the bus model for responses"""
    body = b""
    for i, d in enumerate(datagrams):
        more = i < len(datagrams) - 1
        if d["cmd"] in LOGICAL:
            addr = struct.pack("<i", d["addr"][0])
        else:
            addr = struct.pack("<hH", *d["addr"])
        body += struct.pack("<BB", d["cmd"], d["idx"]) + addr + struct.pack(
            "<HH", len(d["data"]) | (more << 15), d.get("irq", 0)) + \
            bytes(d["data"]) + struct.pack("<H", d["wkc"])
    out = struct.pack("<H", len(body) | 0x1000) + body
    if pad and len(out) < 46:
        out += b"\0" * (46 - len(out))
    return out
