"""C17 EEPROM contents and derived layouts are decoded exactly"""
import asyncio
import random
import struct

from .. import aio, bus, use_repo
from ..core import Result
use_repo()

from ebpfcat.ethercat import EtherCat, SyncManager, Terminal  # noqa: E402

PROPERTY = "C17"
LEVEL = "exploration"
RULE = ("seeded random well-formed SII images (identity words; 0-8 "
        "categories with distinct random types, lengths and contents; a "
        "sync-manager category with a random subset/order of mailbox and "
        "process-data managers; TxPDO/RxPDO categories with 0-5 PDOs x 0-6 "
        "entries: bit entries, byte entries of 8/16/32/64 bits kept "
        "byte-aligned by gap entries) served by an EEPROM-interface model "
        "with 4- or 8-byte reads and 0..k busy polls per access (now and then "
        "one access stays busy for 99..400 polls); the real "
        "Terminal.read_eeprom / parse_sync_managers / parse_pdos results are "
        "compared with the generating image; second leg: parse_pdos through "
        "SDO (0x1c12/0x1c13 and mapping objects served by the SDO server "
        "model) for terminals with mailboxes. a case = one image; "
        "non-trivial = at least 2 categories or 1 PDO entry")
ASSUMPTIONS = ["category type 0xffff is the end marker and is not generated "
               "as a type", "byte entries are kept byte-aligned (well-formed "
               "images)"]
MIN_EVALUATIONS = {"quick": 300, "thorough": 8000}


def plan(tier, seed):
    n = 120 if tier == "quick" else 600
    return [dict(seed=seed, shard=i, n=n) for i in range(16)]


def gen_pdo_cat(rng, unaligned=False):
    """returns (category bytes, [(idx, sub, bits)] in order); unaligned: one
    multi-byte entry follows bit entries without a filling gap"""
    out = b""
    entries = []
    bitpos = 0
    skip = [unaligned]
    for p in range(rng.randint(0, 5)):
        n = rng.randint(0, 6)
        ents = []
        for _ in range(n):
            r = rng.random()
            if r < 0.45:
                bits = rng.choice([1, 1, 1, 2, 3, 4])
                ents.append((rng.randint(0x6000, 0x7fff), rng.randint(1, 32),
                             bits))
                bitpos += bits
            else:
                if bitpos % 8 and skip[0]:
                    skip[0] = False      # the one unaligned entry
                elif bitpos % 8:
                    gap = 8 - bitpos % 8
                    ents.append((0, 0, gap))
                    bitpos += gap
                if rng.random() < 0.15:
                    # a reserved byte / word between values (gap entry)
                    g = rng.choice([8, 16, 8, 24])
                    ents.append((0, 0, g))
                    bitpos += g
                bits = rng.choice([8, 16, 16, 32, 64])
                ents.append((rng.randint(0x6000, 0x7fff), rng.randint(1, 32),
                             bits))
                bitpos += bits
        ents = ents[:255]
        out += struct.pack("<HBbBBH", rng.randint(0x1600, 0x1bff), len(ents),
                           rng.choice([2, 3, 2, 3, 0, -1, -128]), 0, 0, 0)
        for idx, sub, bits in ents:
            out += struct.pack("<HBBBBH", idx, sub, 0, 0, bits, 0)
        entries += ents
    if unaligned and skip[0]:
        return gen_pdo_cat(rng, True) if rng.random() < 0.9 else \
            (out, entries)
    return out, entries


def has_unaligned(entries):
    bitpos = 0
    for idx, sub, bits in entries or []:
        if idx and bits >= 8 and bitpos % 8:
            return True
        bitpos += bits
    return False


def expected_pdos(entries, sm):
    pdos = {}
    bitpos = 0
    for idx, sub, bits in entries:
        if idx == 0:
            pass
        elif bits < 8:
            pdos[idx, sub] = (sm, bitpos // 8, bitpos % 8)
        else:
            pdos[idx, sub] = (sm, bitpos // 8,
                              {8: "B", 16: "H", 32: "I", 64: "Q"}[bits])
        bitpos += bits
    return pdos, bitpos


def gen_case(rng, with_mailbox):
    ident = [rng.getrandbits(32) for _ in range(4)]
    cats = []
    types = set()
    # sync managers
    sms = []
    modes = [0, 4] + ([6, 2] if with_mailbox else
                      rng.sample([6, 2], rng.randint(0, 1)))
    rng.shuffle(modes)
    modes = modes[:rng.randint(2 if not with_mailbox else 4, len(modes))]
    if with_mailbox:
        # (a CoE terminal may have inputs only, or outputs only: three
        # sync managers)
        modes = [6, 2] + rng.choice([[0, 4], [0, 4], [4, 0], [0], [4]])
    base = 0x1000
    for m in modes:
        size = rng.choice([0, 2, 6, 16, 48, 64, 128])
        if m in (2, 6):
            size = rng.choice([32, 64, 128, 256])
        sms.append((base, size, m))
        base += 0x100
    smdata = b"".join(struct.pack("<HHBBBB", off, size, m | rng.choice(
        [0, 0x20, 0x40]), 0, 1, 1 if m >= 4 else 2) for off, size, m in sms)
    # a mapping the library cannot represent: it may refuse it, it must
    # not place the entry somewhere else
    unaligned = rng.random() < 0.05
    tx, txe = gen_pdo_cat(rng, unaligned)
    rx, rxe = gen_pdo_cat(rng)
    if with_mailbox and 0 not in modes:
        tx, txe = b"", []
    if with_mailbox and 4 not in modes:
        rx, rxe = b"", []
    order = []
    if sms:
        order.append((41, smdata))
    if rng.random() < 0.8:
        order.append((50, tx))
    else:
        txe = None
    if rng.random() < 0.8:
        order.append((51, rx))
    else:
        rxe = None
    for _ in range(rng.randint(0, 5)):
        # (type 0 is the NOP category of the SII: legal, any length)
        t = rng.choice([10, 30, 40, 60, 0, rng.randint(0, 0xfffe)])
        if t in (41, 50, 51) or t in types:
            continue
        types.add(t)
        ln = rng.choice([0, 2, 4, 6, 8, 10, 30, rng.randint(0, 60) * 2])
        if rng.random() < 0.03:
            # a large category: the category area goes beyond 4 KiB
            ln = rng.choice([4090, 4096, 4100, rng.randint(2000, 5000) * 2])
        order.append((t, bytes(rng.getrandbits(8) for _ in range(ln))))
    rng.shuffle(order)
    return dict(ident=ident, cats=[[t, d.hex()] for t, d in order],
                sms=sms, tx=txe, rx=rxe, eight=rng.random() < 0.5,
                busy=rng.choice([0, 0, 1, 2, 3]),
                idle_busy=rng.choice([0, 0, 2]),
                # "however long it reports busy": now and then one access
                # keeps the interface busy for hundreds of polls
                long_busy=[rng.randint(0, 40), rng.choice(
                    [99, 100, 101, 150, 257, 400])]
                if rng.random() < 0.08 else None,
                with_mailbox=with_mailbox, busyseed=rng.getrandbits(16),
                tail=rng.choice(["erased", "erased", "zeros", "old"]))


def image(case):
    img = bytearray(b"\x00" * 16)
    img += struct.pack("<IIII", *case["ident"])
    img += bytes(128 - len(img))
    for t, d in case["cats"]:
        d = bytes.fromhex(d)
        if len(d) % 2:
            d += b"\0"
        img += struct.pack("<HH", t, len(d) // 2) + d
    # behind the end marker: erased EEPROM, zero padding of a programming
    # tool, or the tail of an older, longer description
    tail = case.get("tail", "erased")
    trng = random.Random(case["busyseed"] ^ 0x7a11)
    img += b"\xff\xff" + {
        "erased": b"\xff\xff",
        "zeros": bytes(2 + 2 * trng.randint(0, 30)),
        "old": bytes(trng.getrandbits(8) for _ in range(
            2 + 2 * trng.randint(0, 30)))}[tail] + b"\xff" * 16
    return bytes(img)


def check_case(case, res, prior=None):
    """prior: another image the same Terminal object has read before (the
    terminal was re-flashed or swapped): nothing of it may survive"""
    img = image(case)
    if prior is not None:
        case = dict(case, prior=prior)
    brng = random.Random(case["busyseed"])
    t = bus.SimTerminal("T", eeprom=img, station=33,
                        eeprom_8byte=case["eight"])
    naccess = [0]

    beyond = [0]
    limit = (max(len(img), len(image(prior)) if prior else 0) + 4096) // 2

    def busy_for():
        naccess[0] += 1
        beyond[0] = max(beyond[0], t.ee_addr)
        lb = case.get("long_busy")
        if lb and naccess[0] - 1 == lb[0]:
            return lb[1]
        return brng.randint(0, case["busy"])
    t.ee_busy_for = busy_for
    t.ee_idle_busy = case["idle_busy"]
    b = bus.Bus([t])
    srv = None
    txe, rxe = case["tx"], case["rx"]
    if case["with_mailbox"]:
        # SDO objects describing the same mapping
        objs = {}
        for index, ents in ((0x1c12, rxe or []), (0x1c13, txe or [])):
            # one PDO per assignment holding all entries (<= 255)
            groups = [ents[i:i + 8] for i in range(0, len(ents), 8)]
            # unassigned slots (value 0) anywhere in the assignment list,
            # as left behind when a PDO was taken out
            srng = random.Random(case["busyseed"] + index)
            slots = []
            for g in groups:
                while srng.random() < 0.25:
                    slots.append(None)
                slots.append(g)
            while srng.random() < 0.25:
                slots.append(None)
            if any(x is None for x in slots):
                res.count("assignment_lists_with_empty_slots")
            objs[index, 0] = struct.pack("B", len(slots))
            for gi, g in enumerate(slots, 1):
                if g is None:
                    objs[index, gi] = struct.pack("<H", 0)
                    continue
                pdo = 0x1600 + gi + (0x400 if index == 0x1c13 else 0)
                objs[index, gi] = struct.pack("<H", pdo)
                objs[pdo, 0] = struct.pack("B", len(g))
                for ei, (idx, sub, bits) in enumerate(g, 1):
                    objs[pdo, ei] = struct.pack("<BBH", bits, sub, idx)
        mo = [s for s in case["sms"] if s[2] == 6][0]
        mi = [s for s in case["sms"] if s[2] == 2][0]
        srv = bus.SdoServer(objs, mbx_in_size=mi[1], mbx_out_size=mo[1])
        t.mbx_handler = srv.handle

    async def main(loop):
        ec = EtherCat("vf")
        bus.attach(ec, loop, b)
        term = Terminal(ec)
        term.position = 33
        term.mbx_lock = ec.get_mbx_lock(33)
        if prior is not None:
            t.eeprom = bytearray(image(prior))
            await term.read_eeprom()
            if 41 in term.eeprom:
                # the first bring-up went all the way: the layout of the
                # previous image has been derived on this object
                term.parse_sync_managers(term.eeprom[41])
                res.count("rereads_after_a_layout_was_derived_before")
            t.eeprom = bytearray(img)
            res.count("rereads_on_the_same_terminal_object")
        await term.read_eeprom()
        got = dict(ident=[term.vendorId, term.productCode, term.revisionNo,
                          term.serialNo],
                   eeprom={k: bytes(v) for k, v in term.eeprom.items()})
        if prior is not None:
            # two terminals read at the same time (a bus is initialised with
            # gather): a second terminal with the other image on the bus
            t2 = bus.SimTerminal("T2", eeprom=image(prior), station=34,
                                 eeprom_8byte=not case["eight"])

            def busy2():
                beyond[0] = max(beyond[0], t2.ee_addr)
                return 1
            t2.ee_busy_for = busy2
            b.terminals.append(t2)
            term2 = Terminal(ec)
            term2.position = 34
            ta, tb = Terminal(ec), term2
            ta.position = 33
            await asyncio.gather(ta.read_eeprom(), tb.read_eeprom())
            got["concurrent"] = [
                {k: bytes(v) for k, v in ta.eeprom.items()},
                {k: bytes(v) for k, v in tb.eeprom.items()}]
            res.count("concurrent_eeprom_reads", 2)
        if 41 in term.eeprom:
            await term.write(0x800, data=term.eeprom[41])
            term.parse_sync_managers(term.eeprom[41])
            got["sm"] = dict(
                mbx_out=(term.mbx_out_off, term.mbx_out_sz),
                mbx_in=(term.mbx_in_off, term.mbx_in_sz),
                pdo_out=(term.pdo_out_off, term.pdo_out_sz),
                pdo_in=(term.pdo_in_off, term.pdo_in_sz),
                pdo_in_addr=term.pdo_in_addr, pdo_out_addr=term.pdo_out_addr)
            try:
                got["bits"] = await asyncio.wait_for(term.parse_pdos(), 500)
                got["pdos"] = dict(term.pdos)
            except Exception as ex:
                got["pdo_error"] = repr(ex)
        return got
    def walked_off():
        # the walk left the image (and 4 KiB of 0xff behind it): the end
        # marker was missed; the run is ended here instead of following the
        # reader through the rest of the 32-bit address space
        if beyond[0] > limit:
            return (f"the reader asked for EEPROM word {beyond[0]:#x}; the "
                    f"image ends at word {len(img) // 2:#x}")
    try:
        got = aio.run(main, stop_if=walked_off)
    except aio.WallClock as ex:
        res.case(case, nontrivial=True)
        res.inconc(f"{ex} in an EEPROM case")
        return
    except Exception as ex:
        res.case(case, nontrivial=True)
        if beyond[0] > limit:
            res.violation("reader-walks-past-the-end-marker", str(ex),
                          case=case)
            return
        res.violation("unexplained:raised " + type(ex).__name__,
                      f"decoding raised {ex!r}", case=case)
        return
    ncat = len(case["cats"])
    nent = len(txe or []) + len(rxe or [])
    res.case(case, nontrivial=ncat >= 2 or nent >= 1)
    if case.get("long_busy"):
        res.count("cases_with_a_long_busy_access")
    if sum(len(d) // 2 + 4 for _, d in case["cats"]) > 4096:
        res.count("cases_with_more_than_4_KiB_of_categories")
    if any(t == 0 for t, _ in case["cats"]):
        res.count("cases_with_a_category_of_type_0")
    if any(t >= 0x8000 for t, _ in case["cats"]):
        res.count("cases_with_a_category_type_above_0x7fff")
    res.count("eeprom_accesses", sum(1 for e in t.events
                                     if e[0] == "eeprom_read_cmd"))
    res.count("images_8byte" if case["eight"] else "images_4byte")
    res.count("cases_that_read_more_than_64_words_past_their_image",
              beyond[0] > max(len(img), len(image(prior)) if prior else 0)
              // 2 + 64)
    problems = []
    if got["ident"] != case["ident"]:
        problems.append(f"identity {got['ident']} vs {case['ident']}")
    want = {}
    for tp, d in case["cats"]:
        d = bytes.fromhex(d)
        if len(d) % 2:
            d += b"\0"
        want[tp] = d
    if got["eeprom"] != want:
        bad = [k for k in set(want) | set(got["eeprom"])
               if want.get(k) != got["eeprom"].get(k)]
        problems.append(f"categories differ: types {bad[:5]}")
    if "concurrent" in got:
        want2 = {}
        for tp, d in case["prior"]["cats"]:
            d = bytes.fromhex(d)
            want2[tp] = d + (b"\0" if len(d) % 2 else b"")
        for who, g, w in (("first", got["concurrent"][0], want),
                          ("second", got["concurrent"][1], want2)):
            if g != w:
                bad = [k for k in set(w) | set(g) if w.get(k) != g.get(k)]
                problems.append(f"concurrent-reads: categories of the {who} "
                                f"terminal differ when two terminals are "
                                f"read at the same time: types {bad[:5]}")
    if "sm" in got:
        exp = dict(mbx_out=(None, None), mbx_in=(None, None),
                   pdo_out=(None, None), pdo_in=(None, None),
                   pdo_in_addr=0x818, pdo_out_addr=0x810)
        for i, (off, size, m) in enumerate(case["sms"]):
            key = {0: "pdo_in", 2: "mbx_in", 4: "pdo_out", 6: "mbx_out"}[m]
            exp[key] = (off, size)
            if m == 0:
                exp["pdo_in_addr"] = 0x800 + 8 * i
            if m == 4:
                exp["pdo_out_addr"] = 0x800 + 8 * i
        res.count("sync_manager_sets")
        if got["sm"] != exp:
            problems.append(f"sync managers {got['sm']} vs {exp}")
        has_mbx = exp["mbx_out"][0] is not None and \
            exp["mbx_in"][0] is not None
        unal = has_unaligned(txe) or has_unaligned(rxe)
        if unal and "pdo_error" in got:
            res.count("unaligned_mappings_refused")
        elif unal and has_mbx == case["with_mailbox"]:
            problems.append(
                "unaligned-mapping-accepted: "
                "a mapping with a multi-byte entry that does not start on a "
                "byte boundary was accepted: the entry cannot be where the "
                f"mapping puts it (recorded {sorted(got.get('pdos', {}).items())[:6]})")
        elif "pdo_error" in got:
            problems.append(f"parse_pdos raised {got['pdo_error']}")
        elif has_mbx == case["with_mailbox"]:
            po, ob = expected_pdos(rxe or [], SyncManager.OUT)
            pi, ib = expected_pdos(txe or [], SyncManager.IN)
            res.count("pdo_sets_sdo" if has_mbx else "pdo_sets_eeprom")
            res.count("pdo_entries", len(po) + len(pi))
            po.update(pi)
            if got.get("bits") != (ob, ib):
                problems.append(f"bit counts {got.get('bits')} vs "
                                f"{(ob, ib)}")
            if got.get("pdos") != po:
                bad = [k for k in set(po) | set(got.get("pdos", {}))
                       if po.get(k) != got.get("pdos", {}).get(k)]
                problems.append(f"PDO entries differ: {bad[:4]}: got "
                                f"{[got['pdos'].get(k) for k in bad[:4]]} "
                                f"want {[po.get(k) for k in bad[:4]]}")
    if srv and srv.errors:
        problems.append(f"SDO server saw protocol errors: {srv.errors[:3]}")
    if problems:
        res.violation("unexplained:" + problems[0].split(" ")[0],
                      "; ".join(problems[:3]), case=case)
    elif len(res.samples) < 2:
        res.sample(dict(categories=[(tp, len(d) // 2) for tp, d in
                                    case["cats"]], eight=case["eight"],
                        busy=case["busy"], sms=case["sms"],
                        pdos=len(got.get("pdos", {}))))


def run_shard(params):
    res = Result()
    rng = random.Random(params["seed"] * 100237 + params["shard"])
    for i in range(params["n"]):
        case = gen_case(rng, with_mailbox=(i % 4 == 3))
        prior = gen_case(rng, with_mailbox=False) if i % 3 == 1 else None
        if prior is not None and i % 2:
            # the image read before belongs to a terminal of the same type
            # and revision (other serial number, other contents)
            prior["ident"][:3] = case["ident"][:3]
            res.count("rereads_after_an_image_of_the_same_identity")
        check_case(case, res, prior=prior)
    return res


def finalize(res, tier, seed):
    c = res.counters
    for k in ("images_8byte", "images_4byte", "pdo_sets_sdo",
              "rereads_on_the_same_terminal_object",
              "pdo_sets_eeprom", "sync_manager_sets"):
        if not c.get(k):
            res.inconc(f"{k} never exercised")


def replay(v):
    res = Result()
    check_case(v["case"], res, prior=v["case"].get("prior"))
    return res
