"""C13 datagram field encoding and decoding round-trip"""
import asyncio
import random
import struct

from .. import use_repo
from ..core import Result
use_repo()

from ebpfcat.ethercat import ECCmd, EtherCat  # noqa: E402

PROPERTY = "C13"
LEVEL = "exploration"
RULE = ("direct calls of the real EtherCat.roundtrip with an echo consumer "
        "on the send queue: 0-3 format strings with values (tokens B H I Q "
        "b h i q 2x 4s and concatenations, interleaved with their values), "
        "an optional trailing read-only format, data in {None, bytes of "
        "length 0..40, int 0..40}, idx, position and offset; the tuple put "
        "on the queue and the value returned for a harness-chosen random "
        "response are compared with struct.pack/unpack on the same formats; "
        "calls with floating-point zeros are repeated with zeros of the "
        "other sign; groups of 2-3 requests with different formats are in "
        "flight on one EtherCat object at once and answered in any order. "
        "a case = one call; non-trivial = at least one format or raw data")
ASSUMPTIONS = []
MIN_EVALUATIONS = {"quick": 5000, "thorough": 200000}
TOK = ["B", "H", "I", "Q", "b", "h", "i", "q", "2x", "4s", "HB", "IH", "BBH",
       # formats whose native (aligned) layout differs from the packed one
       "BH", "HI", "BQ", "H4xI", "bq", "BHI",
       # floating point members
       "f", "d", "Hf"]


def plan(tier, seed):
    if tier == "quick":
        return [dict(seed=seed, shard=i, n=4000) for i in range(16)]
    return [dict(seed=seed, shard=i, n=25000) for i in range(32)]


def values_for(rng, fmt):
    out = []
    i = 0
    while i < len(fmt):
        ch = fmt[i]
        if ch.isdigit():
            n = int(ch)
            kind = fmt[i + 1]
            if kind == "s":
                out.append(bytes(rng.getrandbits(8) for _ in range(n)))
            i += 2
            continue
        if ch in "fd":
            out.append(rng.choice([0.5, 2.5, -1.25, 0.1, 1e-3, 3.0, 0.0,
                                   -0.0, 1.0,
                                   rng.randint(-1000, 1000) / 8]))
            i += 1
            continue
        size = struct.calcsize("<" + ch)
        v = rng.getrandbits(8 * size)
        if ch.islower() and v >> (8 * size - 1):
            v -= 1 << (8 * size)
        out.append(v)
        i += 1
    return out


def gen_case(rng):
    nf = rng.choice([0, 1, 1, 2, 3])
    fmts = [rng.choice(TOK) for _ in range(nf)]
    vals = [values_for(rng, f) for f in fmts]
    trailing = rng.choice(TOK) if rng.random() < 0.35 else None
    r = rng.random()
    if r < 0.4:
        data = None
    elif r < 0.7:
        n = rng.choice([0, 0, 1, 2, rng.randint(0, 40), rng.randint(0, 40),
                        rng.randint(1400, 1472)])
        data = ["bytes", bytes(rng.getrandbits(8) for _ in range(n)).hex()]
    else:
        # up to the largest payload a frame can carry
        data = ["int", rng.choice([0, 0, 1, 4, rng.randint(0, 40),
                                   rng.randint(0, 40), 1458, 1459, 1460,
                                   1472, rng.randint(1400, 1472)])]
    if not fmts and trailing is None and data is None:
        data = ["int", 2]
    return dict(fmts=fmts, vals=[[v.hex() if isinstance(v, bytes) else v
                                  for v in vs] for vs in vals],
                trailing=trailing, data=data, idx=rng.randint(0, 255),
                pos=rng.randint(-100, 100), off=rng.randint(0, 0xffff),
                cmd=rng.choice([1, 2, 4, 5, 7]),
                respseed=rng.getrandbits(32))


def dec(case):
    vals = []
    for f, vs in zip(case["fmts"], case["vals"]):
        it = iter(vs)
        cur = []
        i = 0
        while i < len(f):
            ch = f[i]
            if ch.isdigit():
                if f[i + 1] == "s":
                    cur.append(bytes.fromhex(next(it)))
                i += 2
                continue
            cur.append(next(it))
            i += 1
        vals.append(cur)
    return vals


async def one(ec, case, res):
    vals = dec(case)
    args = []
    for f, vs in zip(case["fmts"], vals):
        args.append(f)
        args += vs
    if case["trailing"]:
        args.append(case["trailing"])
    if case["data"] is None:
        data = None
        raw = b""
    elif case["data"][0] == "bytes":
        data = bytes.fromhex(case["data"][1])
        raw = data
        if case["respseed"] % 3 == 0:
            # the caller hands over a buffer it goes on using
            data = bytearray(data)
    else:
        data = case["data"][1]
        raw = bytes(data)
    vfmt = "<" + "".join(case["fmts"])
    flat = [v for vs in vals for v in vs]
    want_payload = struct.pack(vfmt, *flat)
    allfmt = vfmt
    if case["trailing"]:
        want_payload += bytes(struct.calcsize("<" + case["trailing"]))
        allfmt += case["trailing"]
    want_payload += raw
    task = asyncio.ensure_future(ec.roundtrip(
        ECCmd(case["cmd"]), case["pos"], case["off"], *args, data=data,
        idx=case["idx"]))
    try:
        got = await asyncio.wait_for(ec.send_queue.get(), 1)
    except asyncio.TimeoutError:
        exc = task.exception() if task.done() else None
        task.cancel()
        res.violation("unexplained:nothing-queued",
                      f"roundtrip queued nothing ({exc!r})", case=case)
        return
    cmd, payload, idx, pos, off, future = got
    res.count("queued")
    if isinstance(data, bytearray) and len(data):
        # the request is queued: the caller's buffer is its own again
        data[:] = bytes(b ^ 0xff for b in data)
        res.count("caller_buffers_overwritten_after_queueing")
    if (cmd, idx, pos, off) != (ECCmd(case["cmd"]), case["idx"],
                                case["pos"], case["off"]):
        res.violation("unexplained:queued-header",
                      f"queued {(cmd, idx, pos, off)}", case=case)
    if payload != want_payload:
        res.violation("unexplained:payload",
                      f"payload {payload.hex()} expected "
                      f"{want_payload.hex()}", case=case)
        future.cancel()
        return
    rr = random.Random(case["respseed"])
    resp = bytes(rr.getrandbits(8) for _ in range(len(payload)))
    future.set_result(resp)
    try:
        ret = await task
    except Exception as ex:
        empty = data is not None and len(raw) == 0 and (
            case["fmts"] or case["trailing"])
        res.violation("empty-raw-data-with-formats" if empty
                      else "unexplained:roundtrip-raised",
                      f"roundtrip raised {ex!r} on a well-formed response",
                      case=case)
        return
    nfix = struct.calcsize(allfmt)
    fields = struct.unpack(allfmt, resp[:nfix])
    if data is None:
        want = fields
    elif case["fmts"] or case["trailing"]:
        want = fields + (resp[nfix:],)
    else:
        want = resp
    res.count("returns_compared")
    if repr(ret) != repr(want):       # repr: NaN fields compare equal
        res.violation("unexplained:return-value",
                      f"returned {ret!r}, expected {want!r}", case=case)
    elif len(res.samples) < 3:
        res.sample(dict(args=[a.hex() if isinstance(a, bytes) else a
                              for a in args], data=case["data"],
                        payload=payload.hex(), response=resp.hex(),
                        returned=repr(ret)))


def prepare(case):
    vals = dec(case)
    args = []
    for f, vs in zip(case["fmts"], vals):
        args.append(f)
        args += vs
    if case["trailing"]:
        args.append(case["trailing"])
    if case["data"] is None:
        data, raw = None, b""
    elif case["data"][0] == "bytes":
        data = bytes.fromhex(case["data"][1])
        raw = data
    else:
        data = case["data"][1]
        raw = bytes(data)
    vfmt = "<" + "".join(case["fmts"])
    want_payload = struct.pack(vfmt, *[v for vs in vals for v in vs])
    allfmt = vfmt
    if case["trailing"]:
        want_payload += bytes(struct.calcsize("<" + case["trailing"]))
        allfmt += case["trailing"]
    return args, data, raw, want_payload + raw, allfmt


def expected_return(case, data, allfmt, resp):
    nfix = struct.calcsize(allfmt)
    fields = struct.unpack(allfmt, resp[:nfix])
    if data is None:
        return fields
    if case["fmts"] or case["trailing"]:
        return fields + (resp[nfix:],)
    return resp


async def group(ec, cases, res, rng):
    """2-3 requests with different formats in flight on one EtherCat object
    at the same time, answered in any order"""
    cases = [c for c in cases
             if not (c["data"] is not None and (c["fmts"] or c["trailing"])
                     and c["data"][1] in (0, ""))]   # recorded finding
    if len(cases) < 2:
        return
    for k, c in enumerate(cases):
        c["idx"] = (c["idx"] & 0xfc) | k      # tells the queued items apart
    prep = [prepare(c) for c in cases]
    tasks = [asyncio.ensure_future(ec.roundtrip(
        ECCmd(c["cmd"]), c["pos"], c["off"], *p[0], data=p[1],
        idx=c["idx"])) for c, p in zip(cases, prep)]
    items = {}
    for _ in cases:
        try:
            it = await asyncio.wait_for(ec.send_queue.get(), 1)
        except asyncio.TimeoutError:
            break
        items[it[2] & 3] = it
    res.count("concurrent_groups")
    desc = dict(group=[dict(c) for c in cases])
    if len(items) != len(cases):
        for t in tasks:
            t.cancel()
        res.violation("unexplained:nothing-queued",
                      f"{len(items)} of {len(cases)} concurrent requests "
                      f"were queued", case=desc)
        return
    order = list(range(len(cases)))
    rng.shuffle(order)
    resps = {}
    for k in order:
        payload, future = items[k][1], items[k][5]
        if payload != prep[k][3]:
            res.violation("unexplained:payload",
                          f"concurrent request {k}: payload {payload.hex()}"
                          f" expected {prep[k][3].hex()}", case=desc)
        rr = random.Random(cases[k]["respseed"])
        resps[k] = bytes(rr.getrandbits(8) for _ in range(len(payload)))
        future.set_result(resps[k])
        if rng.random() < 0.5:
            await asyncio.sleep(0)
    for k, (c, p, t) in enumerate(zip(cases, prep, tasks)):
        res.case(["concurrent", c], nontrivial=True)
        try:
            ret = await t
        except Exception as ex:
            res.violation("unexplained:roundtrip-raised",
                          f"concurrent request {k} (formats {c['fmts']} "
                          f"{c['trailing']}) raised {ex!r} on a well-formed "
                          f"response", case=desc)
            return
        want = expected_return(c, p[1], p[4], resps[k])
        res.count("concurrent_returns_compared")
        if repr(ret) != repr(want):
            res.violation("unexplained:return-value",
                          f"concurrent request {k} of {len(cases)} (formats "
                          f"{c['fmts']} {c['trailing']}, answered in order "
                          f"{order}) returned {ret!r}, expected {want!r}",
                          case=desc)
            return


def flip_zeros(case):
    """the same call with every floating-point zero of the other sign"""
    c = dict(case)
    c["vals"] = [[(-v if isinstance(v, float) and v == 0 else v)
                  for v in vs] for vs in case["vals"]]
    return c


async def batch(cases, res, rng):
    ec = EtherCat("vf")
    ec.send_queue = asyncio.Queue()
    for n, c in enumerate(cases):
        res.case(c, nontrivial=bool(c["fmts"] or c["trailing"]
                                    or c["data"]))
        res.count("kind[" + ("none" if c["data"] is None else c["data"][0])
                  + ("+fmt" if c["fmts"] or c["trailing"] else "") + "]")
        await one(ec, c, res)
        if any(isinstance(v, float) and v == 0 for vs in c["vals"]
               for v in vs):
            # values that compare equal but encode differently
            res.count("calls_repeated_with_zeros_of_the_other_sign")
            await one(ec, flip_zeros(c), res)
        if n % 5 == 0 and n + 3 < len(cases):
            await group(ec, [dict(x) for x in
                             cases[n + 1:n + 1 + rng.choice([2, 3])]],
                        res, rng)


def run_shard(params):
    res = Result()
    rng = random.Random(params["seed"] * 100207 + params["shard"])
    cases = [gen_case(rng) for _ in range(params["n"])]
    asyncio.run(batch(cases, res, rng))
    return res


def finalize(res, tier, seed):
    c = res.counters
    need = ["kind[none+fmt]", "kind[bytes+fmt]", "kind[int+fmt]",
            "kind[bytes]", "kind[int]"]
    missing = [n for n in need if not c.get(n)]
    if missing:
        res.inconc(f"argument kinds never tried: {missing}")


def replay(v):
    res = Result()
    asyncio.run(batch([v["case"]], res))
    return res
