"""plumbing: results, merging, evidence, known findings, shard runner, CLI"""
import hashlib
import importlib
import json
import os
import random
import subprocess
import sys
import time
import traceback
from concurrent.futures import ThreadPoolExecutor

from . import VERIF_ROOT, REPO

# runs against a scratch copy of the repository (mutants, seeded changes)
# must not overwrite the committed evidence
_SCRATCH = REPO != "/repo"
EVIDENCE_DIR = os.environ.get("VERIF_EVIDENCE_DIR") or os.path.join(
    VERIF_ROOT, "out", "scratch-evidence" if _SCRATCH else "..",
    "" if _SCRATCH else "evidence")
EVIDENCE_DIR = os.path.normpath(EVIDENCE_DIR)
REPLAY_DIR = os.path.join(VERIF_ROOT, "out",
                          "scratch-replay" if _SCRATCH else "replay")
KNOWN_FILE = os.path.join(VERIF_ROOT, "known_findings.json")
PYTHON = "/venv/bin/python"
MAX_WORKERS = 16


def h64(obj):
    """stable 64 bit hash of a json-able object"""
    s = json.dumps(obj, sort_keys=True, default=repr).encode()
    return int.from_bytes(hashlib.blake2b(s, digest_size=8).digest(), "big")


def jsonable(o):
    if isinstance(o, (bytes, bytearray, memoryview)):
        return bytes(o).hex()
    if isinstance(o, (set, frozenset)):
        return sorted(jsonable(x) for x in o)
    if isinstance(o, dict):
        return {str(k): jsonable(v) for k, v in o.items()}
    if isinstance(o, (list, tuple)):
        return [jsonable(x) for x in o]
    if isinstance(o, (int, float, str, bool)) or o is None:
        return o
    return repr(o)


class Result:
    """what one shard (or the merged run) observed"""

    def __init__(self):
        self.evaluations = 0
        self.nontrivial = set()
        self.counters = {}
        self.samples = []
        self.violations = []
        self.inconclusive = []
        self.info = {}

    # -- recording -----------------------------------------------------
    def count(self, name, n=1):
        self.counters[name] = self.counters.get(name, 0) + n

    def case(self, desc, nontrivial=True):
        """register one evaluated case; `desc` identifies it"""
        self.evaluations += 1
        if nontrivial:
            self.nontrivial.add(h64(desc))

    def sample(self, s, limit=4):
        if len(self.samples) < limit:
            self.samples.append(jsonable(s))

    def violation(self, key, what, case=None, witness=None):
        self.count("violations_raw")
        n = sum(1 for v in self.violations if v["key"] == key)
        if n < 3:
            self.violations.append(dict(key=key, what=what,
                                        case=jsonable(case),
                                        witness=jsonable(witness)))
        else:
            self.count(f"violations_more[{key}]")

    def inconc(self, why):
        if len(self.inconclusive) < 20:
            self.inconclusive.append(why)

    # -- (de)serialisation -------------------------------------------
    def dump(self):
        return dict(evaluations=self.evaluations,
                    nontrivial=sorted(self.nontrivial),
                    counters=self.counters, samples=self.samples,
                    violations=self.violations,
                    inconclusive=self.inconclusive, info=self.info)

    @classmethod
    def load(cls, d):
        r = cls()
        r.evaluations = d["evaluations"]
        r.nontrivial = set(d["nontrivial"])
        r.counters = d["counters"]
        r.samples = d["samples"]
        r.violations = d["violations"]
        r.inconclusive = d["inconclusive"]
        r.info = d.get("info", {})
        return r

    def merge(self, other):
        self.evaluations += other.evaluations
        self.nontrivial |= other.nontrivial
        for k, v in other.counters.items():
            self.counters[k] = self.counters.get(k, 0) + v
        for s in other.samples:
            if len(self.samples) < 5:
                self.samples.append(s)
        for v in other.violations:
            n = sum(1 for w in self.violations if w["key"] == v["key"])
            if n < 3:
                self.violations.append(v)
        self.inconclusive += other.inconclusive
        for k, v in other.info.items():
            if isinstance(v, (int, float)) and not isinstance(v, bool):
                self.info[k] = self.info.get(k, 0) + v
            elif isinstance(v, list):
                self.info[k] = (self.info.get(k, []) + v)[:50]
            elif isinstance(v, dict):
                d = self.info.setdefault(k, {})
                for kk, vv in v.items():
                    if isinstance(vv, (int, float)):
                        d[kk] = d.get(kk, 0) + vv
                    else:
                        d[kk] = vv
            else:
                self.info[k] = v


def load_known():
    try:
        with open(KNOWN_FILE) as f:
            d = json.load(f)
    except FileNotFoundError:
        return {}
    return {(e["property"], e["key"]): e for e in d.get("findings", [])}


def load_check(pid):
    return importlib.import_module(f"vf.checks.{pid.lower()}")


def run_shard_subprocess(pid, params, timeout):
    env = dict(os.environ, PYTHONHASHSEED="0", EBPFCAT_REPO=REPO,
               PYTHONPATH=VERIF_ROOT, PYTHONDONTWRITEBYTECODE="1")
    try:
        p = subprocess.run(
            [PYTHON, "-m", "vf.cli", pid, "--shard", json.dumps(params)],
            capture_output=True, timeout=timeout, env=env, cwd=VERIF_ROOT,
            start_new_session=True)
    except subprocess.TimeoutExpired:
        r = Result()
        r.inconc(f"shard watchdog ({timeout}s) fired for {params}")
        return r
    out = p.stdout.decode(errors="replace")
    marker = "\n@@RESULT@@"
    if marker not in "\n" + out:
        r = Result()
        r.inconc(f"shard {params} died rc={p.returncode}: "
                 f"{p.stderr.decode(errors='replace')[-1500:]}")
        return r
    payload = ("\n" + out).rsplit(marker, 1)[1]
    return Result.load(json.loads(payload))


def shard_main(pid, params):
    mod = load_check(pid)
    try:
        r = mod.run_shard(params)
    except BaseException:
        r = Result()
        r.inconc(f"shard {params} raised: {traceback.format_exc()[-3000:]}")
    sys.stdout.flush()
    sys.stdout.write("\n@@RESULT@@" + json.dumps(r.dump()))
    sys.stdout.flush()


def write_evidence(pid, mod, tier, seed, res, wall, nviol, extra_cov=None):
    os.makedirs(EVIDENCE_DIR, exist_ok=True)
    cov = dict(evaluations=res.evaluations,
               distinct_nontrivial=len(res.nontrivial),
               rule=getattr(mod, "RULE", ""),
               samples=res.samples[:5],
               counters=dict(sorted(res.counters.items())),
               inconclusive=res.inconclusive[:10])
    cov.update(jsonable(res.info))
    if extra_cov:
        cov.update(extra_cov)
    ev = dict(property_id=pid, tier=tier, seed=seed,
              level=getattr(mod, "LEVEL", "exploration"), coverage=cov,
              assumptions=getattr(mod, "ASSUMPTIONS", []),
              wall_s=round(wall, 2), violations=nviol)
    path = os.path.join(EVIDENCE_DIR, f"{pid}.json")
    with open(path + ".tmp", "w") as f:
        json.dump(ev, f, indent=1, sort_keys=True)
    os.replace(path + ".tmp", path)
    return path


def run_check(pid, tier, seed, inline=False, only=None):
    t0 = time.time()
    mod = load_check(pid)
    plan = mod.plan(tier, seed)
    if only is not None:
        plan = [plan[i] for i in only]
    timeout = getattr(mod, "SHARD_TIMEOUT", {}).get(
        tier, 300 if tier == "quick" else 3600)
    res = Result()
    if inline:
        for params in plan:
            res.merge(mod.run_shard(params))
    else:
        with ThreadPoolExecutor(MAX_WORKERS) as ex:
            for r in ex.map(
                    lambda p: run_shard_subprocess(pid, p, timeout), plan):
                res.merge(r)
    if hasattr(mod, "finalize"):
        mod.finalize(res, tier, seed)
    floor = getattr(mod, "MIN_EVALUATIONS", {}).get(tier, 1)
    if res.evaluations < floor:
        res.inconc(f"only {res.evaluations} evaluations (< floor {floor})")
    if len(res.nontrivial) < 2:
        res.inconc("fewer than 2 distinct non-trivial cases observed")

    known = load_known()
    unknown = []
    seen_known = {}
    for v in res.violations:
        e = known.get((pid, v["key"]))
        if e is not None:
            seen_known.setdefault(v["key"], e)
        else:
            unknown.append(v)
    for key, e in sorted(seen_known.items()):
        print(f"KNOWN-FINDING: property={pid} {key}: {e['what']}")
    res.info["known_findings_seen"] = sorted(seen_known)
    os.makedirs(REPLAY_DIR, exist_ok=True)
    for fn in os.listdir(REPLAY_DIR):
        if fn.startswith(f"{pid}-{tier}-{seed}-"):
            os.remove(os.path.join(REPLAY_DIR, fn))
    done = set()
    for i, v in enumerate(unknown):
        path = os.path.join(REPLAY_DIR, f"{pid}-{tier}-{seed}-{i}.json")
        with open(path, "w") as f:
            json.dump(dict(property=pid, tier=tier, seed=seed, **v), f,
                      indent=1)
        if v["key"] not in done:
            done.add(v["key"])
            print(f"VIOLATION property={pid} replay={path}")
            print(f"  key={v['key']}: {v['what']}")
    wall = time.time() - t0
    write_evidence(pid, mod, tier, seed, res, wall, len(unknown))
    print(f"{pid} tier={tier} seed={seed}: evaluations={res.evaluations} "
          f"distinct_nontrivial={len(res.nontrivial)} "
          f"known={len(seen_known)} violations={len(unknown)} "
          f"inconclusive={len(res.inconclusive)} wall={wall:.1f}s")
    if unknown:
        return 1
    if res.inconclusive:
        for w in res.inconclusive[:5]:
            print(f"INCONCLUSIVE property={pid}: {w[:2000]}")
        return 3
    return 0
