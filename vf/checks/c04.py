"""C04 writing one variable never changes another"""
import random
import struct

from .. import ebpfvm, kern, prog
from ..core import Result
from .. import use_repo
use_repo()

from ebpfcat.arraymap import ArrayMap  # noqa: E402
from ebpfcat.ebpf import (  # noqa: E402
    AssembleError, LocalVar, Member, Structure, SubProgram, ktime, prandom)
from ebpfcat.hashmap import Dict, HashMap  # noqa: E402
from ebpfcat.xdp import XDP  # noqa: E402

PROPERTY = "C04"
LEVEL = "exploration"
RULE = ("seeded random programs: a main program with stack variables of all "
        "sizes, array-map and hash-map variables, an optional Dict (key and "
        "value structure members) and 0-3 instances of 1-2 SubProgram "
        "classes with their own stack variables; every variable is "
        "initialised to a distinct value, 1-6 statements then write one "
        "variable each from an expression chosen to force temporaries "
        "(hash-map reads -> key slots, ktime/prandom -> saved registers, "
        "other variables, nested arithmetic), finally every variable is read "
        "back. Oracle 1: after the run only the written variables differ "
        "from their initial value (kernel authority, reference machine "
        "agreeing). Oracle 2 (reference machine): a shadow ownership map of "
        "the declared stack ranges; a store into a range owned by a variable "
        "that is not the running statement's target is an event. Oracle 0: "
        "declared stack ranges must be pairwise disjoint. Packet leg (every "
        "fourth case, kernel): 2-5 groups of packet variables - plain fields "
        "of all widths and byte orders next to each other, and bit fields "
        "that partition or partly cover a byte - 1-4 writes from constants, "
        "from a stack variable and from run-time expressions, with values "
        "wider than the target; in the returned packet every variable that "
        "was not written and every bit that belongs to no variable keeps "
        "its value. a case = one "
        "program; non-trivial = >= 3 variables and >= 1 write statement")
ASSUMPTIONS = ["variable addresses are taken from the descriptors' own "
               "fmt_addr outside any temporary allocation"]
MIN_EVALUATIONS = {"quick": 400, "thorough": 10000}
FM = ["B", "H", "I", "Q", "b", "h", "i", "q"]


def plan(tier, seed):
    if tier == "quick":
        return [dict(seed=seed, shard=i, n=200) for i in range(16)]
    return [dict(seed=seed, shard=i, n=500) for i in range(32)]


def gen_case(rng):
    mlocals = [[f"l{i}", rng.choice(FM)] for i in range(rng.randint(0, 4))]
    avars = [[f"a{i}", rng.choice(FM)] for i in range(rng.randint(1, 3))]
    hvars = [[f"h{i}", rng.choice(["I", "Q", "q", "i"])]
             for i in range(rng.choice([0, 0, 1, 2]))]
    # variables of a second ArrayMap object of the same program
    avars2 = [[f"b{i}", rng.choice(FM)]
              for i in range(rng.choice([0] * 11 + [1, 2]))]
    # variables of a second HashMap object of the same program
    hvars2 = [[f"g{i}", rng.choice(["I", "Q", "q", "i"])]
              for i in range(rng.choice([0, 1, 2]))] if hvars else []
    use_dict = rng.random() < 0.35
    subcls = [[[f"s{j}x{i}", rng.choice(FM)]
               for i in range(rng.randint(1, 3))]
              for j in range(rng.choice([0, 1, 1, 2]))]
    insts = [rng.randrange(len(subcls)) for _ in range(rng.randint(1, 3))] \
        if subcls else []
    # array-map variables declared in the sub-program classes
    subarr = [[[f"s{j}a{i}", rng.choice(FM)]
               for i in range(rng.choice([0, 0, 1, 2]))]
              for j in range(len(subcls))]
    # variable list: (id, kind, where, name, fmt)
    vs = []
    for n, f in mlocals:
        vs.append(["main", "local", n, f])
    for n, f in avars:
        vs.append(["main", "array", n, f])
    for n, f in avars2:
        vs.append(["main", "array2", n, f])
    for n, f in hvars:
        vs.append(["main", "hash", n, f])
    for n, f in hvars2:
        vs.append(["main", "hash", n, f])
    if use_dict:
        vs.append(["main", "dkey", "k0", "I"])
        vs.append(["main", "dval", "v0", "Q"])
        vs.append(["main", "dval", "v1", "I"])
    for i, k in enumerate(insts):
        for n, f in subcls[k]:
            vs.append([f"sub{i}", "local", n, f])
        for n, f in subarr[k]:
            vs.append([f"sub{i}", "array", n, f])
    writes = []
    for _ in range(rng.randint(1, 6)):
        t = rng.randrange(len(vs))
        how = rng.choice(["const", "var", "hash", "ktime", "prandom", "deep",
                          "var"])
        src = rng.randrange(len(vs))
        writes.append([t, how, src, rng.randint(1, 100)])
    return dict(mlocals=mlocals, avars=avars, avars2=avars2, hvars=hvars,
                hvars2=hvars2,
                use_dict=use_dict,
                subcls=subcls, insts=insts, vars=vs, writes=writes,
                subarr=subarr, prelayout=rng.random() < 0.3,
                # stack variables declared on two levels of a class
                # hierarchy (program and sub-program classes)
                inherit=rng.random() < 0.25,
                initseed=rng.getrandbits(32))


def fit(v, fmt):
    size = struct.calcsize(fmt)
    v &= (1 << (8 * size)) - 1
    return v


def signed_val(v, fmt):
    size = struct.calcsize(fmt)
    v &= (1 << (8 * size)) - 1
    if fmt.islower() and v >> (8 * size - 1):
        v -= 1 << (8 * size)
    return v


class Built:
    pass


def build(case):
    rng = random.Random(case["initseed"])
    b = Built()
    m = ArrayMap()
    ns = {"license": "GPL", "m": m}
    inherit = case.get("inherit")
    mbase = XDP
    ml = case["mlocals"]
    if inherit and len(ml) >= 2:
        cut = random.Random(case["initseed"] + 1).randint(1, len(ml) - 1)
        mbase = type("VfC04Base", (XDP,),
                     {n: LocalVar(f) for n, f in ml[:cut]})
        ml = ml[cut:]
    for n, f in ml:
        ns[n] = LocalVar(f)
    for n, f in case["avars"]:
        ns[n] = m.globalVar(f)
    if case.get("avars2"):
        m2 = ArrayMap()
        ns["m2"] = m2
        for n, f in case["avars2"]:
            ns[n] = m2.globalVar(f)
    if case["hvars"]:
        h = HashMap()
        ns["h"] = h
        for n, f in case["hvars"]:
            ns[n] = h.globalVar(f, 0)
        if case.get("hvars2"):
            h2 = HashMap()
            ns["h2"] = h2
            for n, f in case["hvars2"]:
                ns[n] = h2.globalVar(f, 0)
    if case["use_dict"]:
        Key = type("Key", (Structure,), {"k0": Member("I")})
        Value = type("Value", (Structure,), {"v0": Member("Q"),
                                             "v1": Member("I")})
        ns["d"] = Dict(key=Key, value=Value, size=4)
    nv = len(case["vars"])
    for i in range(nv):
        ns[f"o{i}"] = m.globalVar("Q")
    subclasses = []
    subarr = case.get("subarr") or [[] for _ in case["subcls"]]
    for j, dl in enumerate(case["subcls"]):
        sbase = SubProgram
        if inherit and len(dl) >= 2:
            cut = random.Random(case["initseed"] + 2 + j).randint(
                1, len(dl) - 1)
            sbase = type(f"VfS{j}Base", (SubProgram,),
                         {n: LocalVar(f) for n, f in dl[:cut]})
            dl = dl[cut:]
        sns = {n: LocalVar(f) for n, f in dl}
        sns.update({n: m.globalVar(f) for n, f in subarr[j]})
        subclasses.append(type(f"VfS{j}", (sbase,), sns))
    subs = [subclasses[k]() for k in case["insts"]]
    if case.get("prelayout") and subs:
        # the same sub-program objects were laid out before, in another
        # program with another order (a regrouped / restarted controller)
        def preprogram(self):
            # the earlier program uses the sub-programs' variables too
            for s_ in self.subprograms:
                for n_, f_ in list(type(s_).__dict__.items()):
                    if isinstance(f_, LocalVar) and \
                            isinstance(f_.fmt, str):
                        setattr(s_, n_, 1)
            self.r0 = 2
            self.exit()
        extra = [subclasses[0]()]
        pre = type("VfC04Pre", (XDP,), {"license": "GPL", "m": m,
                                        "pv": m.globalVar("Q"),
                                        "program": preprogram})(
            subprograms=extra + subs[::-1])
        try:
            pre.assemble()
        except Exception:
            pass
    inits = []
    for i, (where, kind, n, f) in enumerate(case["vars"]):
        size = struct.calcsize(f)
        v = rng.getrandbits(8 * size - 1) | 1
        inits.append(signed_val(v, f))
    b.inits = inits
    b.ranges = {}       # var index -> (lo, hi) stack offsets relative fp
    b.stmt = []         # (pc_start, pc_end, target var index or None)

    def owner(e, where):
        return e if where == "main" else subs[int(where[3:])]

    def getv(e, i):
        where, kind, n, f = case["vars"][i]
        if kind == "dkey":
            return getattr(e.d.key, n)
        if kind == "dval":
            return getattr(e.d.value, n)
        return getattr(owner(e, where), n)

    def setv(e, i, val):
        where, kind, n, f = case["vars"][i]
        if kind == "dkey":
            setattr(e.d.key, n, val)
        elif kind == "dval":
            setattr(e.d.value, n, val)
        else:
            if kind == "hash" and isinstance(val, int):
                # the DSL has no constant store into a hash-map variable
                val = (getattr(e, case["avars"][0][0]) & 0) + val
            setattr(owner(e, where), n, val)

    def stack_addr(e, i):
        where, kind, n, f = case["vars"][i]
        if kind == "local":
            o = owner(e, where)
            return [c.__dict__[n] for c in type(o).__mro__
                    if n in c.__dict__][0].fmt_addr(o)[1]
        if kind == "dkey":
            return type(e.d.key).__dict__[n].fmt_addr(e.d.key)[1]
        if kind == "dval":
            return type(e.d.value).__dict__[n].fmt_addr(e.d.value)[1]
        return None

    expected = list(inits)

    def program(self):
        e = self
        for i, (where, kind, n, f) in enumerate(case["vars"]):
            a = stack_addr(e, i)
            if a is not None:
                b.ranges[i] = (a, a + struct.calcsize(f))
        for i in range(nv):
            s0 = len(e.opcodes)
            setv(e, i, inits[i])
            b.stmt.append((s0, len(e.opcodes), i))
        for t, how, src, c in case["writes"]:
            ft = case["vars"][t][3]
            fs = case["vars"][src][3]
            s0 = len(e.opcodes)
            cur_src = expected[src]
            if how == "const":
                setv(e, t, c)
                val = c
            elif how == "var":
                setv(e, t, getv(e, src) + c)
                val = cur_src + c
            elif how == "hash" and case["hvars"]:
                hi = [k for k, v in enumerate(case["vars"])
                      if v[1] == "hash"][0]
                setv(e, t, getv(e, hi) + c)
                val = expected[hi] + c
            elif how == "ktime":
                setv(e, t, (ktime(e) & 0) + c)
                val = c
            elif how == "prandom":
                setv(e, t, (prandom(e) & 0) + c)
                val = c
            else:
                setv(e, t, (getv(e, src) + c) * 3 - (getv(e, src) & 0xff))
                val = (cur_src + c) * 3 - (cur_src & 0xff)
            expected[t] = signed_val(val, ft)
            b.stmt.append((s0, len(e.opcodes), t))
        for i in range(nv):
            where, kind, n, f = case["vars"][i]
            a = stack_addr(e, i)
            s0 = len(e.opcodes)
            if a is not None:
                mm = {1: e.mB, 2: e.mH, 4: e.mI, 8: e.mQ}[struct.calcsize(f)]
                setattr(e, f"o{i}", mm[e.r10 + a])
            else:
                setattr(e, f"o{i}", getv(e, i))
            b.stmt.append((s0, len(e.opcodes), None))
        e.r0 = 2
        e.exit()
    ns["program"] = program
    e = type("VfC04", (mbase,), ns)(subprograms=subs)
    b.e, b.subs, b.expected = e, subs, expected
    return b


def signed_prandom_free(case):
    return True


def check_case(case, res, use_v=True):
    nv = len(case["vars"])
    with kern.session() as sess:
        res.count("programs")
        try:
            b = build(case)
            ld = prog.Loaded(b.e, sess)
        except AssembleError as ex:
            res.count("status:assemble_error")
            return
        except Exception as ex:
            # a well-formed program of documented constructs that the
            # library cannot even generate
            import traceback
            res.case(case, nontrivial=False)
            res.count("status:generator_crash")
            res.violation("unexplained:program-generation-raised",
                          f"building the program raised "
                          f"{type(ex).__name__}: {str(ex)[:200]}", case=case,
                          witness=traceback.format_exc()[-1200:])
            return
        try:
            ld.load()
        except OSError as ex:
            res.count("status:load_failed")
            res.count("load_failed (C05's business)")
            ld.close()
            return
        try:
            res.count("status:ok")
            res.case(case, nontrivial=nv >= 3)
            if case.get("inherit"):
                res.count("cases_with_locals_on_two_class_levels")
            desc = dict(case)
            # oracle 0: declared stack ranges disjoint
            rl = sorted((lo, hi, i) for i, (lo, hi) in b.ranges.items())
            overlap = None
            pairs = []
            for x in range(len(rl)):
                for y in range(x + 1, len(rl)):
                    if rl[y][0] < rl[x][1]:
                        pairs.append((rl[x][2], rl[y][2]))
            # the recorded finding is about sub-program locals overlapping
            # each other; a sub-program local inside the main program's
            # declared frame is another matter
            mixed = [p for p in pairs
                     if not all(case["vars"][i][0].startswith("sub")
                                for i in p)]
            if pairs:
                overlap = mixed[0] if mixed else pairs[0]
            res.count("stack_variables", len(rl))
            subinvolved = overlap and not mixed
            if overlap:
                res.violation(
                    "subprogram-locals-overlap" if subinvolved
                    else "unexplained:stack-variables-overlap",
                    f"declared stack variables {case['vars'][overlap[0]]} at "
                    f"{b.ranges[overlap[0]]} and {case['vars'][overlap[1]]} "
                    f"at {b.ranges[overlap[1]]} overlap", case=desc)
            e = b.e
            m = e.__dict__["m"]
            m[:] = bytes(len(m))
            img = bytes(m)
            ret, out, _ = ld.run_k(bytes(64))
            obs_k = [int.from_bytes(
                m[e.__dict__[f"o{i}"]:e.__dict__[f"o{i}"] + 8], "little")
                for i in range(nv)]
            bad = []
            for i in range(nv):
                f = case["vars"][i][3]
                size = struct.calcsize(f)
                got = obs_k[i] & ((1 << (8 * size)) - 1)
                want = b.expected[i] & ((1 << (8 * size)) - 1)
                res.count("variables_compared")
                if got != want:
                    bad.append((i, got, want))
            events = []
            if use_v:
                m[:] = img
                stmt_of = {}
                live_from, live_to = {}, {}
                for k, (s0, s1, t) in enumerate(b.stmt):
                    for pc in range(s0, s1):
                        stmt_of[pc] = t
                    if k < nv:
                        live_from[t] = s1       # after its initialisation
                    elif k >= len(b.stmt) - nv:
                        live_to[k - (len(b.stmt) - nv)] = s0   # read-back

                def hook(vm, kind, region, off, size, value):
                    if kind not in ("w", "a") or not region.tag or \
                            region.tag[0] != "stack":
                        return
                    lo = off - ebpfvm.STACK_SIZE
                    t = stmt_of.get(vm.pc, "outside")
                    for i, (a, z) in b.ranges.items():
                        if lo < z and a < lo + size and i != t and \
                                live_from.get(i, 1 << 30) <= vm.pc \
                                < live_to.get(i, 0):
                            events.append((vm.pc, lo, size, i, t))
                try:
                    retv, outv, vm = ld.run_v(bytes(64), hooks=[hook],
                                              fresh_hash=True)
                except ebpfvm.VMFault as ex:
                    res.inconc(f"V fault where K ran: {ex} case={case}")
                    return
                res.count("v_runs")
                obs_v = [int.from_bytes(
                    m[e.__dict__[f"o{i}"]:e.__dict__[f"o{i}"] + 8], "little")
                    for i in range(nv)]
                if obs_v != obs_k:
                    res.inconc(f"K/V disagree: {obs_k} vs {obs_v} "
                               f"case={case}")
                res.count("v_foreign_store_events", len(events))
            hit = {ev[3] for ev in events}
            only_sub = bool(hit) and all(
                case["vars"][i][0].startswith("sub") for i in hit)
            if events:
                pc, lo, size, i, t = events[0]
                res.violation(
                    "subprogram-locals-overlap" if only_sub
                    else "unexplained:store-into-foreign-variable",
                    f"pc {pc}: store of {size} bytes at fp{lo} hits the live "
                    f"variable {case['vars'][i]} while the statement's "
                    f"target is "
                    f"{case['vars'][t] if isinstance(t, int) else t}",
                    case=desc, witness=dict(
                        events=events[:10],
                        ranges={str(k): v for k, v in b.ranges.items()},
                        disasm=ebpfvm.disasm(ld.code)[:200]))
            if bad:
                written = {t for t, *_ in case["writes"]}
                i, got, want = bad[0]
                key = "subprogram-locals-overlap" if only_sub or (
                    overlap and subinvolved) else classify(case, b, bad,
                                                           overlap)
                res.violation(
                    key, f"variable {case['vars'][i]} holds {got:#x}, "
                    f"expected {want:#x} (written by a statement: "
                    f"{i in written}); all mismatches {bad[:5]}",
                    case=desc, witness=dict(
                        ranges={str(k): v for k, v in b.ranges.items()},
                        events=events[:10],
                        disasm=ebpfvm.disasm(ld.code)[:200]))
            if len(res.samples) < 3 and not bad:
                res.sample(dict(vars=case["vars"], writes=case["writes"],
                                stack_ranges={str(k): v for k, v
                                              in b.ranges.items()}))
        finally:
            ld.close()


def classify(case, b, bad, overlap):
    badvars = {i for i, _, _ in bad}
    if overlap:
        # any mismatch in a program whose declared ranges overlap is
        # attributed to the overlap when it involves one of the two
        lo = {overlap[0], overlap[1]}
        involved = set()
        rl = sorted((a, z, i) for i, (a, z) in b.ranges.items())
        for x in range(len(rl)):
            for y in range(x + 1, len(rl)):
                if rl[y][0] < rl[x][1]:
                    involved |= {rl[x][2], rl[y][2]}
        if badvars & involved:
            if all(case["vars"][i][0].startswith("sub") for i in involved):
                return "subprogram-locals-overlap"
    kinds = sorted({case["vars"][i][1] for i in badvars})
    if case.get("avars2") and set(kinds) <= {"array", "array2"}:
        # both ArrayMap objects of one program address their variables
        # through the same base register (r7)
        return "two-array-maps-share-the-base-register"
    where = sorted({case["vars"][i][0][:3] for i in badvars})
    hows = sorted({h for _, h, _, _ in case["writes"]})
    return (f"unexplained:value kinds={','.join(kinds)} "
            f"where={','.join(where)}")


BYTE_SPLITS = [[(0, 4), (4, 4)], [(0, 3), (3, 1), (4, 2), (6, 2)],
               [(0, 1), (1, 7)], [(0, 2), (2, 5), (7, 1)], [(0, 8)],
               [(0, 6), (6, 2)], [(0, 1), (1, 1), (2, 1), (3, 5)],
               [(0, 5)], [(2, 3), (5, 3)]]
PFM = ["B", "H", "I", "Q", "b", "h", "i", "q", ">H", ">I", "<H", ">Q", "!h"]


def gen_packet_case(rng):
    """packet variables: plain fields next to each other and bit fields
    that share bytes; values written may be wider than the target"""
    pos = 14 + rng.randint(0, 3)
    vs = []
    for k in range(rng.randint(2, 5)):
        if rng.random() < 0.55:
            for fld in rng.choice(BYTE_SPLITS):
                vs.append([f"p{len(vs)}", pos, list(fld)])
            pos += 1
        else:
            f = rng.choice(PFM)
            vs.append([f"p{len(vs)}", pos, f])
            pos += struct.calcsize(f[-1])
        if rng.random() < 0.2:
            pos += 1
    writes = []
    for _ in range(rng.randint(1, 4)):
        t = rng.randrange(len(vs))
        how = rng.choice(["const", "local", "local", "expr"])
        val = rng.choice([rng.getrandbits(8), rng.getrandbits(16),
                          rng.getrandbits(31), 0xff, 0xffff, 0x1ff, 1, 0,
                          rng.getrandbits(4)])
        writes.append([t, how, val])
    return dict(packet=True, vars=vs, writes=writes, size=pos + 2,
                initseed=rng.getrandbits(32))


def pv_read(pkt, v):
    name, pos, f = v
    if isinstance(f, list):
        return (pkt[pos] >> f[0]) & ((1 << f[1]) - 1)
    return pkt[pos:pos + struct.calcsize(f[-1])]


def check_packet_case(case, res):
    from ebpfcat.xdp import PacketVar, XDPExitCode
    vs, writes = case["vars"], case["writes"]
    res.case(case, nontrivial=len(vs) >= 3)
    res.count("packet_programs")

    def program(self):
        e = self
        e.l0 = 0
        for t, how, val in writes:
            name = vs[t][0]
            if how == "const":
                setattr(e, name, val)
            elif how == "local":
                e.l0 = val
                setattr(e, name, e.l0)
            else:
                e.l0 = val >> 1
                setattr(e, name, e.l0 * 2 + (val & 1))
        e.exit(XDPExitCode.TX)
    ns = dict(license="GPL", minimumPacketSize=case["size"],
              l0=LocalVar("Q"), program=program)
    for name, pos, f in vs:
        ns[name] = PacketVar(pos, tuple(f) if isinstance(f, list) else f)
    r = random.Random(case["initseed"])
    pkt = bytes(r.getrandbits(8) for _ in range(max(case["size"], 20) + 4))
    with kern.session() as sess:
        try:
            e = type("VfPkt", (XDP,), ns)()
            ld = prog.Loaded(e, sess)
        except (AssembleError, OverflowError, struct.error):
            res.count("packet_programs_refused_by_the_generator")
            return
        try:
            ld.load()
        except OSError:
            # acceptance by the verifier is C05's subject
            res.count("packet_programs_rejected_by_the_kernel")
            return
        try:
            ret, out = ld.run_k(pkt)[:2]
        finally:
            ld.close()
    res.count("packet_programs_run")
    written = {t for t, _, _ in writes}
    if len(out) != len(pkt):
        res.violation("unexplained:packet-length", f"{len(pkt)} bytes in, "
                      f"{len(out)} bytes out", case=case)
        return
    for i, v in enumerate(vs):
        if i in written:
            continue
        res.count("unwritten_packet_variables_compared")
        if isinstance(v[2], list):
            res.count("unwritten_bit_fields_compared")
        if pv_read(out, v) != pv_read(pkt, v):
            tw = [(vs[t][0], vs[t][1], vs[t][2], how, hex(val))
                  for t, how, val in writes]
            res.violation(
                "unexplained:packet-variable-changed",
                f"packet variable {v[0]} (byte {v[1]}, {v[2]}) changed from "
                f"{pv_read(pkt, v)} to {pv_read(out, v)}; written were {tw}",
                case=case)
            return
    # bits that belong to no declared variable
    owned = bytearray(len(pkt))
    for name, pos, f in vs:
        if isinstance(f, list):
            owned[pos] |= ((1 << f[1]) - 1) << f[0]
        else:
            for k in range(struct.calcsize(f[-1])):
                owned[pos + k] = 0xff
    for k in range(len(pkt)):
        if (out[k] ^ pkt[k]) & ~owned[k] & 0xff:
            res.violation(
                "unexplained:undeclared-packet-bits-changed",
                f"byte {k}: {pkt[k]:#04x} -> {out[k]:#04x}, declared bits "
                f"{owned[k]:#04x}", case=case)
            return


def concurrent_write_leg(res, rng):
    """user space assigns an array-map variable while the loaded program
    (another thread hammering BPF_PROG_TEST_RUN) counts in a neighbouring
    variable of the same 8-byte word: none of the program's increments may
    get lost, the neighbours keep their values"""
    import threading
    f1, f2 = rng.choice(["B", "H"]), rng.choice(["B", "H", "I"])
    m = ArrayMap()
    ns = {"license": "GPL", "m": m, "cnt": m.globalVar("I"),
          "flag": m.globalVar(f1), "other": m.globalVar(f2),
          "wide": m.globalVar("Q")}

    def program(self):
        self.cnt += 1
        self.r0 = 2
        self.exit()
    ns["program"] = program
    N = 30000
    with kern.session() as sess:
        e = type("VfCW", (XDP,), ns)()
        ld = prog.Loaded(e, sess)
        try:
            ld.load()
        except OSError:
            res.count("concurrent_write_leg_not_loaded")
            return
        try:
            e.other = 7
            e.wide = 0x1122334455667788
            stop = []

            def runner():
                kern.test_run(ld.fd, bytes(64), repeat=N)
                stop.append(1)
            t = threading.Thread(target=runner)
            t.start()
            writes = 0
            while not stop:
                e.flag = writes & 0x7f
                writes += 1
            t.join()
            res.case(["concurrent-write", f1, f2, writes],
                     nontrivial=writes > 10)
            res.count("python_writes_during_program_runs", writes)
            res.count("program_runs_during_python_writes", N)
            if e.cnt != N or e.other != 7 or e.wide != 0x1122334455667788:
                res.violation(
                    "unexplained:python-write-disturbs-neighbour",
                    f"the program counted {N} times while Python assigned a "
                    f"neighbouring variable {writes} times: counter reads "
                    f"{e.cnt}, the other variables {e.other}, {e.wide:#x}",
                    case=dict(concurrent_write=True, fmts=[f1, f2]))
        finally:
            ld.close()


def many_hash_vars_leg(res, rng):
    """hash maps with many variables, around the 255 / 256 boundary of the
    one-byte key: if the library accepts the declaration and the program
    loads, every variable is a cell of its own - written from Python and by
    the program, no other variable changes"""
    from ebpfcat.hashmap import HashMap
    from ebpfcat.xdp import XDP
    from .. import kern, prog
    for nv in (rng.choice([200, 254, 255]), 256, 257, rng.choice([258, 300])):
        h = HashMap()
        ns = {"license": "GPL", "h": h}
        for i in range(1, nv + 1):
            ns[f"hv{i}"] = h.globalVar("I", 0)
        picks = sorted({1, 2, nv, nv - 1, max(1, nv - 255), max(1, nv - 256),
                        rng.randint(1, nv)})

        def program(self):
            # the program stores into the last variables only
            for i in (nv, nv - 1):
                self.r6 = 7000 + i
                setattr(self, f"hv{i}", self.r6)
            self.r0 = 2
            self.exit()
        ns["program"] = program
        desc = dict(many_hash_variables=nv)
        with kern.session() as sess:
            try:
                e = type("VfManyHash", (XDP,), ns)()
                ld = prog.Loaded(e, sess)
                ld.load()
            except Exception as ex:
                # refusing the declaration is no violation
                res.count("hash_maps_with_many_variables_refused")
                res.info.setdefault("many_variables_refused", []).append(
                    [nv, type(ex).__name__])
                continue
            try:
                res.case([desc], nontrivial=True)
                res.count("hash_maps_with_many_variables_loaded")
                why = None
                try:
                    for i in picks:
                        setattr(e, f"hv{i}", 100 + i)
                    got = {i: getattr(e, f"hv{i}") for i in picks}
                    bad = [i for i in picks if got[i] != 100 + i]
                    if bad:
                        why = (f"after Python wrote 100+i into variables "
                               f"{picks}, variable {bad[0]} reads "
                               f"{got[bad[0]]}")
                    else:
                        ld.run_k(bytes(64))
                        got = {i: getattr(e, f"hv{i}") for i in picks}
                        want = {i: 7000 + i if i in (nv, nv - 1) else 100 + i
                                for i in picks}
                        bad = [i for i in picks if got[i] != want[i]]
                        if bad:
                            why = (f"after the program stored into variables "
                                   f"{nv - 1} and {nv}, variable {bad[0]} "
                                   f"reads {got[bad[0]]}, expected "
                                   f"{want[bad[0]]}")
                except Exception as ex:
                    why = f"{type(ex).__name__}: {ex}"
                if why:
                    res.violation(
                        "unexplained:hash-variables-alias-beyond-255",
                        f"hash map with {nv} variables (accepted and "
                        f"loaded): {why}", case=desc)
            finally:
                ld.close()


def run_shard(params):
    res = Result()
    rng = random.Random(params["seed"] * 100151 + params["shard"])
    if params["shard"] < 4:
        concurrent_write_leg(res, rng)
    if params["shard"] in (4, 5):
        many_hash_vars_leg(res, rng)
    for i in range(params["n"]):
        check_case(gen_case(rng), res, use_v=True)
        if i % 4 == 0:
            check_packet_case(gen_packet_case(rng), res)
    return res


def finalize(res, tier, seed):
    c = res.counters
    if not c.get("v_runs"):
        res.inconc("reference machine leg never ran")
    if not c.get("unwritten_bit_fields_compared"):
        res.inconc("packet leg: no bit field compared")
    if c.get("status:ok", 0) < 0.3 * c.get("programs", 1):
        res.inconc("fewer than 30% of the generated programs load")


def replay(v):
    res = Result()
    if v["case"].get("packet"):
        check_packet_case(v["case"], res)
        return res
    if v["case"].get("concurrent_write"):
        concurrent_write_leg(res, random.Random(0))
        return res
    check_case(v["case"], res)
    return res
