"""C02 fixed-point arithmetic follows the per-100000 decimal semantics"""
import random
from decimal import Decimal
from fractions import Fraction

from .. import dsl, gen, kern, specrun
from ..core import Result
from . import c01

PROPERTY = "C02"
LEVEL = "exploration"
RULE = ("seeded random statements mixing fixed-point places (x registers, "
        "x map/stack variables) with integer places and decimal/int "
        "constants (<=5 fractional digits, drawn as strings incl. ones whose "
        "double lies below the decimal) over + - * / // %, int<->fixed "
        "stores; executed in the kernel and the reference machine; the "
        "oracle is Fraction arithmetic with set-valued floor/trunc dropping; "
        "strict = every raw value times 10^10 fits the width; second leg: "
        "Python-side writes/reads of x variables with the same decimals. "
        "non-trivial = at least one strict statement; distinct by hash")
ASSUMPTIONS = c01.ASSUMPTIONS
MIN_EVALUATIONS = {"quick": 1500, "thorough": 40000}

FIX_OPS = ["+", "-", "*", "/", "//", "%"]
DECIMALS = ["0.29", "1.1", "0.1", "0.5", "2.5", "3.5", "0.07", "0.57",
            "1.15", "4.35", "0.00001", "0.99999", "-3.00007", "-0.29",
            "12.34567", "100.001", "-1.5", "7", "1000.5", "0.3", "8.2",
            # decimal constants that are whole tens
            "10", "20", "100", "250", "1000", "-30"]


def plan(tier, seed):
    if tier == "quick":
        return [dict(seed=seed, shard=i, n=450) for i in range(16)]
    return [dict(seed=seed, shard=i, n=1500) for i in range(64)]


def rand_decimal(rng):
    if rng.random() < 0.5:
        return rng.choice(DECIMALS)
    digits = rng.randint(0, 5)
    v = rng.randint(-300000, 3000000)
    s = str(Decimal(v).scaleb(-digits))
    return s


def gen_tree(rng, places, depth):
    if depth <= 0 or rng.random() < 0.25:
        return ["p", rng.choice(places)]
    if rng.random() < 0.1:
        # unary minus / abs of a sub-tree (often of the destination itself)
        return [rng.choice(["neg", "abs"]), gen_tree(rng, places, depth - 1)]
    op = rng.choice(FIX_OPS)
    left = gen_tree(rng, places, depth - 1)
    r = rng.random()
    if r < 0.25:
        right = ["f", rand_decimal(rng)]
        if op in ("/", "//", "%") and Fraction(right[1]) == 0:
            right = ["f", "0.5"]
    elif r < 0.4:
        right = ["c", rng.choice([1, 2, 3, 5, 7, 10, 100, -2, -3, 1000])]
    else:
        right = gen_tree(rng, places, depth - 1)
    if right[0] in "cf" and rng.random() < 0.25:
        left, right = right, left
    return ["b", op, left, right]


def gen_case(rng):
    nreg = rng.randint(0, 3)
    regs = [[n, rng.choice(["x", "x", "sr", "r"])]
            for n in rng.sample(gen.FREE_REGS, nreg)]
    fm = ["x", "x", "x", "q", "Q", "q", "i", "I"]
    vars_ = [[f"a{i}", rng.choice(fm)] for i in range(rng.randint(2, 4))]
    locs = [[f"k{i}", rng.choice(fm)] for i in range(rng.randint(0, 2))]
    places = gen.places_of(regs, vars_, locs)
    stmts = []
    for _ in range(rng.choice([1, 1, 2, 3])):
        dest = rng.choice(places)
        d = rng.choice([1, 1, 2, 2, 3])
        t = gen_tree(rng, places, d)
        if t[0] == "p" and rng.random() < 0.6:
            t = ["f", rand_decimal(rng)]
        if rng.random() < 0.1:
            # the destination under a unary operator in the right operand
            t = ["b", rng.choice(["+", "-", "*"]),
                 rng.choice([["p", rng.choice(places)],
                             ["f", rand_decimal(rng)]]),
                 [rng.choice(["neg", "abs"]), ["p", dest]]]
        narrow = [p for p, (n, f) in zip(
            [f"v:{n}" for n, f in vars_] + [f"l:{n}" for n, f in locs],
            vars_ + locs) if f in ("i", "I")]
        if narrow and rng.random() < 0.1:
            # unary minus of a 32-bit integer inside a fixed-point
            # (64-bit) computation
            t = ["b", rng.choice(["*", "+", "-"]),
                 rng.choice([["f", rand_decimal(rng)]]
                            + [["p", p] for p in places if p[0] == "r"][:1]),
                 ["neg", ["p", rng.choice(narrow)]]]
        intregs = [p for p in places if p[0] == "r" and not dsl.Spec(dict(
            regs=regs, vars=vars_, locs=locs, stmts=[])).info(p)[2]]
        if intregs and rng.random() < 0.1:
            # a chain of literals on an integer register: first an integer,
            # then a decimal (reg + 3 + 0.5)
            t = ["b", rng.choice(["+", "-"]),
                 ["b", rng.choice(["+", "-"]), ["p", rng.choice(intregs)],
                  ["c", rng.choice([1, 2, 3, 10, 1000])]],
                 ["f", rng.choice(["0.5", "1.5", "0.25", "2.75",
                                   rand_decimal(rng)])]]
        if rng.random() < 0.12:
            # constants whose scaled value sits around the 32-bit immediate
            # boundaries (2^31 = 21474.83648, 2^32 = 42949.67296)
            t = rng.choice([["f", "21474.83647"], ["f", "21474.83648"],
                            ["f", "30000.5"], ["f", "42949.67295"],
                            ["f", "42949.67296"], ["f", "-21474.83648"],
                            ["f", "-21474.83649"], ["c", 21474],
                            ["c", 21475], ["c", 25000], ["c", 42949],
                            ["c", 42950], ["c", -21475]])
        stmts.append(["set", dest, t])
    # comparisons mixing fixed-point and integer operands (as they are)
    pivots = []
    fixed_places = [p for p in places
                    if dsl.Spec(dict(regs=regs, vars=vars_, locs=locs,
                                     stmts=[])).info(p)[2]]
    if fixed_places and rng.random() < 0.45:
        for _ in range(rng.choice([1, 1, 2])):
            lhs = rng.choice(fixed_places)
            r = rng.random()
            int_places = [p for p in places if p not in fixed_places]
            intleft = bool(int_places) and rng.random() < 0.3
            if intleft:
                # an integer on the left, fixed point on the right
                lhs = rng.choice(int_places)
                r = rng.choice([0.1, 0.9])
            if intleft and r >= 0.6:
                rhs = ["p", rng.choice(fixed_places)]
                pivot = None
            elif r < 0.4:
                s = rand_decimal(rng) if rng.random() < 0.5 else str(
                    Decimal(rng.randint(-3 * 10 ** 9, 3 * 10 ** 10))
                    .scaleb(-rng.randint(0, 5)))
                rhs = ["f", s]
                pivot = Fraction(s) * (1 if intleft else 100000)
            elif r < 0.6:
                v = rng.choice([0, 1, 10000, 21474, 21475, 42949, 42950,
                                -21475, rng.randint(-10 ** 6, 10 ** 6)])
                rhs = ["c", v]
                pivot = v * 100000
            else:
                rhs = ["p", rng.choice(places)]
                pivot = None
            if rng.random() < 0.15:
                cond = ["truth", ["p", lhs]]
                pivot = 0
            else:
                cond = ["cmp", rng.choice(["==", "!=", "<", "<=", ">",
                                           ">="]), ["p", lhs], rhs]
                if rng.random() < 0.3 and rhs[0] != "p":
                    cond[2], cond[3] = cond[3], cond[2]
            body = [["set", rng.choice(places),
                     ["f", rand_decimal(rng)]]]
            stmts.insert(rng.randint(0, len(stmts)),
                         ["if", cond, body,
                          [] if rng.random() < 0.5 else None])
            pivots.append((lhs, pivot))
    specd = dict(regs=regs, vars=vars_, locs=locs, stmts=stmts)
    spec = dsl.Spec(specd)
    inputs = []
    for _ in range(rng.randint(4, 6)):
        mode = rng.choice(["pos", "pos", "mixed"])
        v = {}
        for p in spec.places():
            size, signed, fixed = spec.info(p)
            if fixed:
                raw = rng.choice([rng.randint(0, 3000000),
                                  rng.randint(0, 500) * 1000,
                                  rng.randint(1, 900000000)])
            else:
                raw = rng.choice([rng.randint(0, 30), rng.randint(1, 9000)])
            if mode == "mixed" and signed and rng.random() < 0.4:
                raw = -raw
            v[p] = raw & ((1 << (8 * size)) - 1)
        # put the compared fixed places around their pivots, at any
        # magnitude the 64 bit representation holds
        for lhs, pivot in pivots:
            if rng.random() < 0.7:
                size = spec.info(lhs)[0]
                if pivot is None:
                    raw = rng.choice([rng.randint(-2 ** 40, 2 ** 40),
                                      rng.randint(0, 2 ** 33)])
                else:
                    raw = int(pivot) + rng.choice([0, 0, 1, -1, 100000,
                                                   -100000, 2 ** 32,
                                                   -2 ** 32,
                                                   rng.randint(-10 ** 7,
                                                               10 ** 7)])
                v[lhs] = raw & ((1 << (8 * size)) - 1)
        inputs.append(v)
    return dict(spec=specd, inputs=inputs)


def const_truncated(s):
    """does int(float(s) * 100000) differ from the exact decimal?"""
    return int(float(s) * 100000) != Fraction(s) * 100000


def triggers(spec, stmt, store):
    dest, tree = c01.stmt_tree(stmt)
    ref = dsl.Ref(spec, True)
    ref.W = ref.width_of([tree], dest)
    found = []

    def node(t):
        try:
            return ref.ev(t, store)
        except dsl.Unchecked:
            return None

    def neg(t):
        n = node(t)
        return n is not None and any(v < 0 for v in n.vals)

    def fixed(t):
        n = node(t)
        return n is not None and n.fixed

    def walk(t):
        if t[0] == "b":
            op, L, R = t[1], t[2], t[3]
            divides = op in ("/", "//", "%") or (
                op == "*" and fixed(L) and fixed(R))
            if divides and (neg(L) or neg(R) or neg(t)):
                found.append("signed-div-mod-negative-operand")
            walk(L)
            walk(R)
        elif t[0] in ("neg", "abs"):
            walk(t[1])
    walk(tree)
    n = node(tree)
    dfixed = spec.info(dest)[2]
    if n is not None and n.fixed and not dfixed and \
            any(v < 0 for v in n.vals):
        found.append("signed-div-mod-negative-operand")
    return found


def check_case(case, res, use_v=True):
    specd = case["spec"]
    spec = dsl.Spec(specd)
    with kern.session() as sess:
        cr = specrun.CaseRun(specd, sess)
        try:
            res.count("programs")
            res.count("status:" + cr.status)
            if cr.status != "ok":
                if cr.status != "assemble_error":
                    res.sample(dict(status=cr.status, error=cr.error[-300:],
                                    spec=specd), limit=2)
                return
            for inputs in case["inputs"]:
                ref = dsl.run_ref(specd, inputs, scale_guard=True)
                nstrict = 0
                for path, (dest, vals, nbits) in ref["stmt"].items():
                    if nbits == 8 * spec.info(dest)[0]:
                        nstrict += 1
                        s = c01.stmt_by_path(spec, path)
                        for op in set(c01._ops(s[2])) or {"store"}:
                            res.count(f"strict[{op}/"
                                      f"{'x' if spec.info(dest)[2] else 'int'}"
                                      "]")
                    else:
                        res.count("stmt_unchecked")
                res.count("stmt_strict", nstrict)
                for path, mk in ref["markers"].items():
                    if mk.get("A") is None:
                        res.count("cond_unchecked")
                        continue
                    if mk["T"] or mk["E"]:
                        s = c01.stmt_by_path(spec, path)
                        big = any(abs(dsl.interp(inputs[p], *spec.info(p)[:2]))
                                  >= 1 << 31 for p in spec.places()
                                  if spec.info(p)[2] and
                                  any(t == ["p", p] for t in s[1][1:]))
                        res.count(f"cond_checked[{s[1][0]}/"
                                  f"{'big' if big else 'small'}/"
                                  f"{'T' if mk['T'] else 'F'}]")
                        nstrict += 1
                res.case([specd, inputs], nontrivial=nstrict > 0)
                obs_k, obs_v, fault = cr.run(inputs, use_v=use_v)
                if use_v:
                    res.count("v_runs")
                    if fault:
                        res.inconc(f"V faulted where K ran: {fault} "
                                   f"spec={specd} inputs={inputs}")
                    elif obs_v != obs_k:
                        res.inconc(f"K/V disagree spec={specd} "
                                   f"inputs={inputs}")
                bad = specrun.compare(spec, ref, obs_k)
                if bad:
                    key, first = attribute(spec, ref, bad)
                    res.violation(key, f"{first}",
                                  case=dict(spec=specd, inputs=[inputs]),
                                  witness=dict(mismatches=bad[:4],
                                               disasm=cr.disasm()[:100]))
                if len(res.samples) < 3 and nstrict:
                    res.sample(dict(spec=specd, inputs=inputs,
                                    observed_final=obs_k["final"]))
        finally:
            cr.close()


def attribute(spec, ref, bad):
    stm = [b for b in bad if b["kind"] == "stmt"]
    if stm:
        order = {p: i for i, (p, _) in enumerate(c01.all_stmts(spec.stmts))}
        first = min(stm, key=lambda b: order[tuple(b["path"])])
        path = tuple(first["path"])
        s = c01.stmt_by_path(spec, path)
        tr = triggers(spec, s, ref["stores"][path])
        for k in ("signed-div-mod-negative-operand",):
            if k in tr:
                return k, first
        tr1 = c01.triggers(spec, s, ref["stores"][path])
        if tr1:
            return tr1[0], first
        ops = sorted(set(c01._ops(s[2])))
        return "unexplained:stmt ops=" + ",".join(ops), first
    return "unexplained:" + bad[0]["kind"], bad[0]


def python_side(rng, res, n):
    """decimals written/read from Python into x variables of a loaded map"""
    from ebpfcat.arraymap import ArrayMap
    from ebpfcat.ebpf import EBPF
    from ebpfcat.bpf import ProgType

    class P(EBPF):
        license = "GPL"
        m = ArrayMap()
        xa = m.globalVar("x")
        xb = m.globalVar("x")

    with kern.session():
        e = P(ProgType.XDP, "GPL")
        e.xb = e.xa
        e.r0 = 2
        e.exit()
        e.load()
        for _ in range(n):
            s = rand_decimal(rng)
            exact = Fraction(s) * 100000
            e.xa = float(s)
            raw = int.from_bytes(e.__dict__["m"][e.__dict__["xa"]:
                                                 e.__dict__["xa"] + 8],
                                 "little", signed=True)
            res.case(["py-write", s])
            res.count("python_writes")
            if raw != exact:
                res.violation("python-side-decimal-truncated",
                              f"e.x = {s} stored raw {raw}, exact {exact}",
                              case=dict(decimal=s))
            # read back what is stored, whatever it is
            back = e.xa
            if round(back * 100000) != raw:
                res.violation("python-side-read-wrong",
                              f"raw {raw} read back as {back}",
                              case=dict(decimal=s))
            res.count("python_reads")


def run_shard(params):
    res = Result()
    rng = random.Random(params["seed"] * 100043 + params["shard"])
    for i in range(params["n"]):
        check_case(gen_case(rng), res, use_v=(i % 3 == 0))
    python_side(rng, res, 40)
    return res


def finalize(res, tier, seed):
    c = res.counters
    missing = [f"{op}/{d}" for op in FIX_OPS for d in ("x", "int")
               if not c.get(f"strict[{op}/{d}]")]
    res.info["strata_without_strict_case"] = missing
    tot = c.get("stmt_strict", 0) + c.get("stmt_unchecked", 0)
    res.info["strict_fraction"] = round(c.get("stmt_strict", 0)
                                        / max(tot, 1), 3)
    if missing:
        res.inconc(f"strata without a strict case: {missing}")
    for k in ("cond_checked[cmp/big/T]", "cond_checked[cmp/big/F]",
              "cond_checked[cmp/small/T]", "cond_checked[cmp/small/F]",
              "cond_checked[truth/small/T]"):
        if not c.get(k):
            res.inconc(f"no fixed-point comparison observed in stratum {k}")


def replay(v):
    res = Result()
    if "spec" in v["case"]:
        check_case(v["case"], res)
    return res
