"""C22 the dispatcher keeps fast groups running under loss and injection
(also hosts the shared runner used by C21)"""
import random
import struct

from .. import dispatch, ebpfvm, kern, use_repo
from ..core import Result
use_repo()

PROPERTY = "C22"
LEVEL = "model_checking"
RULE = ("breadth-first exploration of the state (low byte of the group's "
        "loop counter, multiset of <= 3 in-flight frames each with its "
        "index byte, writer commands and counter classes, output-enabled "
        "flag, run of consecutive passes without the group program) under "
        "deliveries in any order, losses and fresh injections, to depth 11 "
        "(quick) / 16 (thorough) from several start counters with at most "
        "three frames in flight, and from EVERY value of the counter byte "
        "with at most two frames in flight, for group "
        "layouts with 0-3 writer datagrams (direct and FMMU) and for a group "
        "that is registered / not registered / has an index >= MAX_PROGS; "
        "plus random foreign frames. Every transition executes the real "
        "dispatcher bytecode (and through the tail call the real group "
        "program) in the reference machine; every 50th transition is "
        "replayed in the kernel with a real PROG_ARRAY and must agree")
ASSUMPTIONS = ["the per-group loop counter matters only through its low "
               "byte (the only part the dispatcher reads)",
               "frames of an unregistered group are not re-injected while "
               "they circulate (weaker reading, see DESIGN)",
               "two readings of 'frames pass without running the program' "
               "are monitored: frames sent back to the bus (bound 2 in every "
               "history) and every frame the dispatcher handles (bound 2 "
               "with at most two frames in flight; with three in flight the "
               "pinned code reaches 3, a recorded finding, and 4 would be a "
               "violation)"]
MIN_EVALUATIONS = {"quick": 1, "thorough": 1}
LAYOUTS = ["r", "w", "rw", "f", "wf", "ww", "wwf", "rf"]


def plan(tier, seed):
    depth = 11 if tier == "quick" else 16
    shards = []
    for i, lay in enumerate(LAYOUTS):
        for reg in ("registered", "unregistered", "bigindex"):
            if reg != "registered" and lay not in ("w", "wf"):
                continue
            shards.append(dict(seed=seed, layout=lay, reg=reg, depth=depth,
                               tier=tier))
    # at most two frames in flight, from every value of the counter byte
    for lay in (["w", "r", "wf"] if tier == "quick" else LAYOUTS):
        for part in range(4):
            shards.append(dict(seed=seed, layout=lay, reg="registered",
                               depth=11 if tier == "quick" else 14,
                               tier=tier, maxinflight=2,
                               starts=list(range(part, 256, 4))))
    shards.append(dict(seed=seed, foreign=True, tier=tier))
    return shards


def run_world(params, res, monitor):
    rng = random.Random(params["seed"] * 7 + hash(params["layout"]) % 1000)
    with kern.session() as sess:
        reg = params["reg"]
        w = dispatch.World(sess, params["layout"],
                           registered=(reg == "registered"),
                           index=70 if reg == "bigindex" else 5)
        try:
            starts = [0, 1, 2, 254, 255, rng.randrange(256)]
            if params["tier"] == "quick":
                starts = starts[:4]
            starts = params.get("starts") or starts
            kstat = dict(n=0, bad=0)

            def on_step(rec):
                res.count("transitions")
                res.case([params["layout"], params["reg"],
                          params.get("maxinflight", 3), rec["state"],
                          rec["frame"]], nontrivial=bool(rec["state"][1]))
                res.count("action[" + str(rec["action"]) + "]")
                if rec["ran"]:
                    res.count("group_program_ran")
                if "k_agrees" in rec:
                    kstat["n"] += 1
                    if not rec["k_agrees"]:
                        kstat["bad"] += 1
                        res.inconc(f"K/V disagree: {rec['state']} "
                                   f"{rec['frame']} K={rec.get('k_result')}")
                if len(res.samples) < 3 and rec["ran"] and rec["frame"][0]:
                    res.sample(dict(layout=params["layout"],
                                    reg=params["reg"], state=rec["state"],
                                    delivered=rec["frame"],
                                    action=rec["action"],
                                    group_program_ran=rec["ran"],
                                    frame_after=rec["out"],
                                    counter=(rec["c_before"],
                                             rec["c_after"])))
                monitor(w, rec, res, params)
            nstates, ntrans = dispatch.explore(
                w, starts, params["depth"], res, on_step,
                maxinflight=params.get("maxinflight", 3))
            res.count(f"states[<={params.get('maxinflight', 3)} in flight]",
                      nstates)
            res.count("states", nstates)
            res.count("k_replays", kstat["n"])
            res.info["states"] = nstates
            res.info["transitions"] = ntrans
            res.info["traces_validated_against_impl"] = kstat["n"]
        finally:
            w.close()


def monitor22(w, rec, res, params):
    desc = dict(layout=params["layout"], reg=params["reg"],
                state=rec["state"], frame=rec["frame"])
    if rec["action"] not in (dispatch.TX, dispatch.PASS):
        res.violation("unexplained:dropped-frame",
                      f"dispatcher returned action {rec['action']}",
                      case=desc)
        return
    out = rec["out_frame"]
    if rec["action"] == dispatch.PASS:
        et, = struct.unpack_from("!H", out, 12)
        if et != dispatch.USER_ETHERTYPE:
            res.violation("unexplained:pass-ethertype",
                          f"frame passed to user space with ethertype "
                          f"{et:#x}, identification datagram says "
                          f"{dispatch.USER_ETHERTYPE:#x}", case=desc)
    if params["reg"] == "registered":
        run = 0 if rec["ran"] else rec["run_before"] + (
            1 if rec["action"] == dispatch.TX else 0)
        if run >= 3:
            res.violation("unexplained:three-frames-without-program",
                          "three consecutive frames were sent back to the "
                          "bus without running the group's program",
                          case=desc,
                          witness=dispatch.path_to(w, rec["state"]))
        # literal reading: every frame the dispatcher handles counts
        srun = 0 if rec["ran"] else rec["srun_before"] + 1
        res.count(f"longest_run_seen[{min(srun, 4)}]")
        if srun >= 3:
            two = params.get("maxinflight", 3) == 2
            if two or srun >= 4:
                res.violation(
                    "unexplained:three-frames-pass-without-program"
                    if two else
                    "unexplained:four-frames-pass-without-program",
                    f"{srun} consecutive frames of the group passed the "
                    f"dispatcher without running the group's program (at "
                    f"most {params.get('maxinflight', 3)} frames in "
                    f"flight): last action "
                    f"{'TX' if rec['action'] == dispatch.TX else 'PASS'} "
                    f"of frame index {rec['frame'][0]} at counter "
                    f"{rec['c_before']}", case=desc,
                    witness=dispatch.path_to(w, rec["state"]))
            else:
                res.violation(
                    "three-passes-without-program-when-frames-overtake",
                    "three consecutive frames passed the dispatcher "
                    "without running the group's program in a history "
                    "with three frames in flight delivered out of order",
                    case=desc, witness=dispatch.path_to(w, rec["state"]))
    else:
        if rec["ran"]:
            res.violation("unexplained:program-ran-unregistered",
                          "a group program ran for an unregistered group",
                          case=desc)
        # bounded progress: without further injections the frame reaches
        # user space within a few passes
        if rec["action"] == dispatch.TX:
            frame = rec["out_frame"]
            for k in range(4):
                ret, frame2, ran = w.step_v(frame)
                res.count("unregistered_chain_steps")
                if ret == dispatch.PASS:
                    break
                frame = frame2
            else:
                res.violation("unexplained:unregistered-frame-circulates",
                              "frame of an unregistered group was sent back "
                              "to the bus 5 times in a row", case=desc)


def foreign_leg(params, res):
    rng = random.Random(params["seed"] * 11 + 3)
    with kern.session() as sess:
        w = dispatch.World(sess, "w", registered=True)
        try:
            n = 400 if params["tier"] == "quick" else 5000
            for i in range(n):
                kind = rng.choice(["ethertype", "cmd0", "short", "garbage"])
                ln = rng.randint(14, 120)
                f = bytearray(rng.getrandbits(8) for _ in range(ln))
                if kind == "ethertype":
                    et = rng.choice([0x0800, 0x0806, 0x86dd, 0x88a5, 0x4567,
                                     rng.getrandbits(16)])
                    if et == 0x88a4:
                        et = 0x88a5
                    f = bytearray(w.frame((0, (False,), ("ok",))))
                    struct.pack_into("!H", f, 12, et)
                elif kind == "cmd0":
                    f = bytearray(w.frame((rng.getrandbits(8), (False,),
                                           ("ok",))))
                    f[16] = rng.randint(1, 14)
                elif kind == "short":
                    f = bytearray(w.frame((0, (False,), ("ok",))))[
                        :rng.randint(14, 30)]
                else:
                    if ln > 13 and f[12:14] == b"\x88\xa4":
                        f[12] = 0x08
                w.set_state(rng.getrandbits(8), 5)
                c0 = w.get_state()
                ret, out, ran = w.step_v(bytes(f))
                res.case(["foreign", kind, bytes(f).hex()[:60]])
                res.count("foreign[" + kind + "]")
                if ret != dispatch.PASS or out != bytes(f) or ran or \
                        w.get_state() != c0:
                    res.violation(
                        "unexplained:foreign-frame",
                        f"{kind} frame of {len(f)} bytes: action {ret}, "
                        f"unchanged={out == bytes(f)}, program ran={ran}, "
                        f"state {c0} -> {w.get_state()}",
                        case=dict(kind=kind, frame=bytes(f).hex()))
                if i % 40 == 0:
                    rk, ok = w.step_k(bytes(f))
                    res.count("k_replays")
                    if (rk, ok) != (ret, out):
                        res.inconc(f"K/V disagree on foreign frame {kind}")
        finally:
            w.close()


def run_shard(params):
    res = Result()
    if params.get("foreign"):
        foreign_leg(params, res)
    else:
        run_world(params, res, monitor22)
    return res


def finalize(res, tier, seed):
    c = res.counters
    res.info["states"] = c.get("states", 0)
    res.info["transitions"] = c.get("transitions", 0)
    res.info["traces_validated_against_impl"] = c.get("k_replays", 0)
    if not c.get("transitions"):
        res.inconc("no transition was executed")
    if not c.get("group_program_ran"):
        res.inconc("the group program never ran")
    for k in ("foreign[ethertype]", "foreign[cmd0]", "foreign[short]"):
        if not c.get(k):
            res.inconc(f"{k} never tried")
    if not c.get("unregistered_chain_steps"):
        res.inconc("unregistered group never circulated a frame")


def replay(v):
    return Result()
