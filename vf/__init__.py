"""Runtime-monitoring machinery for tecki/ebpfcat (see /verif/DESIGN.md)."""
import os
import sys

VERIF_ROOT = os.path.dirname(os.path.dirname(os.path.abspath(__file__)))
REPO = os.environ.get("EBPFCAT_REPO", "/repo")


def use_repo():
    """make `import ebpfcat` resolve to the working tree under test"""
    if sys.path[0] != REPO:
        sys.path.insert(0, REPO)
    deps = os.path.join(VERIF_ROOT, ".deps")
    if os.path.isdir(deps) and deps not in sys.path:
        sys.path.append(deps)
