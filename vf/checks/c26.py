"""C26 the fast Motor device commands exactly its limited control law"""
import itertools
import random
import struct

from .. import ecat, ebpfvm, fastrig, kern, use_repo
from ..core import Result
use_repo()

from ebpfcat import devices as D  # noqa: E402
from ebpfcat.ebpfcat import SyncManager  # noqa: E402

PROPERTY = "C26"
LEVEL = "exploration"
RULE = ("the real Motor.program inside a real FastSyncGroup over a motor "
        "terminal (16-bit velocity output, 32-bit encoder, two switch bits, "
        "enable bit; own declarations and the bundled EL7041 with the layout "
        "its PDO assignment yields; in some shards the Motor object first ran "
        "alone in an earlier group and was regrouped behind another "
        "terminal), loaded into the kernel and executed with "
        "BPF_PROG_TEST_RUN (reference machine on a sample); inputs: cross "
        "product of boundary classes per input (0, +-1, the limits, limits "
        "+-1, 16/32-bit extremes) x switch states x enable, seeded random "
        "vectors inside the statement's preconditions (velocity limit within "
        "the output range, previous velocity within the limit, desired "
        "velocity within 64 bits) and vectors solved to sit on each clamp "
        "edge; the velocity and enable bytes of the output frame are "
        "compared with the limited control law computed over Python "
        "integers. a case = one input vector; non-trivial = at least one "
        "clamp or switch is active")
ASSUMPTIONS = ["operands are read by their declared formats: DeviceVars are "
               "unsigned 32-bit, the encoder signed 32-bit, the velocity "
               "signed 16-bit",
               "the statement quantifies over all bit-vectors; only the "
               "executed vectors are decided"]
MIN_EVALUATIONS = {"quick": 20000, "thorough": 1000000}


def plan(tier, seed):
    n = 15000 if tier == "quick" else 200000
    # shards 2, 3 and the upper half drive the bundled motor terminal
    # (EL7041 with its own process-data declarations)
    return [dict(seed=seed, shard=i, n=n, cross=(i < 4), part=i,
                 bundled=(i in (2, 3) or i >= 10),
                 regrouped=(i in (1, 3, 7, 8, 12, 13)),
                 counter_first=(i in (0, 2, 6, 9, 12, 15)),
                 outage={4: 255, 5: 65535, 10: 65536, 11: 70000,
                         14: 131071}.get(i))
            for i in range(16)]


def devices_fn(ec):
    t, v = ecat.make_terminal(
        ec, 3, [("bit",), ("bit",), ("pad", 6), ("i",)],
        [("bit",), ("pad", 7), ("h",)], use_fmmu=False)
    m = D.Motor()
    m.velocity = v[SyncManager.OUT, 2]
    m.encoder = v[SyncManager.IN, 3]
    m.low_switch = v[SyncManager.IN, 0]
    m.high_switch = v[SyncManager.IN, 1]
    m.enable = v[SyncManager.OUT, 0]
    return [m], [t]


# layout: (low byte, low bit), (high byte, high bit), position offset,
# (enable byte, enable bit), velocity offset; relative to the regions
OWN_LAYOUT = ((0, 0), (0, 1), 1, (0, 0), 1)
EL7041_LAYOUT = ((5, 4), (5, 3), 0, (0, 0), 2)


def devices_bundled(ec):
    """the bundled EL7041 with the process-data layout its PDO assignment
    (0x1601, 0x1602 / 0x1A01, 0x1A03) yields when read from the terminal;
    sizes read from the terminal are always unsigned"""
    from ebpfcat.terminals import EL7041
    t = EL7041(ec)
    t.position = 3
    t.name = "EL7041"
    t.use_fmmu = False
    t.pdos = {}
    for bit in range(16):
        t.pdos[0x7010, bit + 1] = (SyncManager.OUT, bit // 8, bit % 8)
        t.pdos[0x6010, bit + 1] = (SyncManager.IN, 4 + bit // 8, bit % 8)
    t.pdos[0x7010, 0x21] = (SyncManager.OUT, 2, "H")
    t.pdos[0x6000, 0x11] = (SyncManager.IN, 0, "I")
    t.pdo_out_sz, t.pdo_out_off = 4, 0x1000
    t.pdo_in_sz, t.pdo_in_off = 6, 0x1100
    t.fmmu_used = [None] * 4
    m = D.Motor()
    m.velocity = t.velocity
    m.encoder = t.stepcounter
    m.low_switch = t.low_switch
    m.high_switch = t.high_switch
    m.enable = t.enable
    return [m], [t]


def regrouped(inner):
    """the same Motor object ran alone in an earlier fast group (program
    generated for that frame layout) and is then put into a new group with
    an input terminal in front of the motor terminal on the bus"""
    def fn(ec):
        from ebpfcat.ebpfcat import FastSyncGroup
        devs, terms = inner(ec)
        sg0 = FastSyncGroup(ec, devs)
        sg0.allocate()
        sg0.assemble()
        t0, v0 = ecat.make_terminal(ec, 1, [("H",), ("I",)], [],
                                    use_fmmu=False)
        a = D.AnalogInput(v0[SyncManager.IN, 0])
        return devs + [a], terms + [t0]
    return fn


def with_counter(inner):
    """a Counter device listed before the Motor in the same fast group (all
    devices of a group are compiled into one program)"""
    def fn(ec):
        devs, terms = inner(ec)
        return [D.Counter()] + devs, terms
    return fn


def law(target, pos, gain, acc, vmax, prev, low, high):
    """returns (velocity, intermediate after the acceleration clamp)"""
    desired = gain * (target - pos)
    v = desired
    if v > prev + acc:
        v = prev + acc
    if v < prev - acc:
        v = prev - acc
    mid = v
    if v > vmax:
        v = vmax
    if v < -vmax:
        v = -vmax
    if low and v < 0:
        v = 0
    if high and v > 0:
        v = 0
    return v, mid, desired


def gen_vector(rng):
    vmax = rng.choice([0, 1, 100, 1000, 32767, rng.randint(0, 32767)])
    prev = rng.choice([0, vmax, -vmax, rng.randint(-vmax, vmax)])
    acc = rng.choice([0, 1, 10, 1000, 65535, 0x7fffffff, 0xffffffff,
                      rng.randint(0, 2000), rng.getrandbits(32)])
    gain = rng.choice([0, 1, 2, 10, 1000, 0xffffffff, rng.randint(0, 50),
                       rng.getrandbits(32)])
    pos = rng.choice([0, 1, -1, 0x7fffffff, -0x80000000,
                      rng.randint(-10 ** 6, 10 ** 6),
                      rng.randint(-2 ** 31, 2 ** 31 - 1)])
    style = rng.random()
    if style < 0.5 and gain:
        # solve the target so that the desired velocity is near an edge
        edge = rng.choice([prev + acc, prev - acc, vmax, -vmax, 0])
        d = edge // gain + rng.choice([-1, 0, 1])
        target = pos + d
    else:
        target = rng.choice([0, 1, 0xffffffff, rng.getrandbits(32),
                             (pos + rng.randint(-1000, 1000))])
    target &= 0xffffffff
    return dict(target=target, pos=pos, gain=gain, acc=acc, vmax=vmax,
                prev=prev, low=rng.random() < 0.3, high=rng.random() < 0.3,
                enable=rng.choice([0, 1, 1, 0x100, 0xffffffff]))


def cross_vectors(part):
    vmaxs = [0, 1, 1000, 32767]
    gains = [0, 1, 3, 0xffffffff]
    accs = [0, 1, 500, 70000, 0xffffffff]
    poss = [0, -1, 1000, 0x7fffffff, -0x80000000]
    dts = [0, 1, -1, 400, -400, 33000, -33000]
    k = 0
    for vmax, gain, acc, pos, dt in itertools.product(vmaxs, gains, accs,
                                                      poss, dts):
        for prev in {0, vmax, -vmax}:
            for low, high in ((0, 0), (1, 0), (0, 1), (1, 1)):
                k += 1
                if k % 4 != part:
                    continue
                yield dict(target=(pos + dt) & 0xffffffff, pos=pos,
                           gain=gain, acc=acc, vmax=vmax, prev=prev,
                           low=bool(low), high=bool(high), enable=1)


def run_shard(params):
    res = Result()
    rng = random.Random(params["seed"] * 100363 + params["shard"])
    with kern.session() as sess:
        bundled = params.get("bundled")
        dfn = devices_bundled if bundled else devices_fn
        if params.get("regrouped"):
            dfn = regrouped(dfn)
            res.count("regrouped_motor_shards")
        if params.get("counter_first"):
            dfn = with_counter(dfn)
            res.count("shards_with_a_counter_before_the_motor")
        rig = fastrig.FastRig(sess, dfn)
        (lB, lb), (hB, hb), poff, (eB, eb), voff = \
            EL7041_LAYOUT if bundled else OWN_LAYOUT
        res.count("bundled_terminal_shards" if bundled
                  else "own_terminal_shards")
        try:
            m = [d for d in rig.devs if isinstance(d, D.Motor)][0]
            cnt = [d for d in rig.devs if isinstance(d, D.Counter)]
            t = rig.terms[0]
            ri = rig.region(t, SyncManager.IN)
            ro = rig.region(t, SyncManager.OUT)
            base = bytearray(rig.frame())
            if params.get("outage"):
                # a long outage first: so many frames come back with a wrong
                # working counter in the write datagrams (the terminal was
                # unplugged, say); afterwards the law holds as before
                bad = bytearray(base)
                for start, stop, cmd in rig.sg.packet.on_the_fly:
                    w_, = struct.unpack_from("<H", bad, 14 + stop - 2)
                    struct.pack_into("<H", bad, 14 + stop - 2,
                                     (w_ + 1) & 0xffff)
                n_out = params["outage"]
                before = rig.sg.wkc_errors
                kern.test_run(rig.ld.fd, bytes(bad), repeat=n_out)
                res.count("frames_with_wrong_counters_before_the_vectors",
                          n_out)
                res.info.setdefault("error_counter_after_outages", []).append(
                    [n_out, before, rig.sg.wkc_errors])
            if params["cross"]:
                vectors = itertools.chain(
                    cross_vectors(params["part"]),
                    (gen_vector(rng) for _ in range(params["n"] // 4)))
            else:
                vectors = (gen_vector(rng) for _ in range(params["n"]))
            nv = 0
            for vec in vectors:
                v, mid, desired = law(vec["target"], vec["pos"], vec["gain"],
                                      vec["acc"], vec["vmax"], vec["prev"],
                                      vec["low"], vec["high"])
                if not -(1 << 63) <= desired < (1 << 63):
                    res.count("outside_precondition")
                    continue
                m.target = vec["target"]
                m.proportional = vec["gain"]
                m.max_acceleration = vec["acc"]
                m.max_velocity = vec["vmax"]
                m.set_enable = vec["enable"]
                if cnt and nv % 97 == 0:
                    cnt[0].lasttime = 0       # statistics restarted
                f = bytearray(base)
                f[ri + lB] = 0
                f[ri + hB] = 0
                if vec["low"]:
                    f[ri + lB] |= 1 << lb
                if vec["high"]:
                    f[ri + hB] |= 1 << hb
                struct.pack_into("<i", f, ri + poff, vec["pos"])
                f[ro + eB] = 0
                struct.pack_into("<h", f, ro + voff, vec["prev"])
                if nv % 7 == 3:
                    # the frame comes back with a wrong working counter in
                    # its write datagrams (a terminal missed it): the law
                    # does not depend on that
                    for start, stop, cmd in rig.sg.packet.on_the_fly:
                        w_, = struct.unpack_from("<H", f, 14 + stop - 2)
                        struct.pack_into("<H", f, 14 + stop - 2,
                                         (w_ + 1) & 0xffff)
                    res.count("vectors_on_a_frame_with_a_wrong_counter")
                ret, out, _ = rig.run_k(bytes(f))
                nv += 1
                clamp = (mid != desired or v != mid)
                res.case(vec, nontrivial=clamp)
                if mid != desired:
                    res.count("acceleration_clamp_active")
                if abs(mid) > vec["vmax"]:
                    res.count("velocity_clamp_active")
                if (vec["low"] and mid < 0) or (vec["high"] and mid > 0):
                    res.count("switch_blocks")
                got, = struct.unpack_from("<h", out, ro + voff)
                en = (out[ro + eB] >> eb) & 1
                if ret != 3 or len(out) != len(f):
                    res.violation("unexplained:action",
                                  f"returned {ret}, {len(out)} bytes",
                                  case=vec)
                    break
                if en != (1 if vec["enable"] else 0):
                    res.violation("unexplained:enable",
                                  f"enable bit {en} for set_enable "
                                  f"{vec['enable']}", case=vec)
                if got != v:
                    fits16 = -32768 <= mid <= 32767
                    key = "unexplained:law" if fits16 else \
                        "velocity-truncated-to-16-bits-before-the-limit"
                    res.violation(
                        key, f"commanded {got}, law gives {v} (desired "
                        f"{desired}, after acceleration limit {mid}) for "
                        f"{vec}", case=vec)
                elif len(res.samples) < 3 and clamp:
                    res.sample(dict(vec, commanded=got, desired=str(desired)))
                # derived consequences
                if abs(got) > vec["vmax"]:
                    res.count("consequence_violations")
                if nv % 5000 == 0 and nv < 20000:
                    # reference machine agreement sample
                    try:
                        retv, outv, vm = rig.ld.run_v(bytes(f))
                        res.count("v_runs")
                        if (retv, outv) != (ret, out):
                            res.inconc(f"K/V disagree on {vec}")
                    except ebpfvm.VMFault as ex:
                        res.inconc(f"V fault: {ex}")
        finally:
            rig.close()
    return res


def finalize(res, tier, seed):
    c = res.counters
    for k in ("acceleration_clamp_active", "velocity_clamp_active",
              "switch_blocks", "bundled_terminal_shards",
              "regrouped_motor_shards",
              "shards_with_a_counter_before_the_motor",
              "own_terminal_shards"):
        if not c.get(k):
            res.inconc(f"{k}: never exercised")


def replay(v):
    return Result()
