#!/bin/sh
# offline setup: third-party monitors go beside the repository's interpreter
cd "$(dirname "$0")" || exit 1
if [ ! -d .deps/icontract ]; then
  /venv/bin/pip install -q --no-index --find-links /opt/veriftools/wheels \
     --target .deps icontract 2>&1 | tail -2
fi
/venv/bin/python -c "import sys; sys.path.append('.deps'); import icontract" || exit 1
mkdir -p evidence out/replay
echo setup ok
