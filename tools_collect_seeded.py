"""copy confirmed seeded changes from the sub-agents' scratch area into
/verif/seeded/<Cnn>-<V>/ (patch.diff, demo.py, meta.json)

usage: tools_collect_seeded.py <results.jsonl> [<first-round results.jsonl>]
A change is kept only if tools_seeded.py confirmed: the patch applies to the
current /repo HEAD, the 44 baseline tests still pass with it, the
demonstration passes without and fails with the change.
"""
import json
import os
import shutil
import subprocess
import sys

ROOT = os.path.dirname(os.path.abspath(__file__))


def load(path):
    out = {}
    for l in open(path):
        l = l.strip()
        if not l or l == "done":
            continue
        r = json.loads(l)
        out.setdefault(r["dir"], []).append(r)
    return out


def main():
    res = load(sys.argv[1])
    first = load(sys.argv[2]) if len(sys.argv) > 2 else {}
    head = subprocess.run(["git", "-C", "/repo", "rev-parse", "--short",
                           "HEAD"], capture_output=True,
                          text=True).stdout.strip()
    kept = 0
    for d, rs in sorted(res.items()):
        r = rs[-1]
        confirmed = (not r.get("error") and r.get("suite_missing") == []
                     and r.get("demo_unchanged_rc") == 0
                     and r.get("demo_patched_rc") not in (0, None))
        if not confirmed:
            print("not kept:", d, r.get("error", "")[:100],
                  r.get("suite_missing"), r.get("demo_unchanged_rc"),
                  r.get("demo_patched_rc"))
            continue
        parts = d.rstrip("/").split("/")
        name = f"{parts[-3]}-{parts[-1]}"
        dst = os.path.join(ROOT, "seeded", name)
        os.makedirs(dst, exist_ok=True)
        shutil.copy(os.path.join(d, "patch.diff"), dst)
        for f in os.listdir(d):
            if f.startswith("demo") and f.endswith(".py"):
                shutil.copy(os.path.join(d, f), dst)
        meta = json.load(open(os.path.join(d, "meta.json")))
        ported = os.path.exists(os.path.join(d, "patch.orig.diff"))
        missed_first = any(not x.get("caught") and not x.get("error")
                           for x in first.get(d, [])[:1])
        meta["verified"] = dict(
            against_repo_head=head,
            patch_ported_to_repaired_tree=ported,
            suite="the 44 baseline tests still pass with the change "
                  "(tools_seeded.py: pytest with junit xml in a scratch "
                  "worktree)",
            demo_unchanged_rc=r["demo_unchanged_rc"],
            demo_patched_rc=r["demo_patched_rc"],
            checks={k: dict(rc=v["rc"], first_lines=v["lines"][:2])
                    for k, v in r.get("checks", {}).items()},
            caught=bool(r.get("caught")),
            missed_by_the_first_version_of_the_check=missed_first,
            how_run="python3 tools_seeded.py seeded/" + name)
        with open(os.path.join(dst, "meta.json"), "w") as f:
            json.dump(meta, f, indent=1)
            f.write("\n")
        kept += 1
    print("kept", kept)


if __name__ == "__main__":
    main()
