"""C03 conditional blocks run exactly the branch the condition selects"""
import random

from .. import dsl, gen, kern, specrun
from ..core import Result
from . import c01

PROPERTY = "C03"
LEVEL = "exploration"
RULE = ("seeded random condition trees (comparisons == != < <= > >= over "
        "registers r/sr/w/sw, map and stack variables BHIQbhiq, constants, "
        "one-level arithmetic; bit tests x & mask; 1- and multi-bit field "
        "variables; ~, &, | nesting to depth 3 quick / 4 thorough) used as "
        "`with c:` and `with c as Else: ... with Else:`, nested to depth 3 and "
        "sequenced with assignments; marker variables record which body, "
        "Else body and continuation ran, in the kernel and the reference "
        "machine; plus blocks whose body leaves the program, and else-if "
        "chains of 2-4 members in the form the library's own dispatcher "
        "uses (`with E, c as E:`), members being comparisons, bit tests, "
        "one-bit fields, and/or combinations and negations, with and "
        "without a final else, alone or inside an outer block, run in the "
        "kernel for every combination of truth values of the members; "
        "a case = (program, input vector); non-trivial = at least "
        "one condition inside the precondition (all compared values fit the "
        "narrowest width); atom x polarity coverage is counted")
ASSUMPTIONS = c01.ASSUMPTIONS[:2] + [
    "a condition containing a known-finding trigger is attributed to it"]
MIN_EVALUATIONS = {"quick": 2000, "thorough": 50000}

CMP = ["==", "!=", "<", "<=", ">", ">="]
BITS = {}


def plan(tier, seed):
    if tier == "quick":
        return [dict(seed=seed, shard=i, n=500, depth=3) for i in range(16)]
    return [dict(seed=seed, shard=i, n=1800, depth=4) for i in range(64)]


def gen_operand(rng, places, arith=0.25):
    r = rng.random()
    if r < arith:
        op = rng.choice(["+", "-", "&", "|", "^", "*"])
        return ["b", op, ["p", rng.choice(places)],
                ["c", rng.randint(0, 255)] if rng.random() < 0.6
                else ["p", rng.choice(places)]]
    if r < arith + 0.06:
        # -x / abs(x) of a place that is read again afterwards
        return [rng.choice(["neg", "abs"]), ["p", rng.choice(places)]]
    return ["p", rng.choice(places)]


def gen_atom(rng, places, bitplaces, nested):
    r = rng.random()
    if bitplaces and r < 0.15:
        bp = rng.choice(bitplaces)
        if rng.random() < 0.3:
            if BITS.get(bp) == 1:
                return ["not", ["bit", bp]]     # ~field: 1-bit fields only
            return ["not", ["cmp", "!=", ["p", bp], ["c", 0]]]
        if rng.random() < 0.35:
            # a bit field compared with a constant its width can hold
            w = BITS.get(bp) or 1
            return ["cmp", rng.choice(["==", "!=", "==", "!=", "<", ">="]),
                    ["p", bp], ["c", rng.randrange(1 << w)]]
        return ["bit", bp]
    if r < 0.3:
        # bit test x & mask
        m = rng.choice([1, 2, 4, 8, 0x10, 0x80, 3, 6, 0x30, 0xf0, 0xff,
                        0x100, 0x8000, 0x80000000, 0xffff0000])
        t = ["b", "&", ["p", rng.choice(places)], ["c", m]]
        if rng.random() < 0.3:
            # masked value compared with the mask, a part of it, or another
            # constant
            low = m & -m
            return ["cmp", rng.choice(["==", "!="]), t,
                    ["c", rng.choice([m, m, low, m ^ low, 0, 1])]]
        if nested or rng.random() < 0.5:
            return ["cmp", "!=", t, ["c", 0]]
        return ["truth", t]
    if r < 0.38 and not nested:
        return ["truth", gen_operand(rng, places)]
    left = gen_operand(rng, places)
    if rng.random() < 0.45:
        right = ["c", rng.choice([0, 1, -1, 2, 5, 10, 20, 100, 127, 128, 255,
                                  256, 65535, -128, 0x7fffffff, 0x80000000,
                                  0xffffffff, rng.randint(-30, 30),
                                  rng.getrandbits(rng.choice([8, 16, 33,
                                                              63]))])]
    else:
        right = gen_operand(rng, places)
    if rng.random() < 0.15 and right[0] == "c":
        left, right = right, left
    return ["cmp", rng.choice(CMP), left, right]


def gen_cond(rng, places, bitplaces, depth, nested=False):
    if depth <= 0 or rng.random() < 0.4:
        return gen_atom(rng, places, bitplaces, nested)
    r = rng.random()
    if r < 0.2:
        c = gen_cond(rng, places, bitplaces, depth - 1, True)
        return ["not", c]
    return [rng.choice(["and", "or"]),
            gen_cond(rng, places, bitplaces, depth - 1, True),
            gen_cond(rng, places, bitplaces, depth - 1, True)]


def normalise(c, top=True):
    """nested truth/bit atoms must be comparison objects"""
    k = c[0]
    if k in ("and", "or"):
        return [k, normalise(c[1], False), normalise(c[2], False)]
    if k == "not":
        inner = c[1]
        if inner[0] == "bit" and BITS.get(inner[1]) == 1:
            return ["not", inner]      # ~bitfield: 1-bit fields only
        return ["not", normalise(inner, False)]
    if not top:
        if k == "truth":
            return ["cmp", "!=", c[1], ["c", 0]]
        if k == "bit":
            return ["cmp", "!=", ["p", c[1]], ["c", 0]]
    return c


def gen_block(rng, places, bitplaces, wplaces, depth, nest):
    stmts = []
    for _ in range(rng.randint(1, 3)):
        r = rng.random()
        if r < 0.35 or nest <= 0:
            p = rng.choice(wplaces)
            stmts.append(["set", p, ["c", rng.randint(0, 120)]])
        else:
            c = normalise(gen_cond(rng, places, bitplaces, depth))
            body = gen_block(rng, places, bitplaces, wplaces, depth - 1,
                             nest - 1)
            els = gen_block(rng, places, bitplaces, wplaces, depth - 1,
                            nest - 1) if rng.random() < 0.5 else None
            if els is not None and rng.random() < 0.2:
                els = []          # `with Else: pass`
            stmts.append(["if", c, body, els])
    return stmts


def gen_case(rng, depth):
    regs, vars_, locs = gen.gen_decls(rng, nregs=(0, 3), nvars=(2, 4),
                                      nlocs=(0, 2))
    # a signed 32-bit register that is compared with 64-bit values at
    # several places, the first of them on a path that may be skipped
    twice = None
    if rng.random() < 0.15:
        free = [n for n in gen.FREE_REGS if n not in {r[0] for r in regs}]
        if len(free) >= 2:
            regs = regs + [[free[0], "sw"], [free[1], "sr"]]
            twice = (f"r{free[0]}", f"r{free[1]}")
    # some variables with an explicit byte order
    for decl in vars_ + locs:
        if rng.random() < 0.12:
            decl[1] = rng.choice(gen.ORDERED_FMTS)
    nbit = rng.choice([0, 0, 1, 2])
    bitlocs = []
    for i in range(nbit):
        bits = rng.choice([1, 1, 1, 2, 3, 4])
        pos = rng.randint(0, 8 - bits)
        bitlocs.append([f"f{i}", [pos, bits]])
    locs = locs + bitlocs
    places = gen.places_of(regs, vars_, [l for l in locs if l not in bitlocs])
    bitplaces = [f"l:{n}" for n, _ in bitlocs]
    BITS.clear()
    BITS.update({f"l:{n}": f[1] for n, f in bitlocs})
    wplaces = [p for p in places if p[0] != "r"] or places
    stmts = gen_block(rng, places, bitplaces, wplaces, depth, 3)
    if twice:
        a, b = ["p", twice[0]], ["p", twice[1]]
        c0 = normalise(gen_atom(rng, [p for p in places
                                      if p not in twice] or places,
                                bitplaces, False))
        inner = ["if", ["cmp", rng.choice(CMP), a, b],
                 [["set", wplaces[0], ["c", 11]]], None]
        first = ["if", c0, [inner], None] if rng.random() < 0.6 else \
            ["if", ["and", normalise(c0, False),
                    ["cmp", rng.choice(CMP), a, b]],
             [["set", wplaces[0], ["c", 12]]], None]
        second = ["if", ["cmp", rng.choice(CMP), a,
                         b if rng.random() < 0.7 else
                         ["c", rng.choice([-1, 0, 5, 1 << 40])]],
                  [["set", wplaces[-1], ["c", 13]]],
                  [["set", wplaces[-1], ["c", 14]]]]
        stmts = [first, second] + stmts
    if not any(s[0] == "if" for s in stmts):
        c = normalise(gen_cond(rng, places, bitplaces, depth))
        stmts.append(["if", c, [["set", wplaces[0], ["c", 1]]],
                      [["set", wplaces[0], ["c", 2]]]])
    specd = dict(regs=regs, vars=vars_, locs=locs, stmts=stmts)
    spec = dsl.Spec(specd)
    inputs = [gen.gen_inputs(rng, spec, modes=("small", "small", "small",
                                               "medium", "edge", "rand"))
              for _ in range(rng.randint(4, 7))]
    return dict(spec=specd, inputs=inputs)


def all_ifs(stmts, path=()):
    for i, s in enumerate(stmts):
        p = path + (i,)
        if s[0] == "if":
            yield p, s
            yield from all_ifs(s[2], p + ("T",))
            if s[3] is not None:
                yield from all_ifs(s[3], p + ("E",))


def atoms(c):
    if c[0] in ("and", "or"):
        yield from atoms(c[1])
        yield from atoms(c[2])
    elif c[0] == "not":
        yield from atoms(c[1])
    else:
        yield c


def cond_triggers(spec, c, store):
    """known mechanisms this condition exercises on this store"""
    ref = dsl.Ref(spec)
    ref.W = ref.width_of(ref.cond_trees(c))
    found = []

    def val(t):
        try:
            return ref.ev(t, store).vals
        except dsl.Unchecked:
            return set()

    def natural_long(t):
        """does the DSL compute this operand in 64 bits?"""
        if t[0] == "p":
            return spec.info(t[1])[0] == 8
        if t[0] == "c":
            return not -0x80000000 <= t[1] < 0x100000000
        if t[0] == "b":
            return natural_long(t[2])
        return natural_long(t[1])

    def dsl_signed(t):
        k = t[0]
        if k == "p":
            return spec.info(t[1])[1]
        if k == "c":
            return t[1] < 0
        if k == "neg":
            return True
        if k == "abs":
            return False
        if t[1] == "&":
            return False
        if t[1] == ">>":
            return dsl_signed(t[2])
        return dsl_signed(t[2]) or dsl_signed(t[3])

    def neg_and(t):
        """an & node with a negative exact value (typed unsigned)"""
        if t[0] == "b":
            if t[1] == "&" and any(v < 0 for v in val(t)):
                return True
            return neg_and(t[2]) or neg_and(t[3])
        if t[0] in ("neg", "abs"):
            return neg_and(t[1])
        return False

    def has_neg_sw(t):
        if t[0] == "p":
            p = t[1]
            return (p[0] == "r" and spec.regs[int(p[1:])] == "sw"
                    and any(v < 0 for v in val(t)))
        if t[0] == "b":
            return has_neg_sw(t[2]) or has_neg_sw(t[3])
        if t[0] in ("neg", "abs"):
            return has_neg_sw(t[1])
        return False

    for a in atoms(c):
        if a[0] == "truth" and a[1][0] == "b":
            # `with expr:` is the comparison expr != 0
            a = ["cmp", "!=", a[1], ["c", 0]]
        if a[0] != "cmp":
            continue
        L, R = a[2], a[3]
        # (a bare sw register on the left is widened by the comparison
        # itself - in place, see the finding about that - and compares
        # right; the recorded mechanism needs the register inside an
        # expression, or on the right-hand side)
        if ((has_neg_sw(L) and L[0] != "p") or has_neg_sw(R)) and \
                (natural_long(R) or natural_long(L)):
            found.append("sw-register-negative-compared-in-64bit")
        if neg_and(L) or neg_and(R):
            found.append("and-result-negative-compared-unsigned")
        # left computed in 64 bits and typed unsigned, right a narrow
        # signed operand: the right side is sign-extended to 32 bits only
        # and then compared in 64 bits
        # (Python may evaluate the reflected comparison, so both
        # orientations are considered)
        for A, B in ((L, R), (R, L)):
            if natural_long(A) and not dsl_signed(A) and A[0] != "c" \
                    and not natural_long(B) and B[0] != "c" \
                    and any(v < 0 for v in val(B)):
                found.append("unsigned-64bit-vs-narrow-negative-comparison")
    return found


def inplace_extended(spec, c):
    """32-bit register views that a comparison in `c` may sign-extend in
    place: a bare w/sw register compared with an operand computed in 64
    bits when either side is signed"""
    out = set()

    def nat_long(t):
        if t[0] == "p":
            return spec.info(t[1])[0] == 8
        if t[0] == "c":
            return not -0x80000000 <= t[1] < 0x100000000
        if t[0] == "b":
            return nat_long(t[2])
        return nat_long(t[1])

    for a in atoms(c):
        if a[0] != "cmp":
            continue
        for A, B in ((a[2], a[3]), (a[3], a[2])):
            if A[0] == "p" and A[1][0] == "r" and spec.info(A[1])[0] == 4 \
                    and nat_long(B):
                out.add(A[1])
    return out


def check_case(case, res, use_v=True):
    specd = case["spec"]
    spec = dsl.Spec(specd)
    with kern.session() as sess:
        cr = specrun.CaseRun(specd, sess)
        try:
            res.count("programs")
            res.count("status:" + cr.status)
            if cr.status != "ok":
                if cr.status != "assemble_error":
                    res.sample(dict(status=cr.status, error=cr.error[-300:],
                                    spec=specd), limit=2)
                return
            ifs = dict(all_ifs(spec.stmts))
            for inputs in case["inputs"]:
                ref = dsl.run_ref(specd, inputs)
                decided = 0
                for path, exp in ref["markers"].items():
                    if exp["T"] is None:
                        res.count("cond_unchecked")
                        continue
                    if exp["A"] == 0:
                        res.count("cond_not_reached")
                        continue
                    decided += 1
                    c = ifs[path][1]
                    res.count(f"cond_{'true' if exp['T'] else 'false'}"
                              f"[{c[0]}{'/else' if ifs[path][3] else ''}]")
                    for a in atoms(c):
                        res.count("atom[" + (a[1] if a[0] == "cmp"
                                             else a[0]) + "]")
                res.count("cond_decided", decided)
                res.case([specd, inputs], nontrivial=decided > 0)
                obs_k, obs_v, fault = cr.run(inputs, use_v=use_v)
                if use_v:
                    res.count("v_runs")
                    if fault:
                        res.inconc(f"V faulted where K ran: {fault}; "
                                   f"spec={specd} inputs={inputs}")
                    elif obs_v != obs_k:
                        res.inconc(f"K/V disagree spec={specd} "
                                   f"inputs={inputs}")
                bad = specrun.compare(spec, ref, obs_k)
                if bad:
                    key, first = attribute(spec, ref, bad, ifs, inputs)
                    res.violation(
                        key, f"{first}",
                        case=dict(spec=specd, inputs=[inputs]),
                        witness=dict(mismatches=bad[:6],
                                     disasm=cr.disasm()[:150]))
                if len(res.samples) < 3 and decided:
                    res.sample(dict(spec=specd, inputs=inputs,
                                    markers_observed={
                                        str(k): v for k, v in
                                        obs_k["markers"].items()}))
        finally:
            cr.close()


def attribute(spec, ref, bad, ifs, inputs):
    mk = [b for b in bad if b["kind"] == "marker"]
    if mk:
        order = {p: i for i, p in enumerate(ifs)}
        first = min(mk, key=lambda b: order[tuple(b["path"])])
        path = tuple(first["path"])
        c = ifs[path][1]
        # the store when the condition is evaluated: replay up to it
        store = store_before(spec, path, inputs, ref)
        tr = cond_triggers(spec, c, store)
        # an earlier comparison of a 32-bit register view with a 64-bit
        # signed operand sign-extends that register in place (golden
        # instruction list of test_short_comparison encodes it); every
        # later reader of the register sees the modified value
        # (only a comparison that was reached on this input has touched its
        # register: one inside a block that was skipped has not)
        dirty = set()
        for p2, s2 in ifs.items():
            if order[p2] < order[path] and \
                    ref["markers"].get(p2, {}).get("A") != 0:
                dirty |= inplace_extended(spec, s2[1])
        used = set()
        for t in dsl.Ref(spec).cond_trees(c):
            used |= set(c01._places(t))
        if dirty & used:
            tr.append("comparison-sign-extends-narrow-register-in-place")
        if tr:
            return tr[0], first
        kinds = sorted(set(a[1] if a[0] == "cmp" else a[0]
                           for a in atoms(c)))
        return ("unexplained:cond " + ",".join(kinds) + " shape="
                + shape(c)), first
    dirty = set()
    for p2, s2 in ifs.items():
        dirty |= inplace_extended(spec, s2[1])
    for b in bad:
        if b.get("place") in dirty:
            return "comparison-sign-extends-narrow-register-in-place", b
    return "unexplained:" + bad[0]["kind"], bad[0]


def shape(c):
    if c[0] in ("and", "or"):
        return f"({shape(c[1])}{'&' if c[0] == 'and' else '|'}{shape(c[2])})"
    if c[0] == "not":
        return "~" + shape(c[1])
    return "a"


def store_before(spec, path, inputs, ref):
    """reference store at the time the `if` at `path` is evaluated"""
    # the nearest recorded snapshot after it, else rebuild: run_ref keeps
    # snapshots only for assignments, so re-run a truncated program
    def truncate(stmts, path):
        i = path[0]
        head = stmts[:i]
        s = stmts[i]
        if len(path) == 1:
            return head + [["set", "v:__probe__", ["c", 0]]]
        sub = s[2] if path[1] == "T" else s[3]
        inner = truncate(sub, path[2:])
        if path[1] == "T":
            return head + [["if", s[1], inner, s[3]]]
        return head + [["if", s[1], s[2], inner]]
    d = dict(spec.d)
    d["stmts"] = truncate(spec.stmts, path)
    d["vars"] = list(d["vars"]) + [["__probe__", "B"]]
    inp = dict(inputs)
    inp["v:__probe__"] = 0
    r = dsl.run_ref(d, inp)
    for p, st in r["stores"].items():
        s = c01.stmt_by_path(dsl.Spec(d), p)
        if s[0] == "set" and s[1] == "v:__probe__":
            return st
    return dict(inputs)


def exit_leg(res, rng, n):
    """blocks whose body leaves the program: `with A as Else:` whose body
    ends in a nested `with B:` that ends in exit(), followed by `with Else:`
    and by code behind the construct; all combinations of A and B are run in
    the kernel. Markers: body of A, body of B, Else of A, behind."""
    from .. import prog
    from ebpfcat.arraymap import ArrayMap
    from ebpfcat.xdp import XDP
    for _ in range(n):
        fa, fb = rng.choice("IiQqHh"), rng.choice("IiQqHh")
        ka, kb = rng.randint(-3, 40), rng.randint(-3, 40)
        opa, opb = rng.choice(CMP), rng.choice(CMP)
        shape = rng.choice(["nested", "nested", "andor", "double"])
        m = ArrayMap()
        ns = {"license": "GPL", "m": m, "a": m.globalVar(fa),
              "b": m.globalVar(fb), "mk": m.globalVar("B")}
        ops = {"==": lambda x, y: x == y, "!=": lambda x, y: x != y,
               "<": lambda x, y: x < y, "<=": lambda x, y: x <= y,
               ">": lambda x, y: x > y, ">=": lambda x, y: x >= y}

        def program(self):
            e = self
            ca = ops[opa](e.a, ka)
            if shape == "andor":
                ca = ca & (e.a != ka + 1000)
            with ca as Else:
                e.mk = e.mk | 1
                with ops[opb](e.b, kb):
                    e.mk = e.mk | 2
                    e.r0 = 2
                    e.exit()
                if shape == "double":
                    with ops[opb](e.b, kb):
                        e.mk = e.mk | 16
                        e.r0 = 2
                        e.exit()
            with Else:
                e.mk = e.mk | 4
            e.mk = e.mk | 8
            e.r0 = 2
            e.exit()
        ns["program"] = program
        desc = dict(exit_leg=True, a=[fa, opa, ka], b=[fb, opb, kb],
                    shape=shape)
        with kern.session() as sess:
            try:
                e = type("VfExit", (XDP,), ns)()
                ld = prog.Loaded(e, sess)
                ld.load()
            except OSError as ex:
                res.count("exit_leg_load_failed (C05's business)")
                continue
            try:
                for va in (ka - 1, ka, ka + 1):
                    for vb in (kb - 1, kb, kb + 1):
                        if fa.isupper() and va < 0 or \
                                fb.isupper() and vb < 0:
                            continue
                        e.a, e.b, e.mk = va, vb, 0
                        ld.run_k(bytes(64))
                        ta, tb = ops[opa](va, ka), ops[opb](vb, kb)
                        want = (1 | (2 if tb else 8)) if ta else (4 | 8)
                        res.case([desc, va, vb], nontrivial=True)
                        res.count("exit_leg_runs")
                        if e.mk != want:
                            res.violation(
                                "unexplained:cond exit-in-body",
                                f"a={va} b={vb}: blocks run (1 body, 2 "
                                f"nested body that exits, 4 Else, 8 behind) "
                                f"= {e.mk:#06b}, expected {want:#06b} "
                                f"[{desc}]", case=desc)
                            break
                    else:
                        continue
                    break
            finally:
                ld.close()


def chain_affected(kinds, final_else):
    """the recorded mechanism (known_findings.json, C03
    bit-test-with-else-in-else-chain): a bit test used directly as a
    condition whose Else is used swaps its two blocks when the Else block
    ends; that invalidates a jump set before it (the bit test is not the
    first condition of the chain) and the positions remembered by a
    condition inside its Else block whose own Else is still to come"""
    k = len(kinds)

    def else_used(i):            # 0-based
        return i < k - 1 or final_else
    return any(kinds[i] in ("bit", "field") and else_used(i) and
               (i > 0 or (i + 1 < k and else_used(i + 1)))
               for i in range(k))


def elif_leg(res, rng, n):
    """else-if chains as the library's own dispatcher writes them:
    `with c1 as E: ...`, `with E, c2 as E: ...`, ..., optionally a final
    `with E: ...`, followed by code behind; conditions are comparisons, bit
    tests, one-bit fields, and/or combinations and negations; every
    combination of truth values of the conditions is run in the kernel"""
    import itertools
    from .. import prog
    from ebpfcat.arraymap import ArrayMap
    from ebpfcat.ebpf import LocalVar
    from ebpfcat.xdp import XDP
    ops = {"==": lambda x, y: x == y, "!=": lambda x, y: x != y,
           "<": lambda x, y: x < y, "<=": lambda x, y: x <= y,
           ">": lambda x, y: x > y, ">=": lambda x, y: x >= y}
    for _ in range(n):
        k = rng.choice([2, 2, 3, 3, 4])
        final_else = rng.random() < 0.6
        outer = rng.choice([None, None, "true", "false"])
        kinds = [rng.choice(["cmp", "cmp", "bit", "field", "andor", "not"])
                 for _ in range(k)]
        pars = []
        for kd in kinds:
            if kd == "bit":
                pars.append(dict(mask=rng.choice([1, 4, 6, 0x80, 0x300])))
            elif kd == "field":
                pars.append(dict(pos=rng.randrange(8)))
            else:
                pars.append(dict(op=rng.choice(CMP), k=rng.randint(0, 40)))
        m = ArrayMap()
        ns = {"license": "GPL", "m": m, "mk": m.globalVar("I"),
              "o": m.globalVar("I")}
        for i, (kd, pr) in enumerate(zip(kinds, pars)):
            ns[f"v{i}"] = m.globalVar("I")
            if kd == "field":
                ns[f"f{i}"] = LocalVar((pr["pos"], 1))

        def cond(e, i):
            kd, pr = kinds[i], pars[i]
            v = getattr(e, f"v{i}")
            if kd == "bit":
                return v & pr["mask"]
            if kd == "field":
                return getattr(e, f"f{i}")
            c = ops[pr["op"]](v, pr["k"])
            if kd == "andor":
                return c & (v != pr["k"] + 1000)
            if kd == "not":
                return ~c
            return c

        def truth(i, val):
            kd, pr = kinds[i], pars[i]
            if kd == "bit":
                return bool(val & pr["mask"])
            if kd == "field":
                return bool(val)
            t = ops[pr["op"]](val, pr["k"])
            return (not t) if kd == "not" else t

        def chain(e):
            with cond(e, 0) as E:
                e.mk = e.mk | 1
            for i in range(1, k):
                if i < k - 1 or final_else:
                    with E, cond(e, i) as E:
                        e.mk = e.mk | (1 << i)
                else:
                    with E, cond(e, i):
                        e.mk = e.mk | (1 << i)
            if final_else:
                with E:
                    e.mk = e.mk | 0x100

        def program(self):
            e = self
            for i, kd in enumerate(kinds):
                if kd == "field":
                    setattr(e, f"f{i}", 0)
                    with getattr(e, f"v{i}") != 0:
                        setattr(e, f"f{i}", 1)
            if outer is None:
                chain(e)
            else:
                with (e.o == 1) as Eo:
                    chain(e)
                    e.mk = e.mk | 0x400
                with Eo:
                    e.mk = e.mk | 0x800
            e.mk = e.mk | 0x200
            e.r0 = 2
            e.exit()
        ns["program"] = program
        desc = dict(elif_leg=True, kinds=kinds, pars=pars,
                    final_else=final_else, outer=outer)
        affected = chain_affected(kinds, final_else)
        res.count("else_chains" + ("_with_a_bit_test_whose_else_is_used"
                                   if affected else ""))
        with kern.session() as sess:
            try:
                e = type("VfElif", (XDP,), ns)()
                ld = prog.Loaded(e, sess)
                ld.load()
            except (OSError, AssertionError) as ex:
                # (a chain that the recorded mechanism garbles may also be
                # refused by the kernel or trip an assertion of the
                # generator)
                if affected:
                    res.violation(
                        "bit-test-with-else-in-else-chain",
                        f"else-if chain {kinds} cannot be generated / "
                        f"loaded: {type(ex).__name__}", case=desc)
                else:
                    res.count("else_chain_load_failed (C05's business)")
                continue
            try:
                vals = []
                for i, (kd, pr) in enumerate(zip(kinds, pars)):
                    if kd == "bit":
                        vals.append([0, pr["mask"], 0xffff ^ pr["mask"]])
                    elif kd == "field":
                        vals.append([0, 1])
                    else:
                        vals.append([max(pr["k"] - 1, 0), pr["k"],
                                     pr["k"] + 1])
                bad = None
                for combo in itertools.product(*vals):
                    for i, val in enumerate(combo):
                        setattr(e, f"v{i}", val)
                    e.mk = 0
                    e.o = 1 if outer == "true" else 0
                    ld.run_k(bytes(64))
                    want = 0x200
                    if outer == "false":
                        want |= 0x800
                    else:
                        first = next((i for i in range(k)
                                      if truth(i, combo[i])), None)
                        if first is not None:
                            want |= 1 << first
                        elif final_else:
                            want |= 0x100
                        if outer == "true":
                            want |= 0x400
                    res.case([desc, list(combo)], nontrivial=True)
                    res.count("else_chain_runs")
                    if e.mk != want:
                        bad = (combo, e.mk, want)
                        break
                if bad:
                    combo, got, want = bad
                    res.violation(
                        "bit-test-with-else-in-else-chain" if affected
                        else "unexplained:cond else-chain",
                        f"else-if chain {kinds} (final else "
                        f"{final_else}, outer block {outer}) with values "
                        f"{list(combo)}: blocks run = {got:#x}, expected "
                        f"{want:#x} (bit i = body of condition i, 0x100 "
                        f"final else, 0x200 behind, 0x400/0x800 outer "
                        f"block / its else)", case=desc)
            finally:
                ld.close()


TMP_VIEWS = {"tmp": (64, False), "stmp": (64, True), "wtmp": (32, False),
             "swtmp": (32, True)}


def tmp_gen(rng):
    """a program that uses scratch registers (e.tmp / e.stmp / e.wtmp /
    e.swtmp, as the library's own devices do) one after the other, each
    loaded from a variable and then the left operand of comparisons - alone,
    with Else, inside & | ~; a one-bit variable assigned from a condition in
    between goes through e.wtmp behind the scenes"""
    blocks = []
    for _ in range(rng.randint(2, 4)):
        if rng.random() < 0.2:
            blocks.append(dict(view=None, k=rng.choice([0, 7, 1000])))
            continue
        view = rng.choice(list(TMP_VIEWS))
        signed = TMP_VIEWS[view][1]
        stmts = []
        for _ in range(rng.randint(1, 3)):
            c = (lambda: rng.choice([-5000, -10, -3, -1, 0, 1, 7, 10, 1000])
                 if signed else rng.choice([0, 1, 7, 10, 1000]))
            kind = rng.choice(["cmp", "cmp", "range", "notor", "var"])
            stmts.append(dict(kind=kind, op=rng.choice(CMP), c1=c(), c2=c(),
                              has_else=rng.random() < 0.6))
        blocks.append(dict(view=view, stmts=stmts))
    return dict(tmp_leg=True, blocks=blocks)


def tmp_case(desc, inputs, res):
    from .. import kern, prog
    from ebpfcat.arraymap import ArrayMap
    from ebpfcat.ebpf import LocalVar
    from ebpfcat.xdp import XDP
    ops = {"==": lambda x, y: x == y, "!=": lambda x, y: x != y,
           "<": lambda x, y: x < y, "<=": lambda x, y: x <= y,
           ">": lambda x, y: x > y, ">=": lambda x, y: x >= y}
    m = ArrayMap()
    # sources / right operands per view
    ns = {"license": "GPL", "m": m, "out": m.globalVar("Q"),
          "a_tmp": m.globalVar("Q"), "b_tmp": m.globalVar("Q"),
          "a_stmp": m.globalVar("q"), "b_stmp": m.globalVar("q"),
          "a_wtmp": m.globalVar("I"), "b_wtmp": m.globalVar("I"),
          "a_swtmp": m.globalVar("i"), "b_swtmp": m.globalVar("i"),
          "flag": LocalVar((3, 1))}

    def conds(e, V, st, b):
        o = st["op"]

        def cmp_(x, op, y):
            return {"==": x == y, "!=": x != y, "<": x < y, "<=": x <= y,
                    ">": x > y, ">=": x >= y}[op]
        if st["kind"] == "cmp":
            return cmp_(V, o, st["c1"])
        if st["kind"] == "var":
            return cmp_(V, o, b)
        if st["kind"] == "range":
            return (V > st["c1"]) & (V < st["c2"])
        return ~(V >= st["c1"]) | (V == st["c2"])

    def truth(v, st, b):
        if st["kind"] == "cmp":
            return ops[st["op"]](v, st["c1"])
        if st["kind"] == "var":
            return ops[st["op"]](v, b)
        if st["kind"] == "range":
            return st["c1"] < v < st["c2"]
        return (not v >= st["c1"]) or v == st["c2"]

    def program(self):
        e = self
        e.out = 0
        bit = 0
        for blk in desc["blocks"]:
            if blk["view"] is None:
                e.flag = e.b_swtmp > blk["k"]
                with e.flag:
                    e.out += 1 << bit
                bit += 1
                continue
            view = blk["view"]
            with getattr(e, view):
                setattr(e, view, getattr(e, "a_" + view))
                for st in blk["stmts"]:
                    c = conds(e, getattr(e, view), st,
                              getattr(e, "b_" + view))
                    if st["has_else"]:
                        with c as Else:
                            e.out += 1 << bit
                        with Else:
                            e.out += 2 << bit
                    else:
                        with c:
                            e.out += 1 << bit
                    bit += 2
        e.out += 1 << 62
        e.r0 = 2
        e.exit()
    ns["program"] = program

    def expected(vals):
        ret = 0
        bit = 0
        for blk in desc["blocks"]:
            if blk["view"] is None:
                if vals["b_swtmp"] > blk["k"]:
                    ret += 1 << bit
                bit += 1
                continue
            view = blk["view"]
            for st in blk["stmts"]:
                t = truth(vals["a_" + view], st, vals["b_" + view])
                if t:
                    ret += 1 << bit
                elif st["has_else"]:
                    ret += 2 << bit
                bit += 2
        return ret + (1 << 62)
    with kern.session() as sess:
        try:
            e = type("VfTmp", (XDP,), ns)()
            ld = prog.Loaded(e, sess)
            ld.load()
        except Exception as ex:
            res.case([desc], nontrivial=True)
            res.violation("unexplained:scratch-register-program-not-"
                          "generated-or-loaded",
                          f"{type(ex).__name__}: {str(ex)[-300:]}",
                          case=dict(desc, inputs=inputs))
            return
        try:
            res.count("scratch_register_programs")
            for vals in inputs:
                for k, v in vals.items():
                    setattr(e, k, v)
                ld.run_k(bytes(64))
                res.case([desc, sorted(vals.items())], nontrivial=True)
                res.count("scratch_register_runs")
                got, want = e.out, expected(vals)
                if got != want:
                    res.violation(
                        "unexplained:scratch-register-condition",
                        f"blocks taken {got:#x}, selected by the conditions "
                        f"{want:#x} (inputs {vals})",
                        case=dict(desc, inputs=[vals]))
                    return
        finally:
            ld.close()


def tmp_leg(res, rng, n):
    for _ in range(n):
        desc = tmp_gen(rng)
        inputs = []
        for _ in range(10):
            inputs.append(dict(
                a_tmp=rng.choice([0, 1, 7, 9, 1000, 5000, (1 << 63) + 5,
                                  (1 << 64) - 1]),
                b_tmp=rng.choice([0, 3, 1000, (1 << 63) + 4, (1 << 64) - 2]),
                a_stmp=rng.choice([0, 1, 7, 9, 10, 5000, -1, -3, -4, -9, -10,
                                   -5000, -(1 << 63), (1 << 63) - 1]),
                b_stmp=rng.choice([0, 3, 2000, -2, -20000]),
                a_wtmp=rng.choice([0, 1, 7, 9, 1000, (1 << 31) + 5,
                                   (1 << 32) - 1]),
                b_wtmp=rng.choice([0, 3, 1000, (1 << 31) + 4]),
                a_swtmp=rng.choice([0, 1, 7, 9, 10, 5000, -1, -3, -4, -9,
                                    -10, -5000, -(1 << 31), (1 << 31) - 1]),
                b_swtmp=rng.choice([0, 3, 2000, -2, -20000])))
        tmp_case(desc, inputs, res)


def run_shard(params):
    res = Result()
    rng = random.Random(params["seed"] * 100019 + params["shard"])
    elif_leg(res, random.Random(rng.getrandbits(32)),
             max(6, params["n"] // 12))
    for i in range(params["n"]):
        case = gen_case(rng, params["depth"])
        check_case(case, res, use_v=(i % 3 == 0))
    exit_leg(res, rng, max(4, params["n"] // 25))
    tmp_leg(res, random.Random(rng.getrandbits(32)),
            max(6, params["n"] // 12))
    return res


def finalize(res, tier, seed):
    c = res.counters
    missing = [op for op in CMP + ["truth", "bit"]
               if not c.get(f"atom[{op}]")]
    pol = [k for k in ("cmp", "and", "or", "not", "truth", "bit")
           for t in ("true", "false")
           if not any(c.get(f"cond_{t}[{k}{e}]") for e in ("", "/else"))]
    res.info["atoms_never_decided"] = missing
    res.info["shape_polarity_never_seen"] = pol
    if missing or pol:
        res.inconc(f"coverage holes: atoms {missing} polarity {pol}")


def replay(v):
    res = Result()
    if v["case"].get("tmp_leg"):
        c = dict(v["case"])
        tmp_case(c, c.pop("inputs"), res)
        return res
    check_case(v["case"], res)
    return res
