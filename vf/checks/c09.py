"""C09 hash-map variables and Dict entries agree between Python and program"""
import random
import struct

from .. import ebpfvm, kern, prog, sysmon
from ..core import Result
from .. import use_repo
use_repo()

from ebpfcat.arraymap import ArrayMap  # noqa: E402
from ebpfcat.bpf import UpdateFlags  # noqa: E402
from ebpfcat.ebpf import AssembleError, Member, Structure  # noqa: E402
from ebpfcat.hashmap import Dict, HashMap  # noqa: E402
from ebpfcat.xdp import XDP  # noqa: E402

PROPERTY = "C09"
LEVEL = "exploration"
RULE = ("(a) HashMap with 1-8 variables of random format BHIQbhiq and "
        "default: after load every variable shows its default; random "
        "sequences of Python writes/reads and program statements "
        "dst = src + c executed by BPF_PROG_TEST_RUN are compared with a "
        "reference store of independent 64-bit cells, raw kernel contents "
        "read by the harness's own bpf() calls. (b) Dict (plain and LRU) "
        "with random packed Key/Value structures (1-5 members): random "
        "sequences of 10-40 operations from both sides (Python d[k]=v, d[k], "
        "del, pop, iteration; program update with ANY/NOEXIST/EXIST flags, "
        "lookup with member reads / writes / in-place update, Else marker) "
        "against a dict bytes->bytes whose layouts are computed from the "
        "member formats independently. a case = one operation; non-trivial "
        "= an operation whose result was compared with the model")
ASSUMPTIONS = ["LRU maps are kept below capacity so that eviction (which the "
               "statement does not cover) never happens"]
MIN_EVALUATIONS = {"quick": 1500, "thorough": 40000}
FM = ["B", "H", "I", "Q", "b", "h", "i", "q"]


def plan(tier, seed):
    if tier == "quick":
        return [dict(seed=seed, shard=i, nh=50, nd=100) for i in range(16)]
    return [dict(seed=seed, shard=i, nh=150, nd=300) for i in range(32)]


def sx(v, fmt):
    size = struct.calcsize(fmt)
    v &= (1 << (8 * size)) - 1
    if fmt.islower() and v >> (8 * size - 1):
        v -= 1 << (8 * size)
    return v


# ---------------------------------------------------------------------------
# (a) hash-map variables
# ---------------------------------------------------------------------------

def gen_hash_case(rng):
    nv = rng.randint(1, 8)
    vars_ = []
    for i in range(nv):
        fmt = rng.choice(FM)
        size = struct.calcsize(fmt)
        default = rng.choice([0, 1, 5, rng.getrandbits(8 * size - 1)])
        if fmt.islower() and rng.random() < 0.3:
            default = -default
        vars_.append([f"h{i}", fmt, default])
    stmts = []
    for _ in range(rng.randint(1, 4)):
        stmts.append([rng.randrange(nv), rng.randrange(nv),
                      rng.choice([0, 1, 7, 1000, -3])])
    ops = []
    for _ in range(rng.randint(4, 10)):
        r = rng.random()
        if r < 0.35:
            i = rng.randrange(nv)
            fmt = vars_[i][1]
            v = sx(rng.getrandbits(64), fmt)
            ops.append(["pywrite", i, v])
            if rng.random() < 0.25:
                # a value outside the format's range (rejected or wrapped:
                # the statement says nothing; buffers must still be right)
                size = struct.calcsize(fmt)
                oob = rng.choice([-1, -rng.getrandbits(8 * size - 1) - 1,
                                  1 << (8 * size), (1 << (8 * size)) + 5]) \
                    if not fmt.islower() else rng.choice(
                        [1 << (8 * size - 1), -(1 << (8 * size - 1)) - 1])
                ops.append(["pywrite_oob", i, oob])
        elif r < 0.7:
            ops.append(["pyread", rng.randrange(nv)])
        else:
            ops.append(["run"])
    ops.append(["run"])
    ops += [["pyread", i] for i in range(nv)]
    # plain copies of (narrower) array-map / stack variables into hash-map
    # variables, each source with a neighbour behind it
    mixed = []
    for _ in range(rng.choice([0, 1, 2, 3])):
        fmt = rng.choice(FM + [">H", ">i", "<I", "!q"])
        size = struct.calcsize(fmt)
        mixed.append([rng.randrange(nv), rng.choice(["array", "local"]),
                      fmt, sx(rng.getrandbits(64), fmt[-1]),
                      rng.getrandbits(32) | 1])
    return dict(vars=vars_, stmts=stmts, ops=ops, mixed=mixed)


def build_hash(case):
    from ebpfcat.ebpf import LocalVar
    h = HashMap()
    ns = {"license": "GPL", "h": h}
    for n, f, d in case["vars"]:
        ns[n] = h.globalVar(f, d)
    mixed = case.get("mixed") or []
    if mixed:
        m = ArrayMap()
        ns["m"] = m
        for k, (dst, kind, fmt, val, nb) in enumerate(mixed):
            ns[f"ms{k}"] = m.globalVar(fmt)
            ns[f"mn{k}"] = m.globalVar("I")
            if kind == "local":
                ns[f"ml{k}"] = LocalVar(fmt)
                ns[f"mk{k}"] = LocalVar("I")

    def program(self):
        for dst, src, c in case["stmts"]:
            s = getattr(self, case["vars"][src][0])
            setattr(self, case["vars"][dst][0], s + c if c else s)
        for k, (dst, kind, fmt, val, nb) in enumerate(mixed):
            if kind == "local":
                setattr(self, f"mk{k}", getattr(self, f"mn{k}"))
                setattr(self, f"ml{k}", getattr(self, f"ms{k}"))
                setattr(self, case["vars"][dst][0], getattr(self, f"ml{k}"))
            else:
                setattr(self, case["vars"][dst][0], getattr(self, f"ms{k}"))
        self.r0 = 2
        self.exit()
    ns["program"] = program
    return type("VfHash", (XDP,), ns)()


def check_hash(case, res, monitor=False):
    with kern.session() as sess:
        res.count("hash_configurations")
        try:
            e = build_hash(case)
            ld = prog.Loaded(e, sess)
        except AssembleError as ex:
            res.count("hash_assemble_error")
            return None
        except (AttributeError, KeyError, TypeError, IndexError) as ex:
            res.violation("unexplained:hash-program-construction-raised",
                          f"creating / generating a well-formed program with "
                          f"hash-map variables raised {type(ex).__name__}: "
                          f"{ex}", case=case.get("vars"))
            return None
        mon = sysmon.Monitor(sess) if monitor else None
        try:
            try:
                if mon:
                    mon.__enter__()
                ld.load()
            except OSError as ex:
                res.count("hash_load_failed")
                res.violation(hash_load_key(case, str(ex)),
                              f"hash-map program rejected: {str(ex)[-300:]}",
                              case=dict(kind="hash", **case))
                return mon
            fd = getattr(e, case["vars"][0][0]).fd \
                if False else e.__dict__[case["vars"][0][0]].fd
            cells = {}
            for i, (n, f, d) in enumerate(case["vars"]):
                cells[i] = d & ((1 << 64) - 1)

            def raw(i):
                v = kern.map_lookup(fd, bytes([i + 1]), 8)
                return None if v is None else int.from_bytes(v, "little")
            # defaults after load
            for i, (n, f, d) in enumerate(case["vars"]):
                res.case(["hash-default", case["vars"], i])
                got = raw(i)
                if got is None or sx(got, f) != sx(d, f):
                    res.violation("unexplained:hash-default",
                                  f"{n} ({f}) default {d}: kernel holds "
                                  f"{got}", case=dict(kind="hash", **case))
                    return mon
            for op in case["ops"]:
                if op[0] == "pywrite":
                    n, f, _ = case["vars"][op[1]]
                    setattr(e, n, op[2])
                    cells[op[1]] = op[2] & ((1 << 64) - 1)
                    res.case(["hash-pywrite", op, case["vars"][op[1]]])
                    got = raw(op[1])
                    if got != cells[op[1]]:
                        res.violation(
                            "unexplained:hash-pywrite",
                            f"e.{n} = {op[2]} left kernel value {got}",
                            case=dict(kind="hash", **case))
                        return mon
                elif op[0] == "pywrite_oob":
                    n, f, _ = case["vars"][op[1]]
                    try:
                        setattr(e, n, op[2])
                        res.count("hash_oob_write_accepted")
                    except Exception:
                        res.count("hash_oob_write_rejected")
                    got = raw(op[1])
                    if got is not None:
                        cells[op[1]] = got      # whatever it did: resync
                elif op[0] == "pyread":
                    n, f, _ = case["vars"][op[1]]
                    got = getattr(e, n)
                    res.case(["hash-pyread", op, cells[op[1]]])
                    if got != sx(cells[op[1]], f):
                        res.violation(
                            "unexplained:hash-pyread",
                            f"e.{n} ({f}) read {got}, cell holds "
                            f"{cells[op[1]]:#x}",
                            case=dict(kind="hash", **case))
                        return mon
                else:
                    for k, (dst, kind, fmt, val, nb) in enumerate(
                            case.get("mixed") or []):
                        setattr(e, f"ms{k}", val)
                        setattr(e, f"mn{k}", nb)
                    ld.run_k(bytes(64))
                    # a plain copy `dst = src` may copy the whole 64-bit
                    # cell or the value src's format defines (the statement
                    # calls the variables 64-bit cells): both are accepted
                    alts = [dict(cells)]
                    for dst, src, c in case["stmts"]:
                        fs = case["vars"][src][1]
                        new = []
                        for a in alts:
                            b = dict(a)
                            b[dst] = (sx(a[src], fs) + c) & ((1 << 64) - 1)
                            new.append(b)
                            if c == 0 and a[src] != b[dst]:
                                b2 = dict(a)
                                b2[dst] = a[src]
                                new.append(b2)
                        alts = new[:64]
                    for k, (dst, kind, fmt, val, nb) in enumerate(
                            case.get("mixed") or []):
                        res.count("hash_copy_from_" + kind + (
                            "_narrow" if struct.calcsize(fmt) < 8
                            else "_wide"))
                        for a in alts:
                            a[dst] = val & ((1 << 64) - 1)
                    obs = {i: raw(i) for i in cells}
                    match = [a for a in alts if a == obs]
                    cells = match[0] if match else alts[0]
                    for i in cells:
                        got = obs[i]
                        res.case(["hash-run", case["stmts"], i, cells[i]])
                        if got is None or got != cells[i]:
                            res.violation(
                                hash_run_key(case, i, got, cells[i]),
                                f"after run {case['stmts']}: cell "
                                f"{case['vars'][i]} holds "
                                f"{got if got is None else hex(got)}, "
                                f"model {cells[i]:#x}",
                                case=dict(kind="hash", **case),
                                witness=dict(disasm=ebpfvm.disasm(ld.code)))
                            return mon
            # a second instance of the same program class is created and
            # loaded while this one is alive (one per interface): it has its
            # own cells, this one's keep their values
            if case["ops"] and len(str(case["vars"])) % 2 == 0:
                try:
                    e2 = type(e)()
                    ld2 = prog.Loaded(e2, sess)
                    ld2.load()
                    ld2.run_k(bytes(64))
                    res.count("hash_second_instances_of_the_class")
                    for i in cells:
                        got = raw(i)
                        if got != cells[i]:
                            res.violation(
                                "unexplained:hash-instances-share-cells",
                                f"after a second instance of the program "
                                f"class was loaded and run, cell "
                                f"{case['vars'][i]} of the first holds "
                                f"{got if got is None else hex(got)}, was "
                                f"{cells[i]:#x}",
                                case=dict(kind="hash", **case))
                            return mon
                    ld2.close()
                except (OSError, AssembleError):
                    res.count("hash_second_instance_failed")
            # the same object is loaded a second time (a restart after
            # close(), a reload): every variable holds its default again
            if case["ops"] and sum(map(len, map(str, case["vars"]))) % 3 == 0:
                try:
                    e.load()
                except OSError as ex:
                    res.violation("unexplained:hash-reload",
                                  f"second load() failed: {str(ex)[-120:]}",
                                  case=dict(kind="hash", **case))
                    return mon
                res.count("hash_programs_loaded_a_second_time")
                for i, (n, f, d) in enumerate(case["vars"]):
                    got = raw(i)
                    py = getattr(e, n)
                    if got is None or sx(got, f) != sx(d, f) or \
                            sx(py & ((1 << 64) - 1), f) != sx(d, f):
                        res.violation(
                            "unexplained:hash-default-after-reload",
                            f"{n} ({f}) default {d}: after loading the "
                            f"object a second time the kernel holds {got}, "
                            f"Python reads {py}",
                            case=dict(kind="hash", **case))
                        return mon
            if len(res.samples) < 2:
                res.sample(dict(kind="hash", **case))
        finally:
            if mon:
                mon.__exit__()
            ld.close()
    return mon


def hash_load_key(case, log):
    if "invalid read from stack" in log and any(
            k == "local" and struct.calcsize(f) < 8
            for _, k, f, _, _ in case.get("mixed") or []):
        return "unexplained:hash-load-narrow-stack-variable-copied-as-8-bytes"
    return "unexplained:hash-load"


def hash_run_key(case, i, got, want):
    return "unexplained:hash-run"


# ---------------------------------------------------------------------------
# (b) Dict
# ---------------------------------------------------------------------------

def gen_struct(rng, nmax):
    fmts = [rng.choice(FM) for _ in range(rng.randint(1, nmax))]
    fmts.sort(key=lambda f: -struct.calcsize(f))    # packed, aligned
    return fmts


def layout(fmts):
    off = 0
    out = []
    for f in fmts:
        out.append((off, f))
        off += struct.calcsize(f)
    return out, off


def pack_struct(fmts, vals):
    lay, size = layout(fmts)
    b = bytearray(size)
    for (off, f), v in zip(lay, vals):
        struct.pack_into("<" + f, b, off, sx(v, f))
    return bytes(b)


def gen_dict_case(rng):
    kf = gen_struct(rng, 3)
    vf = gen_struct(rng, 5)
    nkeys = rng.randint(2, 5)
    keys = [[sx(rng.getrandbits(64), f) for f in kf] for _ in range(nkeys)]
    if rng.random() < 0.35:
        keys[0] = [0] * len(kf)       # the key whose bytes are all zero
    ops = []
    for _ in range(rng.randint(10, 40)):
        k = rng.randrange(nkeys)
        r = rng.random()
        val = [sx(rng.getrandbits(64), f) for f in vf]
        if r < 0.15:
            ops.append(["py_set", k, val])
        elif r < 0.27:
            ops.append(["py_get", k])
        elif r < 0.34:
            ops.append(["py_del", k])
        elif r < 0.42:
            ops.append(["py_pop", k, rng.random() < 0.5])
        elif r < 0.48:
            ops.append(["py_iter"])
        elif r < 0.52:
            ops.append(["py_values"])
        elif r < 0.7:
            ops.append(["bpf_update", k, val,
                        rng.choice(["ANY", "ANY", "NOEXIST", "EXIST"])])
        elif r < 0.8:
            ops.append(["bpf_lookup", k])
        elif r < 0.88:
            ops.append(["bpf_upsert", k, val])
        else:
            m = rng.randrange(len(vf))
            ops.append(["bpf_modify", k, m, sx(rng.getrandbits(64), vf[m]),
                        rng.choice(["set", "iadd"])])
    extra = None
    if rng.random() < 0.5:
        # other stack users between filling d.value and d.update(): a second
        # Dict, a hash-map variable store, a stack variable declared later
        vf2 = gen_struct(rng, 4)
        extra = dict(vf2=vf2, vals2=[sx(rng.choice(
            [rng.getrandbits(64), 0x80000000, 0xffffffff, 0x90000000,
             0xdeadbeef, 0x100000000]), f) for f in vf2],
                     lfmt=rng.choice("BHIQ"), lval=rng.getrandbits(8) | 1,
                     key2=rng.getrandbits(31))
        for _ in range(rng.randint(1, 4)):
            ops.insert(rng.randint(0, len(ops)),
                       ["bpf_touch", rng.randrange(nkeys),
                        sx(rng.getrandbits(64), "q")])
    return dict(kf=kf, vf=vf, keys=keys, ops=ops, lru=rng.random() < 0.3,
                extra=extra,
                # key / value structures that derive from a base structure
                # holding their first members; the base may have been used
                # (instantiated) before
                derived=rng.choice([None, None, "plain", "base-used"]))


def build_dict(case):
    kf, vf = case["kf"], case["vf"]
    def struct_(name, letter, fmts):
        if not case.get("derived") or len(fmts) < 2:
            return type(name, (Structure,),
                        {f"{letter}{i}": Member(f)
                         for i, f in enumerate(fmts)})
        h = (len(fmts) + 1) // 2
        Base = type(name + "Base", (Structure,),
                    {f"{letter}{i}": Member(f)
                     for i, f in enumerate(fmts[:h])})
        if case["derived"] == "base-used":
            Base()
        return type(name, (Base,),
                    {f"{letter}{i}": Member(f)
                     for i, f in enumerate(fmts) if i >= h})
    Key = struct_("Key", "k", kf)
    Value = struct_("Value", "v", vf)
    m = ArrayMap()
    ns = {"license": "GPL", "m": m, "op": m.globalVar("I"),
          "flags": m.globalVar("I"), "midx": m.globalVar("I"),
          "found": m.globalVar("B"), "missed": m.globalVar("B"),
          "rc": m.globalVar("q"),
          "d": Dict(key=Key, value=Value, size=16, lru=case["lru"])}
    for i, f in enumerate(kf):
        ns[f"ik{i}"] = m.globalVar(f)
    for i, f in enumerate(vf):
        ns[f"iv{i}"] = m.globalVar(f)
        ns[f"ov{i}"] = m.globalVar(f)
    ns["newval"] = m.globalVar("q")
    extra = case.get("extra")
    if extra:
        from ebpfcat.ebpf import LocalVar
        Key2 = type("Key2", (Structure,), {"k": Member("I")})
        Value2 = type("Value2", (Structure,),
                      {f"w{i}": Member(f)
                       for i, f in enumerate(extra["vf2"])})
        ns["d2"] = Dict(key=Key2, value=Value2, size=8)
        ns["hm"] = HashMap()
        ns["hv"] = ns["hm"].globalVar("Q", 100)
        ns["lv"] = LocalVar(extra["lfmt"])
        ns["lvout"] = m.globalVar("Q")
        ns["hnew"] = ns["hm"].globalVar("q", 0)
        ns["tstamp"] = m.globalVar("Q")
        ns["noise"] = m.globalVar("I")

    def program(self):
        e = self
        for i in range(len(kf)):
            setattr(e.d.key, f"k{i}", getattr(e, f"ik{i}"))
        # count-or-insert, the classic use of a table: look the entry up,
        # read (and count in) the entry found, else fill the value buffer and
        # insert; members are touched through the entry first, through the
        # buffer afterwards
        with e.op == 6:
            with e.d.lookup() as (value, Else):
                e.found = 1
                e.ov0 = value.v0
                if vf[0] in "iIqQ":
                    value.v0 += 1
            with Else:
                e.missed = 1
                for i in range(len(vf)):
                    setattr(e.d.value, f"v{i}", getattr(e, f"iv{i}"))
                e.d.update()
            e.r0 = 2
            e.exit()
        for flagname, opno in (("ANY", 1), ("NOEXIST", 2), ("EXIST", 3)):
            with e.op == opno:
                for i in range(len(vf)):
                    setattr(e.d.value, f"v{i}", getattr(e, f"iv{i}"))
                if extra:
                    e.lv = extra["lval"]
                    e.hv = e.hv + 1
                    e.d2.key.k = extra["key2"]
                    for i, v in enumerate(extra["vals2"]):
                        setattr(e.d2.value, f"w{i}", v)
                e.d.update(UpdateFlags[flagname])
                e.rc = e.sr0
                if extra:
                    e.d2.update()
                    e.lvout = e.lv
                e.r0 = 2
                e.exit()
        with e.op == 4:
            with e.d.lookup() as (value, Else):
                e.found = 1
                for i in range(len(vf)):
                    setattr(e, f"ov{i}", getattr(value, f"v{i}"))
            with Else:
                e.missed = 1
            e.r0 = 2
            e.exit()
        if extra:
            # helper calls and a hash-map variable read while the looked-up
            # entry is held
            from ebpfcat.ebpf import ktime, prandom
            with e.op == 5:
                with e.d.lookup() as (value, Else):
                    e.found = 1
                    e.tstamp = ktime(e)
                    e.noise = prandom(e) & 0xff
                    setattr(value, "v0", e.hnew)
                with Else:
                    e.missed = 1
                e.r0 = 2
                e.exit()
        for mi in range(len(vf)):
            for how, opno in (("set", 10), ("iadd", 30)):
                if how == "iadd" and vf[mi] not in "iIqQ":
                    continue
                with e.op == opno + mi:
                    with e.d.lookup() as (value, Else):
                        e.found = 1
                        if how == "set":
                            setattr(value, f"v{mi}", e.newval)
                        else:
                            cur = getattr(value, f"v{mi}")
                            cur += e.newval
                            setattr(value, f"v{mi}", cur)
                    with Else:
                        e.missed = 1
                    e.r0 = 2
                    e.exit()
        e.r0 = 2
        e.exit()
    ns["program"] = program
    e = type("VfDict", (XDP,), ns)()
    return e, Key, Value


def check_dict(case, res, monitor=False):
    kf, vf = case["kf"], case["vf"]
    (klay, ksize), (vlay, vsize) = layout(kf), layout(vf)
    desc = dict(kind="dict", kf=kf, vf=vf, lru=case["lru"])
    with kern.session() as sess:
        res.count("dict_configurations")
        if case.get("derived"):
            res.count("dict_configurations_with_derived_structures["
                      + case["derived"] + "]")
        try:
            e, Key, Value = build_dict(case)
            ld = prog.Loaded(e, sess)
        except AssembleError as ex:
            res.count("dict_assemble_error")
            res.violation("unexplained:dict-assemble",
                          f"Dict program cannot be generated: {ex}",
                          case=desc)
            return None
        except (AttributeError, KeyError, TypeError, IndexError) as ex:
            res.violation("unexplained:dict-program-construction-raised",
                          f"creating / generating a well-formed Dict program "
                          f"raised {type(ex).__name__}: {ex}", case=desc)
            return None
        mon = sysmon.Monitor(sess) if monitor else None
        try:
            if mon:
                mon.__enter__()
            try:
                ld.load()
            except OSError as ex:
                res.count("dict_load_failed")
                res.violation("unexplained:dict-load",
                              f"Dict program rejected: {str(ex)[-400:]}",
                              case=desc,
                              witness=dict(disasm=ebpfvm.disasm(ld.code)))
                return mon
            if Key.stack != ksize or Value.stack != vsize:
                res.violation("unexplained:dict-struct-size",
                              f"Key.stack={Key.stack} vs {ksize}, "
                              f"Value.stack={Value.stack} vs {vsize}",
                              case=desc)
                return mon
            fd = e.d.fd
            model = {}
            nup = [0]
            mm = e.__dict__["m"]

            def mk_key(k):
                o = Key()
                for i, v in enumerate(case["keys"][k]):
                    setattr(o, f"k{i}", v)
                return o

            def mk_val(vals):
                o = Value()
                for i, v in enumerate(vals):
                    setattr(o, f"v{i}", v)
                return o

            def valtuple(o):
                return [getattr(o, f"v{i}") for i in range(len(vf))]

            def bpf_inputs(k, vals=None, **kw):
                mm[:] = bytes(len(mm))
                for i, v in enumerate(case["keys"][k]):
                    setattr(e, f"ik{i}", v)
                if vals:
                    for i, v in enumerate(vals):
                        setattr(e, f"iv{i}", v)
                for n, v in kw.items():
                    setattr(e, n, v)

            def fail(key, msg, op):
                res.violation(key, f"{msg} (op {op}, key fmts {kf}, value "
                              f"fmts {vf})", case=dict(desc, op=op,
                                                       ops=case["ops"],
                                                       keys=case["keys"]))

            for op in case["ops"]:
                res.case([desc, op])
                res.count("dict_op[" + op[0] + "]")
                kb = pack_struct(kf, case["keys"][op[1]]) \
                    if len(op) > 1 else None
                if op[0] == "py_set":
                    e.d[mk_key(op[1])] = mk_val(op[2])
                    model[kb] = pack_struct(vf, op[2])
                elif op[0] == "py_get":
                    try:
                        got = valtuple(e.d[mk_key(op[1])])
                    except KeyError:
                        got = None
                    want = None if kb not in model else [
                        struct.unpack_from("<" + f, model[kb], off)[0]
                        for off, f in vlay]
                    if got != want:
                        return fail("unexplained:dict-py-get",
                                    f"d[k] gave {got}, model {want}", op) \
                            or mon
                elif op[0] == "py_del":
                    try:
                        del e.d[mk_key(op[1])]
                        ok = True
                    except KeyError:
                        ok = False
                    if ok != (kb in model):
                        return fail("unexplained:dict-py-del",
                                    f"del raised={not ok}, model has key="
                                    f"{kb in model}", op) or mon
                    model.pop(kb, None)
                elif op[0] == "py_pop":
                    marker = object()
                    try:
                        got = e.d.pop(mk_key(op[1]), marker) if op[2] \
                            else e.d.pop(mk_key(op[1]))
                    except KeyError:
                        got = KeyError
                    if kb in model:
                        want = [struct.unpack_from("<" + f, model[kb], off)[0]
                                for off, f in vlay]
                        if got in (marker, KeyError) or \
                                valtuple(got) != want:
                            return fail("unexplained:dict-py-pop",
                                        f"pop gave {got}, model {want}",
                                        op) or mon
                        del model[kb]
                    elif got is not (marker if op[2] else KeyError):
                        return fail("unexplained:dict-py-pop",
                                    f"pop of absent key gave {got}", op) \
                            or mon
                elif op[0] == "py_iter":
                    if not model:
                        continue     # iteration of an empty map: see C10
                    try:
                        # the keys are kept beyond the iteration step that
                        # produced them (list(table), sorted(table), ...)
                        keys = list(e.d)
                        got = sorted(bytes(k.data) for k in keys)
                        if len(keys) >= 2:
                            res.count("py_iterations_keeping_the_keys")
                        items = list(e.d.items())
                        got_items = {bytes(k.data): bytes(v.data)
                                     for k, v in items}
                    except Exception as ex:
                        return fail("unexplained:dict-py-iter",
                                    f"iteration raised {ex!r}", op) or mon
                    if got != sorted(model):
                        return fail("unexplained:dict-py-iter",
                                    f"keys {got} vs model {sorted(model)}",
                                    op) or mon
                    if got_items != model:
                        return fail("unexplained:dict-py-iter",
                                    f"items() gave {got_items} vs model "
                                    f"{model}", op) or mon
                elif op[0] == "py_values":
                    if not model:
                        continue
                    try:
                        vals = list(e.d.values())
                        got = sorted(bytes(v.data) for v in vals)
                    except Exception as ex:
                        return fail("unexplained:dict-py-values",
                                    f"values() raised {ex!r}", op) or mon
                    if got != sorted(model.values()):
                        return fail("unexplained:dict-py-values",
                                    "values differ from model", op) or mon
                elif op[0] == "bpf_update":
                    bpf_inputs(op[1], op[2],
                               op={"ANY": 1, "NOEXIST": 2, "EXIST": 3}[op[3]])
                    ld.run_k(bytes(64))
                    rc = e.rc
                    exists = kb in model
                    if op[3] == "NOEXIST" and exists:
                        want_rc = -17
                    elif op[3] == "EXIST" and not exists:
                        want_rc = -2
                    else:
                        want_rc = 0
                        model[kb] = pack_struct(vf, op[2])
                    if rc != want_rc:
                        return fail("unexplained:dict-bpf-update-rc",
                                    f"update({op[3]}) returned {rc}, "
                                    f"model {want_rc}", op) or mon
                    ex = case.get("extra")
                    if ex:
                        res.count("dict_update_with_other_stack_users")
                        nup[0] += 1
                        v2size = layout(ex["vf2"])[1]
                        d2 = kern.map_dump(e.d2.fd, 4, v2size)
                        want2 = {struct.pack("<I", ex["key2"]):
                                 pack_struct(ex["vf2"], ex["vals2"])}
                        if d2 != want2:
                            return fail(
                                "unexplained:dict-second-dict-entry",
                                f"second Dict holds "
                                f"{ {k.hex(): v.hex() for k, v in d2.items()} }"
                                f", the program stored "
                                f"{ {k.hex(): v.hex() for k, v in want2.items()} }",
                                op) or mon
                        if e.lvout != ex["lval"]:
                            return fail(
                                "unexplained:dict-stack-variable-clobbered",
                                f"stack variable reads {e.lvout:#x} after "
                                f"the updates, was set to {ex['lval']:#x}",
                                op) or mon
                        if e.hv != 100 + nup[0]:
                            return fail(
                                "unexplained:dict-hash-variable",
                                f"hash variable reads {e.hv} after "
                                f"{nup[0]} increments from 100", op) or mon
                elif op[0] == "bpf_lookup":
                    bpf_inputs(op[1], op=4)
                    ld.run_k(bytes(64))
                    found, missed = e.found, e.missed
                    if (found, missed) != ((1, 0) if kb in model else (0, 1)):
                        return fail("unexplained:dict-bpf-lookup-branch",
                                    f"found={found} missed={missed}, model "
                                    f"has key={kb in model}", op) or mon
                    if kb in model:
                        got = [getattr(e, f"ov{i}") for i in range(len(vf))]
                        want = [struct.unpack_from("<" + f, model[kb],
                                                   off)[0] for off, f in vlay]
                        if got != want:
                            return fail("unexplained:dict-bpf-lookup-value",
                                        f"program read {got}, model {want}",
                                        op) or mon
                elif op[0] == "bpf_upsert":
                    bpf_inputs(op[1], op[2], op=6)
                    ld.run_k(bytes(64))
                    res.count("dict_count_or_insert")
                    if (e.found, e.missed) != ((1, 0) if kb in model
                                               else (0, 1)):
                        return fail("unexplained:dict-bpf-lookup-branch",
                                    "count-or-insert: wrong branch",
                                    op) or mon
                    if kb in model:
                        b = bytearray(model[kb])
                        cur = struct.unpack_from("<" + vf[0], b,
                                                 vlay[0][0])[0]
                        if e.ov0 != cur:
                            return fail("unexplained:dict-bpf-lookup-value",
                                        f"count-or-insert read {e.ov0}, "
                                        f"model {cur}", op) or mon
                        if vf[0] in "iIqQ":
                            struct.pack_into("<" + vf[0], b, vlay[0][0],
                                             sx(cur + 1, vf[0]))
                        model[kb] = bytes(b)
                    else:
                        model[kb] = pack_struct(vf, op[2])
                elif op[0] == "bpf_touch":
                    bpf_inputs(op[1], op=5)
                    e.hnew = op[2]
                    ld.run_k(bytes(64))
                    res.count("dict_touch_with_calls_and_hash_read")
                    if (e.found, e.missed) != ((1, 0) if kb in model
                                               else (0, 1)):
                        return fail("unexplained:dict-bpf-lookup-branch",
                                    "touch: wrong branch", op) or mon
                    if e.hnew != op[2]:
                        return fail(
                            "unexplained:dict-hash-variable",
                            f"hash variable reads {e.hnew} after the "
                            f"program only read it (Python wrote {op[2]})",
                            op) or mon
                    if kb in model:
                        b = bytearray(model[kb])
                        struct.pack_into("<" + vf[0], b, vlay[0][0],
                                         sx(op[2], vf[0]))
                        model[kb] = bytes(b)
                elif op[0] == "bpf_modify":
                    mi, how = op[2], op[4]
                    f = vf[mi]
                    if how == "iadd" and f not in "iIqQ":
                        how = "set"
                    bpf_inputs(op[1], op=(10 if how == "set" else 30) + mi,
                               newval=sx(op[3], "q"))
                    ld.run_k(bytes(64))
                    if (e.found, e.missed) != ((1, 0) if kb in model
                                               else (0, 1)):
                        return fail("unexplained:dict-bpf-lookup-branch",
                                    "modify: wrong branch", op) or mon
                    if kb in model:
                        b = bytearray(model[kb])
                        off = vlay[mi][0]
                        cur = struct.unpack_from("<" + f, b, off)[0]
                        new = sx(op[3], "q") if how == "set" \
                            else cur + sx(op[3], "q")
                        struct.pack_into("<" + f, b, off, sx(new, f))
                        model[kb] = bytes(b)
                # raw cross-check with the harness's own syscalls
                dump = kern.map_dump(fd, ksize, vsize)
                if dump != model:
                    return fail("unexplained:dict-raw-contents",
                                f"kernel holds {len(dump)} entries "
                                f"{ {k.hex(): v.hex() for k, v in dump.items()} }"
                                f" model { {k.hex(): v.hex() for k, v in model.items()} }",
                                op) or mon
            if len(res.samples) < 3:
                res.sample(dict(desc, ops=case["ops"][:8]))
        finally:
            if mon:
                mon.__exit__()
            ld.close()
    return mon


def sign_leg(res, rng, n):
    """the program uses hash-map variables where their signedness matters
    (ordering comparisons, right shifts): it must see the value Python and
    the map hold - a negative default, a negative value written by Python,
    one the program stored itself"""
    for _ in range(n):
        fmt = rng.choice("bhiqBHIQ")
        size = struct.calcsize(fmt)
        dflt = sx(rng.choice([rng.getrandbits(64), -1, -5,
                              1 << (8 * size - 1)]), fmt)
        h = HashMap()
        m = ArrayMap()
        ns = {"license": "GPL", "h": h, "m": m,
              "hv": h.globalVar(fmt, dflt), "hw": h.globalVar(fmt, 0),
              "inp": m.globalVar("q"), "neg": m.globalVar("B"),
              "big": m.globalVar("B"), "half": m.globalVar("q"),
              "neg2": m.globalVar("B"), "mode": m.globalVar("B")}

        def program(self):
            e = self
            with e.mode == 1:
                e.hw = e.inp            # the program stores the value
            with e.hv < 0:
                e.neg = 1
            with e.hv > 5:
                e.big = 1
            e.half = e.hv >> 1
            with e.hw < 0:
                e.neg2 = 1
            e.r0 = 2
            e.exit()
        ns["program"] = program
        desc = dict(sign_leg=True, fmt=fmt, default=dflt)
        with kern.session() as sess:
            try:
                e = type("VfSign", (XDP,), ns)()
                ld = prog.Loaded(e, sess)
                ld.load()
            except (OSError, AssembleError):
                res.count("sign_leg_not_loaded")
                continue
            try:
                for step in range(3):
                    if step == 1:
                        v = sx(rng.choice([rng.getrandbits(64), -1, -2]),
                               fmt)
                        e.hv = v
                    elif step == 2:
                        v = e.hv
                    else:
                        v = dflt
                    w_ = sx(rng.choice([rng.getrandbits(64), -10, -1]), fmt)
                    e.inp = sx(w_, "q")
                    e.mode = 1
                    e.neg = e.big = e.neg2 = 0
                    ld.run_k(bytes(64))
                    want = (1 if v < 0 else 0, 1 if v > 5 else 0,
                            v >> 1, 1 if w_ < 0 else 0)
                    got = (e.neg, e.big, e.half, e.neg2)
                    res.case([desc, step, v, w_], nontrivial=True)
                    res.count("sign_leg_runs")
                    if v < 0 or w_ < 0:
                        res.count("sign_leg_runs_with_a_negative_value")
                    if got != want:
                        res.violation(
                            "unexplained:hash-variable-signedness",
                            f"hash variable ({fmt}) holds {v} (Python reads "
                            f"{e.hv}), stored by the program {w_}: program "
                            f"sees (negative, > 5, >> 1, stored negative) = "
                            f"{got}, expected {want}", case=desc)
                        break
            finally:
                ld.close()


def order_leg(res, rng, n):
    """value structures whose members carry explicit byte orders (network
    headers kept in a table): the program copies one member of the entry
    found into another - directly, or through the Dict's staging value and
    update() - and Python reads the entry back.  The values fit both
    members."""
    for _ in range(n):
        letters = [rng.choice(FM) for _ in range(rng.randint(2, 5))]
        letters.sort(key=lambda f: -struct.calcsize(f))
        fmts = [rng.choice(["", "<", ">", "!", ">", "!"]) + f
                for f in letters]
        pairs = []
        for _ in range(4):
            a, b = rng.sample(range(len(fmts)), 2)
            pairs.append((a, b, rng.choice(["entry", "staged"])))
        Key = type("OKey", (Structure,), {"k0": Member("I")})
        Value = type("OValue", (Structure,),
                     {f"v{i}": Member(f) for i, f in enumerate(fmts)})
        m = ArrayMap()
        ns = {"license": "GPL", "m": m, "op": m.globalVar("I"),
              "found": m.globalVar("B"),
              "d": Dict(key=Key, value=Value, size=8)}

        def program(self):
            e = self
            e.d.key.k0 = 5
            for j, (a, b, how) in enumerate(pairs):
                with e.op == j + 1:
                    with e.d.lookup() as (value, Else):
                        e.found = 1
                        if how == "entry":
                            setattr(value, f"v{b}", getattr(value, f"v{a}"))
                        else:
                            for i in range(len(fmts)):
                                setattr(e.d.value, f"v{i}",
                                        getattr(value, f"v{a if i == b else i}"))
                            e.d.update()
                    e.r0 = 2
                    e.exit()
            e.r0 = 2
            e.exit()
        ns["program"] = program
        desc = dict(order_leg=True, fmts=fmts, pairs=pairs)
        with kern.session() as sess:
            try:
                e = type("VfOrder", (XDP,), ns)()
                ld = prog.Loaded(e, sess)
                ld.load()
            except (OSError, AssembleError) as ex:
                res.violation("unexplained:byte-order-members-not-loaded",
                              f"{type(ex).__name__}: {str(ex)[-300:]}",
                              case=desc)
                continue
            try:
                for j, (a, b, how) in enumerate(pairs):
                    def rng_of(f):
                        bits = 8 * struct.calcsize(f[-1])
                        return (-(1 << (bits - 1)), (1 << (bits - 1)) - 1) \
                            if f[-1].islower() else (0, (1 << bits) - 1)
                    vals = []
                    for i, f in enumerate(fmts):
                        lo, hi = rng_of(f)
                        if i == a:
                            lo2, hi2 = rng_of(fmts[b])
                            lo, hi = max(lo, lo2), min(hi, hi2)
                        vals.append(rng.choice([lo, hi, rng.randint(lo, hi),
                                                rng.randint(lo, hi), 0x50]
                                               if lo <= 0x50 <= hi else
                                               [lo, hi, rng.randint(lo, hi)]))
                    k = Key()
                    k.k0 = 5
                    v = Value()
                    for i, x in enumerate(vals):
                        setattr(v, f"v{i}", x)
                    e.d[k] = v
                    e.op = j + 1
                    e.found = 0
                    ld.run_k(bytes(64))
                    got_o = e.d[k]
                    got = [getattr(got_o, f"v{i}") for i in range(len(fmts))]
                    want = list(vals)
                    want[b] = vals[a]
                    res.case([desc, j, vals], nontrivial=True)
                    res.count("byte_order_member_copies")
                    res.count(f"byte_order_member_copies[{how}]")
                    if e.found != 1 or got != want:
                        res.violation(
                            "unexplained:byte-order-member-copy",
                            f"members {fmts} held {vals}; the program "
                            f"copied v{a} into v{b} ({how}); Python reads "
                            f"{got} (entry found: {e.found})", case=desc)
                        break
            finally:
                ld.close()


def interleave_leg(res, rng, n):
    """the program runs whenever it likes - also between two bpf() calls of
    one Python-side Dict operation.  The monitor sits on the library's bpf()
    wrapper: before every map command after the first one of a Python
    operation it runs the program once (a packet arriving just then).  The
    program counts into the entry (or inserts it with count 1), Python pops
    and reads entries; nothing the program counted may get lost: the counts
    popped plus the counts left in the map equal the number of runs."""
    import ebpfcat.bpf as bpfmod
    for _ in range(n):
        Key = type("IKey", (Structure,), {"k0": Member("I")})
        Value = type("IValue", (Structure,),
                     {"cnt": Member("Q"), "last": Member("Q")})
        m = ArrayMap()
        ns = {"license": "GPL", "m": m, "ik": m.globalVar("I"),
              "found": m.globalVar("I"), "missed": m.globalVar("I"),
              "d": Dict(key=Key, value=Value, size=8)}

        def program(self):
            e = self
            e.d.key.k0 = e.ik
            with e.d.lookup() as (value, Else):
                value.cnt += 1
                e.found += 1
            with Else:
                e.d.value.cnt = 1
                e.d.value.last = 0
                e.d.update()
                e.missed += 1
            e.r0 = 2
            e.exit()
        ns["program"] = program
        desc = dict(interleave_leg=True)
        with kern.session() as sess:
            try:
                e = type("VfInter", (XDP,), ns)()
                ld = prog.Loaded(e, sess)
                ld.load()
            except (OSError, AssembleError) as ex:
                res.violation("unexplained:interleave-leg-not-loaded",
                              f"{type(ex).__name__}: {str(ex)[-300:]}",
                              case=desc)
                continue
            st = dict(op=None, nsys=0, runs=0, injected=0, multi=0)
            orig = bpfmod.bpf

            def run_prog(k):
                e.ik = k
                ld.run_k(bytes(64))
                st["runs"] += 1

            def hooked(cmd, fmt, *args):
                if st["op"] is not None and cmd in (1, 2, 3, 21):
                    if st["nsys"] >= 1:
                        run_prog(st["op"])
                        st["injected"] += 1
                    st["nsys"] += 1
                return orig(cmd, fmt, *args)

            def key(k):
                o = Key()
                o.k0 = k
                return o
            keys = [rng.getrandbits(31) for _ in range(2)]
            log = []
            bpfmod.bpf = hooked
            try:
                total = 0
                for step in range(rng.randint(10, 30)):
                    for _ in range(rng.randint(0, 3)):
                        run_prog(rng.choice(keys))
                    k = rng.choice(keys)
                    op = rng.choice(["pop", "pop", "pop_default", "get"])
                    st["op"], st["nsys"] = k, 0
                    try:
                        if op == "pop":
                            try:
                                v = e.d.pop(key(k))
                            except KeyError:
                                v = None
                        elif op == "pop_default":
                            v = e.d.pop(key(k), None)
                        else:
                            try:
                                e.d[key(k)]
                            except KeyError:
                                pass
                            v = None
                    finally:
                        st["op"] = None
                    if st["nsys"] > 1:
                        st["multi"] += 1
                    res.count("interleave_python_operations")
                    if v is not None:
                        total += v.cnt
                        log.append((op, k, v.cnt))
                    else:
                        log.append((op, k, None))
                left = 0
                for k in keys:
                    try:
                        left += e.d[key(k)].cnt
                    except KeyError:
                        pass
            finally:
                bpfmod.bpf = orig
                ld.close()
            res.case([desc, log], nontrivial=True)
            res.count("interleave_program_runs", st["runs"])
            res.count("interleave_runs_between_two_calls_of_one_operation",
                      st["injected"])
            res.count("interleave_operations_issuing_several_map_commands",
                      st["multi"])
            if e.found + e.missed != st["runs"]:
                res.inconc("interleave leg: the program's own counters do "
                           "not add up to its runs")
                continue
            if total + left != st["runs"]:
                res.violation(
                    "unexplained:program-update-lost-inside-a-python-"
                    "operation",
                    f"the program ran {st['runs']} times ({st['injected']} "
                    f"of them between two map commands of one Python "
                    f"operation), each run counting 1 into its entry; the "
                    f"counts popped ({total}) and left in the map ({left}) "
                    f"add up to {total + left}", case=desc,
                    witness=log[-12:])


def fixed_hash_leg(res, rng, n):
    """hash-map variables of the fixed-point format: declared default,
    written by Python, copied / computed by the program, read by Python"""
    from decimal import Decimal

    def dec(rng_):
        return float(Decimal(rng_.randint(-10 ** 9, 10 ** 9)) / 100000)
    for _ in range(n):
        d0, d1 = rng.choice([0, 1, 1.5, -0.25, dec(rng)]), \
            rng.choice([0, 0, 2.5, dec(rng)])
        add = rng.choice([0.5, 1, -3, 0.29])
        h = HashMap()
        m = ArrayMap()
        ns = {"license": "GPL", "h": h, "m": m,
              "ha": h.globalVar("x", d0), "hb": h.globalVar("x", d1),
              "hq": h.globalVar("q", -7), "o": m.globalVar("x"),
              "mode": m.globalVar("B")}

        def program(self):
            e = self
            with e.mode == 1:
                e.hb = e.ha + add
            e.o = e.ha
            e.r0 = 2
            e.exit()
        ns["program"] = program
        desc = dict(fixed_hash_leg=True, defaults=[d0, d1], add=add)

        def near(a, b):
            return isinstance(a, (int, float)) and \
                round(a * 100000) == round(b * 100000)
        with kern.session() as sess:
            try:
                e = type("VfFixedHash", (XDP,), ns)()
                ld = prog.Loaded(e, sess)
                ld.load()
            except Exception as ex:
                res.case([desc, "load"], nontrivial=True)
                res.violation(
                    "unexplained:fixed-point-hash-variable",
                    f"a program with fixed-point hash-map variables "
                    f"(defaults {d0}, {d1}) cannot be loaded: "
                    f"{type(ex).__name__}: {str(ex)[-200:]}", case=desc)
                continue
            try:
                steps = []
                try:
                    steps.append("read the defaults")
                    got = (e.ha, e.hb, e.hq)
                    ok = near(got[0], d0) and near(got[1], d1) and \
                        got[2] == -7
                    if ok:
                        v = dec(rng)
                        steps.append(f"write {v}")
                        e.ha = v
                        got = (e.ha, e.hq)
                        ok = near(got[0], v) and got[1] == -7
                    if ok:
                        steps.append("run")
                        e.mode = 1
                        ld.run_k(bytes(64))
                        got = (e.o, e.hb, e.ha, e.hq)
                        ok = near(got[0], v) and near(got[1], v + add) \
                            and near(got[2], v) and got[3] == -7
                except Exception as ex:
                    got, ok = f"{type(ex).__name__}: {ex}", False
                res.case([desc, steps], nontrivial=True)
                res.count("fixed_point_hash_variable_sequences")
                if not ok:
                    res.violation(
                        "unexplained:fixed-point-hash-variable",
                        f"fixed-point hash-map variables with defaults "
                        f"{d0}, {d1} (program: hb = ha + {add}): after "
                        f"'{steps[-1]}' Python reads {got}", case=desc)
            finally:
                ld.close()


def lru_leg(res, rng, n):
    """an LRU Dict takes more keys than it has room for: whatever it
    forgets, the entry inserted last - by the program or by Python - is
    found by the other side with its values (plain Dicts are kept below
    capacity everywhere else)"""
    for _ in range(n):
        size = rng.choice([2, 4, 8])
        Key = type("LKey", (Structure,), {"k0": Member("I")})
        Value = type("LValue", (Structure,), {"v0": Member("Q"),
                                              "v1": Member("I")})
        m = ArrayMap()
        ns = {"license": "GPL", "m": m, "ik": m.globalVar("I"),
              "iv": m.globalVar("Q"), "rc": m.globalVar("q"),
              "d": Dict(key=Key, value=Value, size=size, lru=True)}

        def program(self):
            e = self
            e.d.key.k0 = e.ik
            e.d.value.v0 = e.iv
            e.d.value.v1 = 7
            e.d.update()
            e.rc = e.sr0
            e.r0 = 2
            e.exit()
        ns["program"] = program
        desc = dict(lru_leg=True, size=size)
        with kern.session() as sess:
            try:
                e = type("VfLru", (XDP,), ns)()
                ld = prog.Loaded(e, sess)
                ld.load()
            except (OSError, AssembleError) as ex:
                res.violation("unexplained:lru-dict-not-loaded",
                              f"{type(ex).__name__}: {str(ex)[-200:]}",
                              case=desc)
                continue
            try:
                for j in range(3 * size + 4):
                    k = Key()
                    k.k0 = 1000 + j
                    val = rng.getrandbits(63)
                    side = rng.choice(["program", "python"])
                    why = None
                    try:
                        if side == "program":
                            e.ik, e.iv = 1000 + j, val
                            ld.run_k(bytes(64))
                            if e.rc != 0:
                                why = f"update() left {e.rc} in r0"
                        else:
                            v = Value()
                            v.v0, v.v1 = val, 7
                            e.d[k] = v
                        if why is None:
                            got = e.d[k]
                            if (got.v0, got.v1) != (val, 7):
                                why = f"found with ({got.v0}, {got.v1})"
                    except (KeyError, IndexError, OSError) as ex:
                        why = f"{type(ex).__name__}: {ex}"
                    res.case([desc, j, side], nontrivial=j >= size)
                    res.count("lru_inserts")
                    if j >= size:
                        res.count("lru_inserts_into_a_full_dict")
                    if why:
                        res.violation(
                            "unexplained:lru-dict-loses-the-newest-entry",
                            f"LRU Dict of size {size}: distinct key number "
                            f"{j + 1} inserted by the {side} with "
                            f"({val}, 7): {why}", case=desc)
                        break
            finally:
                ld.close()


def run_shard(params):
    res = Result()
    rng = random.Random(params["seed"] * 100109 + params["shard"])
    sign_leg(res, random.Random(rng.getrandbits(32)), 6)
    lru_leg(res, random.Random(rng.getrandbits(32)),
            3 if params["nd"] <= 100 else 10)
    fixed_hash_leg(res, random.Random(rng.getrandbits(32)),
                   6 if params["nd"] <= 100 else 20)
    interleave_leg(res, random.Random(rng.getrandbits(32)),
                   6 if params["nd"] <= 100 else 20)
    order_leg(res, random.Random(rng.getrandbits(32)),
              6 if params["nd"] <= 100 else 20)
    for i in range(params["nh"]):
        case = gen_hash_case(rng)
        try:
            check_hash(case, res)
        except OSError as ex:
            res.violation("unexplained:hash-workload-raised",
                          f"a map operation of the workload failed with "
                          f"{ex!r}", case=case.get("vars"))
    for i in range(params["nd"]):
        case = gen_dict_case(rng)
        try:
            check_dict(case, res)
        except struct.error as ex:
            res.violation("unexplained:dict-structure-access-raised",
                          f"assigning in-range values to the members of a "
                          f"key / value structure raised {ex!r}",
                          case=dict(kf=case["kf"], vf=case["vf"],
                                    derived=case.get("derived")))
        except OSError as ex:
            res.violation("unexplained:dict-workload-raised",
                          f"a map operation of the workload failed with "
                          f"{ex!r}", case=dict(kf=case["kf"], vf=case["vf"],
                                               lru=case["lru"]))
    return res


def finalize(res, tier, seed):
    c = res.counters
    missing = [o for o in ("py_set", "py_get", "py_del", "py_pop", "py_iter",
                           "py_values", "bpf_update", "bpf_lookup",
                           "bpf_modify") if not c.get(f"dict_op[{o}]")]
    if missing:
        res.inconc(f"Dict operations never executed: {missing}")


def replay(v):
    res = Result()
    return res
