"""gate scheduler: participants run the real ParallelEtherCat.run() in their
own threads; every file-system / kernel operation they issue goes through a
proxy that (1) rewrites /run/lock, /run/ebpf, /sys/fs/bpf into a scratch root,
(2) parks the participant at a gate until the scheduler lets it go, (3)
records the effect.  Real files, real O_EXCL, real rename are used; only their
timing is controlled.  POSIX record locks (per process, hence useless between
threads) are modelled by a lock table with the same semantics.
"""
import asyncio
import builtins
import fcntl as real_fcntl
import os as real_os
import shutil as real_shutil
import tempfile as real_tempfile
import threading

from . import use_repo
use_repo()

import ebpfcat.ebpfcat as ecmod  # noqa: E402
import ebpfcat.lock as lockmod  # noqa: E402
from ebpfcat.ethercat import EtherCat  # noqa: E402
from ebpfcat.xdp import XDP  # noqa: E402


class Killed(BaseException):
    pass


class Sched:
    def __init__(self, root, schedule_fn):
        self.root = root
        self.cv = threading.Condition()
        self.waiting = {}        # pid -> (op description, enabled fn)
        self.go = None           # pid allowed to perform its op
        self.done = set()
        self.events = []         # (step, pid, op, detail)
        self.locks = {}          # (realpath, byte) -> pid
        self.schedule_fn = schedule_fn
        self.step = 0
        self.pids = {}           # thread ident -> pid
        self.attached = None
        self.killed = set()
        self.fail = {}
        self.holds = []

    # participant side ---------------------------------------------------
    def me(self):
        return self.pids.get(threading.get_ident())

    def gate(self, op, enabled=None):
        pid = self.me()
        if pid is None:
            return
        with self.cv:
            self.waiting[pid] = (op, enabled)
            self.cv.notify_all()
            while self.go != pid:
                self.cv.wait(20)
                if pid in self.killed:
                    raise Killed()
            self.go = None
            del self.waiting[pid]

    def record(self, op, detail=None):
        self.events.append((self.step, self.me(), op, detail))

    def finished(self, pid):
        with self.cv:
            self.done.add(pid)
            self.cv.notify_all()

    # scheduler side -----------------------------------------------------
    def run(self, npart, max_steps=400):
        trace = []
        with self.cv:
            while True:
                # wait until every live participant is parked or done
                ok = self.cv.wait_for(
                    lambda: all(p in self.waiting or p in self.done
                                for p in range(npart)) and self.go is None,
                    timeout=20)
                if not ok:
                    return trace, "stuck"
                enabled = [p for p in sorted(self.waiting)
                           if self.waiting[p][1] is None
                           or self.waiting[p][1]()]
                if not self.waiting:
                    return trace, "finished"
                if not enabled:
                    return trace, "deadlock"
                p = self.schedule_fn(trace, enabled)
                trace.append((p, tuple(enabled)))
                # participants parked at a ("hold",) gate wait voluntarily
                # (a long-running phase): switching away from them is not a
                # preemption
                self.holds.append(frozenset(
                    q for q in enabled if self.waiting[q][0] == ("hold",)))
                self.step += 1
                self.go = p
                self.cv.notify_all()
                if self.step > max_steps:
                    return trace, "too long"


class Proxies:
    """module-global replacements installed into ebpfcat.ebpfcat / lock"""

    def __init__(self, sched):
        self.s = sched
        root = sched.root

        def rw(path):
            path = str(path)
            for pre in ("/run/lock", "/run/ebpf", "/sys/fs/bpf"):
                if path.startswith(pre):
                    return root + path
            return path
        self.rw = rw
        s = sched

        PRE = ("/run/lock", "/run/ebpf", "/sys/fs/bpf")

        def generic(mod, name):
            """any other function of os / os.path: path arguments are
            redirected as well, and the call is a scheduling point when it
            touches the shared directories (code under test may use calls
            the harness has no special model for, e.g. listdir)"""
            f = getattr(mod, name)
            if not callable(f) or isinstance(f, type):
                return f

            def call(*a, **kw):
                touched = [x for x in a if isinstance(x, str)
                           and x.startswith(PRE)]
                if touched:
                    s.gate((name, touched[0]))
                a = [rw(x) if isinstance(x, str) else x for x in a]
                r = f(*a, **kw)
                if touched and name in ("listdir", "scandir"):
                    s.record(name, touched[0])
                return r
            return call

        class OSPath:
            def __getattr__(self_, name):
                return generic(real_os.path, name)

        class OS:
            path = OSPath()

            def __getattr__(self_, name):
                return generic(real_os, name)

            def makedirs(self_, path, **kw):
                s.gate(("makedirs", path))
                return real_os.makedirs(rw(path), **kw)

            def rename(self_, a, b):
                s.gate(("rename", b))
                try:
                    r = real_os.rename(rw(a), rw(b))
                except OSError:
                    s.record("rename-failed", b)
                    raise
                s.record("rename-ok", b)
                return r

            def remove(self_, path):
                s.gate(("remove", path))
                r = real_os.remove(rw(path))
                s.record("remove", path)
                return r

            def rmdir(self_, path):
                s.gate(("rmdir", path))
                try:
                    r = real_os.rmdir(rw(path))
                except OSError:
                    s.record("rmdir-failed", path)
                    raise
                s.record("rmdir-ok", path)
                return r

            def open(self_, path, flags, *a):
                s.gate(("os.open", path))
                return real_os.open(rw(path), flags, *a)

            def getpid(self_):
                return 1000 + (s.me() or 0)
        self.os = OS()

        class LockOS(OS):
            def close(self_, fd):
                try:
                    key = ("flock", real_os.fstat(fd).st_ino)
                    if s.locks.get(key) == s.me():
                        del s.locks[key]
                except OSError:
                    pass
                return real_os.close(fd)

            def pread(self_, fd, n, off):
                s.gate(("pread", off))
                return real_os.pread(fd, n, off)

            def pwrite(self_, fd, data, off):
                s.gate(("pwrite", off))
                return real_os.pwrite(fd, data, off)

            def write(self_, fd, data):
                s.gate(("write",))
                return real_os.write(fd, data)

            def ftruncate(self_, fd, n):
                s.gate(("ftruncate",))
                return real_os.ftruncate(fd, n)
        self.lock_os = LockOS()

        class Fcntl:
            LOCK_EX, LOCK_NB, LOCK_UN = (real_fcntl.LOCK_EX,
                                         real_fcntl.LOCK_NB,
                                         real_fcntl.LOCK_UN)

            def lockf(self_, fd, cmd, length=0, start=0, whence=0):
                key = (real_os.fstat(fd).st_ino, start if length else "all")
                me = s.me()
                if cmd & real_fcntl.LOCK_UN:
                    s.gate(("unlock", key))
                    if s.locks.get(key) == me:
                        del s.locks[key]
                    return
                if cmd & real_fcntl.LOCK_NB:
                    s.gate(("trylock", key))
                    if s.locks.get(key, me) != me:
                        raise BlockingIOError()
                    s.locks[key] = me
                    return
                s.gate(("lock", key),
                       enabled=lambda: s.locks.get(key, me) == me)
                s.locks[key] = me

            def flock(self_, fd, cmd):
                # BSD locks: a lock space of their own (they do not exclude
                # POSIX record locks), owned by the open file, released by
                # LOCK_UN (and by closing the file, which the participants
                # here do right after)
                key = ("flock", real_os.fstat(fd).st_ino)
                me = s.me()
                if cmd & real_fcntl.LOCK_UN:
                    s.gate(("funlock", key))
                    if s.locks.get(key) == me:
                        del s.locks[key]
                    return
                if cmd & real_fcntl.LOCK_NB:
                    s.gate(("tryflock", key))
                    if s.locks.get(key, me) != me:
                        raise BlockingIOError()
                    s.locks[key] = me
                    return
                s.gate(("flock", key),
                       enabled=lambda: s.locks.get(key, me) == me)
                s.locks[key] = me

            def __getattr__(self_, name):
                return getattr(real_fcntl, name)
        self.fcntl = Fcntl()

        class Tempfile:
            def mkdtemp(self_, dir=None):
                s.gate(("mkdtemp", dir))
                return real_tempfile.mkdtemp(dir=rw(dir))[len(root):]
        self.tempfile = Tempfile()

        class Shutil:
            def rmtree(self_, path):
                s.gate(("rmtree", path))
                r = real_shutil.rmtree(rw(path))
                s.record("rmtree", path)
                return r
        self.shutil = Shutil()

        def open_(path, mode="r", *a, **kw):
            s.gate(("open", path, mode))
            f = builtins.open(rw(path), mode, *a, **kw)
            if "x" in mode:
                s.record("lockfile", real_os.path.basename(path))
            return f
        self.open = open_

        def obj_pin(path, fd):
            s.gate(("obj_pin", path))
            p = rw(path)
            if real_os.path.exists(p):
                raise FileExistsError(17, "pin exists", path)
            with builtins.open(p, "w") as f:
                f.write(str(s.me()))
            s.record("pin", path)

        def obj_get(path):
            s.gate(("obj_get", path))
            p = rw(path)
            if not real_os.path.exists(p):
                s.record("get-missing", path)
                raise FileNotFoundError(2, "no such pin", path)
            s.record("get", path)
            return 900

        def create_map(*a, **kw):
            return 901
        self.obj_pin, self.obj_get, self.create_map = obj_pin, obj_get, \
            create_map

        async def sleep(t):
            s.gate(("sleep", t))
        self.sleep = sleep

    def install(self):
        self.saved = dict(
            os=ecmod.os, tempfile=ecmod.tempfile, shutil=ecmod.shutil,
            obj_pin=ecmod.obj_pin, obj_get=ecmod.obj_get,
            create_map=ecmod.create_map, sleep=ecmod.sleep,
            lock_os=lockmod.os, lock_fcntl=lockmod.fcntl,
            connect=EtherCat.connect, attach=XDP.attach, detach=XDP.detach,
            close=ecmod.EtherXDP.close if "close" in ecmod.EtherXDP.__dict__
            else None)
        s = self.s
        ecmod.os = self.os
        ecmod.tempfile = self.tempfile
        ecmod.shutil = self.shutil
        ecmod.obj_pin = self.obj_pin
        ecmod.obj_get = self.obj_get
        ecmod.create_map = self.create_map
        ecmod.sleep = self.sleep
        ecmod.open = self.open
        lockmod.os = self.lock_os
        lockmod.fcntl = self.fcntl

        async def connect(self_):
            self_.send_queue = asyncio.Queue()

        async def attach(self_, network, flags=None):
            s.gate(("attach",))
            s.attached = s.me()
            s.record("attach")

        async def detach(self_, network, flags=None):
            s.gate(("detach",))
            s.record("detach", s.attached)
            s.attached = None
        EtherCat.connect = connect
        XDP.attach = attach
        XDP.detach = detach
        ecmod.EtherXDP.close = lambda self_: None

    def uninstall(self):
        sv = self.saved
        ecmod.os, ecmod.tempfile, ecmod.shutil = sv["os"], sv["tempfile"], \
            sv["shutil"]
        ecmod.obj_pin, ecmod.obj_get = sv["obj_pin"], sv["obj_get"]
        ecmod.create_map, ecmod.sleep = sv["create_map"], sv["sleep"]
        if "open" in ecmod.__dict__:
            del ecmod.open
        lockmod.os, lockmod.fcntl = sv["lock_os"], sv["lock_fcntl"]
        EtherCat.connect = sv["connect"]
        XDP.attach, XDP.detach = sv["attach"], sv["detach"]
        if sv["close"] is None:
            if "close" in ecmod.EtherXDP.__dict__:
                del ecmod.EtherXDP.close
        else:
            ecmod.EtherXDP.close = sv["close"]
