"""C08 array-map variables read back the same on both sides"""
import random
import struct

from .. import ebpfvm, kern, prog
from ..core import Result
from .. import use_repo
use_repo()

from ebpfcat.arraymap import (  # noqa: E402
    ArrayGlobalVarDesc, ArrayMap, PerCPUArrayMap)
from ebpfcat.ebpf import AssembleError, SubProgram, fmtsize  # noqa: E402
from ebpfcat.xdp import XDP  # noqa: E402

PROPERTY = "C08"
LEVEL = "exploration"
RULE = ("seeded random declaration sets (1-12 variables, formats BHIQbhiq x "
        "and multi-element 3H 2I 5B 64I 2q) spread over a base class, a "
        "derived class (optionally overriding a name with another format; "
        "the map either re-exported in the derived class or only inherited) "
        "and 0-3 instances of 1-2 SubProgram classes sharing the map; after "
        "the real ArrayMap.init/collect the layout invariant (ranges of the "
        "descriptors that attribute lookup resolves are pairwise disjoint "
        "and inside the map) is checked, then distinct values are written "
        "from Python, copied to twins by the program in the kernel, re-read "
        "from Python, then written by the program and read from Python; "
        "per-CPU leg: random declarations incl. x, the process pinned to "
        "2-3 chosen CPUs in turn with CPU-specific inputs, every CPU's entry "
        "of every variable compared (own value where it ran, zero "
        "elsewhere), counter per CPU. "
        "a case = one configuration; non-trivial = >= 2 variables and the "
        "program ran")
ASSUMPTIONS = ["possible CPUs == os.cpu_count() on this machine (checked)"]
MIN_EVALUATIONS = {"quick": 300, "thorough": 8000}
SCALAR = ["B", "H", "I", "Q", "b", "h", "i", "q", "x"]
# scalars stored with an explicit byte order
ORDERED = [">h", "<h", "!i", ">i", "<i", ">H", "<I", ">q", "!Q", ">I"]


# formats of more than one character that still hold ONE value: byte strings
# (binary blobs, names) and a value followed by pad bytes
ONEVALUE = ["4s", "6s", "1s", "I4x", "H2x"]


def scalar(f):
    return len(f) == 1 or f in ORDERED


MULTI = ["3H", "4I", "8Q", "6B", "2I", "5B", "64I", "2q", "IH", "QI", "Ib",
         "QB", "HB",
         # elements that grow: native packing puts padding between them
         "BQ", "HI", "BH", "BI", "HQ", "IQ", "BHI", "bq"]


def plan(tier, seed):
    if tier == "quick":
        return [dict(seed=seed, shard=i, n=250) for i in range(16)]
    return [dict(seed=seed, shard=i, n=600) for i in range(32)]


def gen_case(rng):
    def decls(prefix, lo, hi):
        return [[f"{prefix}{i}", rng.choice(SCALAR * 3 + MULTI + ORDERED
                                            + ONEVALUE)]
                for i in range(rng.randint(lo, hi))]
    base = decls("b", 0, 4)
    derived = decls("d", 1, 5)
    override = None
    if base and rng.random() < 0.35:
        name, fmt = rng.choice(base)
        new = rng.choice([f for f in SCALAR if f != fmt])
        override = [name, new]
    subcls = [decls(f"s{j}_", 1, 3) for j in range(rng.randint(0, 2))]
    insts = [rng.randrange(len(subcls)) for _ in range(
        rng.randint(1, 3))] if subcls else []
    return dict(base=base, derived=derived, override=override,
                subcls=subcls, insts=insts,
                inherit_only=rng.random() < 0.25,
                valseed=rng.getrandbits(32))


def value_for(rng, fmt):
    if fmt.endswith("s"):
        n = int(fmt[:-1])
        v = bytes(rng.getrandbits(8) for _ in range(n))
        return v[:-1] + b"\0" if rng.random() < 0.3 else v
    if fmt.endswith("x") and len(fmt) > 1:
        return value_for(rng, fmt[0])
    if fmt == "x":
        return rng.randint(-10 ** 9, 10 ** 9) / 100000
    if fmt in ORDERED:
        fmt = fmt[-1]
    if len(fmt) > 1 and not fmt[0].isdigit():
        # mixed-width tuple formats such as "IH"
        return tuple(value_for(rng, ch) for ch in fmt)
    letter = fmt[-1]
    n = int(fmt[:-1]) if len(fmt) > 1 else 1
    size = struct.calcsize(letter)
    vals = []
    for _ in range(n):
        v = rng.getrandbits(8 * size)
        if rng.random() < 0.3:
            # the 32-bit immediate boundaries
            v = rng.choice([0x80000000, 0xffffffff, 0x7fffffff, 0x90000000,
                            0x100000000, 0xdeadbeef, 1, 0]) \
                & ((1 << (8 * size)) - 1)
        if letter.islower() and v >> (8 * size - 1):
            v -= 1 << (8 * size)
        vals.append(v)
    return vals[0] if n == 1 else tuple(vals)


def twin_fmt(fmt):
    return fmt


def build(case, **ctor):
    m = ArrayMap()
    bns = {"license": "GPL", "m": m, "mode": m.globalVar("B")}
    crng = random.Random(case["valseed"] ^ 0x5a5a)
    consts = {n: value_for(crng, f) for n, f in visible_vars(case)
              if scalar(f)}
    for n, f in case["base"]:
        bns[n] = m.globalVar(f)
        if scalar(f):
            bns["t_" + n] = m.globalVar(f)
            if f != "x":
                bns["w_" + n] = m.globalVar("q")
    Base = type("VfBase", (XDP,), bns)
    dns = {}
    if not case["inherit_only"]:
        dns["m"] = m
    for n, f in case["derived"]:
        dns[n] = m.globalVar(f)
        if scalar(f):
            dns["t_" + n] = m.globalVar(f)
            if f != "x":
                dns["w_" + n] = m.globalVar("q")
    if case["override"]:
        n, f = case["override"]
        dns[n] = m.globalVar(f)
        dns["t_" + n] = m.globalVar(f)
        if f != "x":
            dns["w_" + n] = m.globalVar("q")
    subclasses = []
    for j, dl in enumerate(case["subcls"]):
        sns = {}
        for n, f in dl:
            sns[n] = m.globalVar(f)
            if scalar(f):
                sns["t_" + n] = m.globalVar(f)

        def sprogram(self, dl=dl):
            for n, f in dl:
                if scalar(f):
                    setattr(self, "t_" + n, getattr(self, n))
        sns["program"] = sprogram
        subclasses.append(type(f"VfSub{j}", (SubProgram,), sns))
    subs = [subclasses[k]() for k in case["insts"]]

    def program(self):
        with self.mode == 1:
            # compile-time constants stored by the program
            for n, f in visible_vars(case):
                if scalar(f):
                    setattr(self, n, consts[n])
            self.r0 = 2
            self.exit()
        # element access into tables the way the dispatcher does it: take
        # the variable's address, move the pointer, store through it
        for n, f in visible_vars(case):
            el = table_element(n, f)
            if el is not None:
                k, size, marker = el
                with getattr(self, n).get_address(None, False, False) \
                        as (dst, _):
                    self.r[dst] += size * k
                    {1: self.mB, 2: self.mH, 4: self.mI,
                     8: self.mQ}[size][self.r[dst]] = marker
        for n, f in visible_vars(case):
            if scalar(f):
                setattr(self, "t_" + n, getattr(self, n))
                if f != "x":
                    # the same value in a 64-bit context
                    setattr(self, "w_" + n, getattr(self, n))
        for s in self.subprograms:
            s.program()
        self.r0 = 2
        self.exit()
    dns["program"] = program
    Derived = type("VfDerived", (Base,), dns)
    e = Derived(subprograms=subs, **ctor)
    e.vf_consts = consts
    return e, subs, m


def table_element(name, fmt):
    """(index, element size, marker) written by the program into a
    homogeneous multi-element variable, or None"""
    if len(fmt) > 1 and fmt[:-1].isdigit() and fmt[-1] in "BHIQ":
        n = int(fmt[:-1])
        size = struct.calcsize(fmt[-1])
        k = (sum(map(ord, name)) * 7) % n
        return k, size, (0xa5 + k) & ((1 << (8 * size)) - 1) or 1
    return None


def visible_vars(case):
    """(name, fmt) of the main program's variables as attribute lookup
    resolves them"""
    out = {}
    for n, f in case["base"]:
        out[n] = f
    for n, f in case["derived"]:
        out[n] = f
    if case["override"]:
        out[case["override"][0]] = case["override"][1]
    return list(out.items())


def resolved(progobj, name):
    for cls in type(progobj).__mro__:
        if name in cls.__dict__:
            return cls.__dict__[name]
    raise KeyError(name)


def check_case(case, res):
    rng = random.Random(case["valseed"])
    nvars = len(visible_vars(case)) + sum(
        len(case["subcls"][k]) for k in case["insts"])
    with kern.session() as sess:
        res.count("configurations")
        try:
            e, subs, m = build(case)
            if case["valseed"] % 3 == 0:
                # set up all, then start all: another program object of the
                # class (with sub-programs of the same classes) exists
                # before this one is loaded
                sibling = type(e)(subprograms=[type(s_)() for s_ in subs])
                sibling.vf_consts = e.vf_consts
                res.count("programs_loaded_after_a_sibling_was_constructed")
            ld = prog.Loaded(e, sess)
            ld.load()
        except (AssembleError, KeyError, AttributeError, TypeError) as ex:
            res.case(case, nontrivial=False)
            key = "unexplained:build " + type(ex).__name__
            if case["inherit_only"]:
                key = "map-only-inherited-from-base-class-not-initialised"
            res.violation(key, f"configuration cannot be built/loaded: "
                          f"{type(ex).__name__}: {str(ex)[:200]}", case=case)
            return
        except OSError as ex:
            res.case(case, nontrivial=False)
            res.violation("unexplained:load" if not case["override"] else
                          "overridden-variable-laid-out-twice",
                          str(ex)[-400:], case=case)
            return
        try:
            res.count("built" + ("_inherit_only" if case["inherit_only"]
                                 else ""))
            res.case(case, nontrivial=nvars >= 2)
            # ---- layout invariant -------------------------------------
            ranges = []
            progs = [("main", e, visible_vars(case))] + [
                (f"sub{i}", s, case["subcls"][case["insts"][i]])
                for i, s in enumerate(subs)]
            allvars = []
            for pname, obj, dl in progs:
                names = [(n, f) for n, f in dl]
                names += [("t_" + n, f) for n, f in dl if scalar(f)]
                for n, f in names:
                    d = resolved(obj, n)
                    if not isinstance(d, ArrayGlobalVarDesc):
                        continue
                    pos = obj.__dict__.get(n)
                    if pos is None:
                        res.violation("unexplained:no-position"
                                      if not case["inherit_only"] else
                                      "map-only-inherited-from-base-class-"
                                      "not-initialised",
                                      f"{pname}.{n} has no position",
                                      case=case)
                        return
                    size = fmtsize(d.fmt) if d.fmt == "x" or len(d.fmt) == 1 \
                        else struct.calcsize(d.fmt)
                    ranges.append((pos, pos + size, pname, n, d.fmt))
                    allvars.append((pname, obj, n, d.fmt))
            msize = m.size
            res.count("layout_ranges", len(ranges))
            ranges.sort()
            for i, (a, b, pn, n, f) in enumerate(ranges):
                if b > msize:
                    res.violation(key_layout(case, n),
                                  f"{pn}.{n} ({f}) at [{a},{b}) exceeds map "
                                  f"size {msize}", case=case)
                    return
                if i and a < ranges[i - 1][1]:
                    o = ranges[i - 1]
                    res.violation(
                        key_layout(case, n, o[3]),
                        f"{pn}.{n} ({f}) at [{a},{b}) overlaps "
                        f"{o[2]}.{o[3]} ({o[4]}) at [{o[0]},{o[1]})",
                        case=case, witness=dict(ranges=ranges))
                    return
            # ---- behaviour --------------------------------------------
            vals = {}
            for pname, obj, n, f in allvars:
                if n.startswith("t_"):
                    continue
                vals[pname, n] = value_for(rng, f)
                setattr(obj, n, vals[pname, n])
            for pname, obj, n, f in allvars:
                if n.startswith("t_"):
                    continue
                got = getattr(obj, n)
                res.count("python_roundtrips")
                if not same(f, got, vals[pname, n]):
                    res.violation("unexplained:python-readback",
                                  f"{pname}.{n} ({f}) wrote "
                                  f"{vals[pname, n]} read {got}", case=case)
                    return
            # a write the library rejects (value outside the format) must
            # leave the variable as it was
            for pname, obj, n, f in allvars:
                if n.startswith("t_") or f == "x" or not scalar(f):
                    continue
                bad = 1 << (8 * struct.calcsize(f[-1]))
                try:
                    setattr(obj, n, bad)
                    continue            # accepted: another matter
                except (struct.error, OverflowError, ValueError):
                    pass
                res.count("rejected_python_writes")
                got = getattr(obj, n)
                if not same(f, got, vals[pname, n]):
                    res.violation(
                        "unexplained:rejected-write-changed-the-variable",
                        f"{pname}.{n} ({f}) held {vals[pname, n]}; the "
                        f"assignment of {bad} was refused, now it reads "
                        f"{got}", case=case)
                    return
            ret, out, _ = ld.run_k(bytes(64))
            for pname, obj, n, f in allvars:
                if n.startswith("t_"):
                    continue
                got = getattr(obj, n)
                el = table_element(n, f) if pname == "main" else None
                if el is not None:
                    want_t = list(vals[pname, n])
                    want_t[el[0]] = el[2]
                    res.count("table_elements_stored_through_a_pointer")
                    if list(got) != want_t:
                        res.violation(
                            "unexplained:table-element-store",
                            f"the program stored {el[2]} into element "
                            f"{el[0]} of {pname}.{n} ({f}) through its "
                            f"address; Python wrote {vals[pname, n]} "
                            f"before and now reads {got}", case=case)
                        return
                    continue
                if not same(f, got, vals[pname, n]):
                    res.violation("unexplained:variable-changed-by-run",
                                  f"{pname}.{n} ({f}) was {vals[pname, n]} "
                                  f"now {got}", case=case)
                    return
                if scalar(f):
                    tw = getattr(obj, "t_" + n)
                    res.count("program_copies_checked")
                    if not same(f, tw, vals[pname, n]):
                        res.violation(
                            "unexplained:program-read-differs",
                            f"program copied {pname}.{n} ({f}) = "
                            f"{vals[pname, n]} as {tw}", case=case)
                        return
                    if pname == "main" and f != "x":
                        wide = getattr(obj, "w_" + n)
                        v = vals[pname, n]
                        want = v - (1 << 64) if v >= 1 << 63 else v
                        res.count("program_copies_into_64_bits_checked")
                        if wide != want:
                            res.violation(
                                "unexplained:program-read-differs",
                                f"program copied {pname}.{n} ({f}) = {v} "
                                f"into a q variable as {wide}", case=case)
                            return
            # ---- a second task attached to the map -----------------------
            if case["valseed"] % 16 < SECOND_TASK[0] and \
                    not case["inherit_only"]:
                bad = second_task(case, sess, allvars, vals, res)
                if bad:
                    res.violation("unexplained:second-task-reads-differ",
                                  bad, case=case)
                    return
            # ---- constants stored by the program ------------------------
            e.mode = 1
            ld.run_k(bytes(64))
            for n, c in e.vf_consts.items():
                f = dict(visible_vars(case))[n]
                got = getattr(e, n)
                res.count("program_constant_stores_checked")
                if not same(f, got, c):
                    res.violation(
                        "unexplained:program-constant-store",
                        f"the program stored the constant {c!r} into "
                        f"main.{n} ({f}); Python reads {got!r}", case=case)
                    return
            # ---- after the library's own close() -----------------------
            # (register_sync_group and XDP.run close the program's file
            # descriptor once the kernel holds the program, and go on
            # using its variables)
            if case["valseed"] % 2 == 0:
                e.close()
                res.count("programs_closed_before_further_python_access")
                for pname, obj, n, f in allvars:
                    if n.startswith("t_"):
                        continue
                    v = value_for(rng, f)
                    try:
                        setattr(obj, n, v)
                        got = getattr(obj, n)
                        ok = same(f, got, v) is True
                    except Exception as ex:
                        got, ok = f"{type(ex).__name__}: {ex}", False
                    res.count("python_roundtrips_after_close")
                    if not ok:
                        res.violation(
                            "unexplained:python-access-after-close",
                            f"after close() of the program object "
                            f"{pname}.{n} ({f}) wrote {v} read {got!r:.80}",
                            case=case)
                        return
            if len(res.samples) < 3:
                res.sample(dict(case=case, ranges=ranges, map_size=msize))
        finally:
            ld.close()


SECOND_TASK = [1]      # cases out of 16 that get a second task


def second_task(case, sess, allvars, vals, res):
    """a process of its own (string hash seed of its own) attaches to the
    map with EBPF(load_maps=...) and reads every variable Python wrote"""
    import json
    import os
    import subprocess
    import sys
    from ebpfcat.bpf import MapType
    import mmap as _mmap
    e = allvars[0][1].ebpf if allvars else None
    fds = []
    for fd, mp in sess.maps.items():
        if mp["type"] != MapType.ARRAY or e is None:
            continue
        mine = bytes(e.__dict__[type(e).m.name][:])
        if mp["value_size"] * mp["max_entries"] != len(mine):
            continue
        with _mmap.mmap(fd, len(mine)) as view:
            if bytes(view[:]) == mine:
                fds.append(fd)
    if len(fds) != 1:
        res.count("second_task_skipped_map_not_identified")
        return None
    # (what the first task reads now: Python's writes, and the elements the
    # program stored through a pointer)
    def enc(v):
        return {"__bytes__": v.hex()} if isinstance(v, bytes) else v
    expect = [[pname, n, f, enc(getattr(obj, n))]
              for pname, obj, n, f in allvars if not n.startswith("t_")]
    hs = str(1 + case["valseed"] % 997)
    env = dict(os.environ, PYTHONHASHSEED=hs)
    try:
        p = subprocess.run(
            [sys.executable, "-m", "vf.c08_child"],
            input=json.dumps(dict(case=case, fd=fds[0], expect=expect)),
            capture_output=True, text=True, env=env, pass_fds=(fds[0],),
            timeout=120)
    except subprocess.TimeoutExpired:
        res.inconc("second task: watchdog")
        return None
    if p.returncode != 0:
        return (f"the second task (PYTHONHASHSEED={hs}) could not attach: "
                f"{p.stderr.strip().splitlines()[-1:]}")
    out = json.loads(p.stdout)
    res.count("second_tasks_attached")
    res.count("second_task_reads", out["read"])
    if out["bad"]:
        b = out["bad"][0]
        return (f"a second task (PYTHONHASHSEED={hs}) attached with "
                f"load_maps reads {b[0]}.{b[1]} ({b[2]}) as {b[4]}; the "
                f"first task wrote {b[3]} ({len(out['bad'])} of "
                f"{out['read']} variables differ)")
    return None


def key_layout(case, n, other=None):
    if case["override"] and case["override"][0] in (n, other, "t_" + n):
        return "overridden-variable-laid-out-twice"
    return "unexplained:layout"


def same(fmt, got, want):
    if fmt in ONEVALUE:
        return type(got) is type(want) and got == want
    if fmt == "x":
        return round(got * 100000) == round(want * 100000)
    return got == want


def percpu_leg(res, rng):
    """per-CPU maps: random declarations of every format; the program copies
    inputs from a plain array map into the per-CPU variables and counts; it
    is run on 2-3 chosen CPUs (the process is pinned, BPF_PROG_TEST_RUN
    executes on the caller's CPU) with CPU-specific inputs; Python must see
    exactly each CPU's own values in that CPU's entry and zeros elsewhere"""
    import os
    from ebpfcat.arraymap import ArrayMap
    ncpu = kern.possible_cpus()
    if ncpu != os.cpu_count():
        res.inconc("possible CPUs differ from os.cpu_count()")
    allowed = sorted(os.sched_getaffinity(0))
    for rnd in range(4):
        fmts = [rng.choice(SCALAR * 2 + ["3H", "2I", "2q"])
                for _ in range(rng.randint(2, 6))]
        if rnd == 0:
            fmts[0] = "x"
        with kern.session() as sess:
            pm = PerCPUArrayMap()
            am = ArrayMap()
            ns = {"license": "GPL", "pm": pm, "am": am,
                  "cnt": pm.globalVar("I")}
            for i, f in enumerate(fmts):
                ns[f"p{i}"] = pm.globalVar(f)
                if scalar(f):
                    ns[f"i{i}"] = am.globalVar(f)

            def program(self):
                self.cnt += 1
                for i, f in enumerate(fmts):
                    if scalar(f):
                        setattr(self, f"p{i}", getattr(self, f"i{i}"))
                self.r0 = 2
                self.exit()
            ns["program"] = program
            cls = type("VfPC", (XDP,), ns)
            # the class's map descriptor is shared by its instances: a
            # second instance with another sub-program set must not disturb
            # the first one's layout
            Sub = type("VfPCSub", (SubProgram,),
                       {"sv": pm.globalVar("Q"),
                        "program": lambda self: None})
            nsub = rng.choice([0, 0, 2, 3])
            e = cls(subprograms=[Sub() for _ in range(nsub)])
            ld = prog.Loaded(e, sess)
            try:
                ld.load()
                if nsub:
                    other = cls()
                    res.count("percpu_second_instance")
            except OSError as ex:
                res.count("percpu_load_failed")
                res.sample(dict(percpu_load_failed=fmts,
                                log=str(ex)[-300:]), limit=2)
                ld.close()
                continue
            cpus = rng.sample(allowed, min(len(allowed), rng.randint(2, 3)))
            # sequence objects obtained once, before anything ran, and kept
            # (as a monitoring loop would): they must show every later read
            kept = None
            if rnd % 2:
                e.pm.read()
                kept = [e.cnt] + [getattr(e, f"p{i}")
                                  for i in range(len(fmts))]
            written = {}
            runs = {}
            try:
                for cpu in cpus:
                    os.sched_setaffinity(0, {cpu})
                    vals = {}
                    for i, f in enumerate(fmts):
                        if len(f) != 1:
                            continue
                        if f == "x":
                            v = rng.choice([1, -1]) * rng.randint(
                                0, 10 ** 9) / 100000
                            v = round(v * 100000) / 100000
                        else:
                            sz = struct.calcsize(f)
                            v = rng.getrandbits(8 * sz) or 1
                            if f.islower():
                                v = v - (1 << (8 * sz)) \
                                    if v >> (8 * sz - 1) else v
                        setattr(e, f"i{i}", v)
                        vals[i] = v
                    n = rng.randint(1, 5)
                    for _ in range(n):
                        ld.run_k(bytes(64))
                    written[cpu] = vals
                    runs[cpu] = n
                # a second loaded instance of the class (a map of its own,
                # of the same size) runs on one CPU
                twin = ldt = None
                if nsub == 0:
                    twin = cls()
                    ldt = prog.Loaded(twin, sess)
                    ldt.load()
                    tcpu = rng.choice(allowed)
                    os.sched_setaffinity(0, {tcpu})
                    tn = rng.randint(6, 9)
                    for _ in range(tn):
                        ldt.run_k(bytes(64))
            finally:
                os.sched_setaffinity(0, set(allowed))
            e.pm.read()
            if twin is not None:
                # its values are read after the first instance's and before
                # the first instance's variables are looked at
                twin.pm.read()
                res.count("percpu_reads_of_a_second_loaded_instance")
                if twin.cnt[tcpu] != tn or sum(twin.cnt) != tn:
                    res.violation(
                        "unexplained:percpu-second-instance",
                        f"the second instance ran {tn} times on cpu {tcpu}, "
                        f"its counter reads {list(twin.cnt)}",
                        case=dict(fmts=fmts, cpus=cpus))
            res.case(["percpu", fmts, cpus])
            res.count("percpu_runs", sum(runs.values()))
            desc = dict(fmts=fmts, cpus=cpus, runs=runs)
            if len(e.cnt) != ncpu:
                res.violation("unexplained:percpu-length",
                              f"len(var)={len(e.cnt)} possible cpus={ncpu}",
                              case=desc)
                ld.close()
                continue
            if kept is not None:
                res.count("percpu_kept_sequence_objects", len(kept))
                fresh = [e.cnt] + [getattr(e, f"p{i}")
                                   for i in range(len(fmts))]
                stale = [k for k, (a, b) in enumerate(zip(kept, fresh))
                         if [repr(v) for v in a] != [repr(v) for v in b]]
                if stale:
                    res.violation(
                        "unexplained:percpu-kept-object-stale",
                        f"per-CPU sequence objects obtained before the runs "
                        f"do not show the values of the latest read(): "
                        f"variables {stale}, e.g. {list(kept[stale[0]])[:4]} "
                        f"vs {list(fresh[stale[0]])[:4]}", case=desc)
                    ld.close()
                    continue
            for cpu in range(ncpu):
                want_n = runs.get(cpu, 0)
                if e.cnt[cpu] != want_n:
                    res.violation(
                        "unexplained:percpu-counter",
                        f"cpu {cpu}: counter {e.cnt[cpu]} after "
                        f"{want_n} runs there", case=desc)
                    break
                for i, f in enumerate(fmts):
                    got = getattr(e, f"p{i}")[cpu]
                    if len(f) != 1:
                        want = tuple([0] * int(f[:-1]))
                        ok = tuple(got) == want
                    else:
                        want = written.get(cpu, {}).get(i, 0)
                        ok = same(f, got, want)
                    res.count(f"percpu_cmp[{'x' if f == 'x' else 'int'}/"
                              f"{'ran' if cpu in runs else 'idle'}]")
                    if not ok:
                        res.violation(
                            "unexplained:percpu-value",
                            f"cpu {cpu} variable p{i} ({f}): Python reads "
                            f"{got!r}, the program stored {want!r} there",
                            case=desc)
                        break
            ld.close()
            if ldt is not None:
                ldt.close()


def run_shard(params):
    res = Result()
    rng = random.Random(params["seed"] * 100103 + params["shard"])
    SECOND_TASK[0] = 1 if params["n"] <= 300 else 2
    for i in range(params["n"]):
        check_case(gen_case(rng), res)
    percpu_leg(res, rng)
    return res


def finalize(res, tier, seed):
    c = res.counters
    if not c.get("program_copies_checked"):
        res.inconc("no program-side copy was checked")
    if not c.get("percpu_runs"):
        res.inconc("per-CPU leg did not run")
    for k in ("percpu_cmp[x/ran]", "percpu_cmp[int/ran]",
              "percpu_cmp[int/idle]"):
        if not c.get(k):
            res.inconc(f"per-CPU leg: nothing compared in stratum {k}")


def replay(v):
    res = Result()
    if isinstance(v.get("case"), dict) and "base" in v["case"]:
        check_case(v["case"], res)
    return res
