"""rewrite the generated lists of DESIGN.md section 9 (between the
<!-- gen:fixed --> / <!-- gen:findings --> markers) from known_findings.json"""
import json
import os
import re

ROOT = os.path.dirname(os.path.abspath(__file__))
k = json.load(open(os.path.join(ROOT, "known_findings.json")))
p = os.path.join(ROOT, "DESIGN.md")
s = open(p).read()


def block(name, lines):
    global s
    pat = re.compile(rf"(<!-- gen:{name} -->\n).*?(<!-- /gen:{name} -->)",
                     re.S)
    assert pat.search(s), name
    s = pat.sub(lambda m: m.group(1) + "\n".join(lines) + "\n" + m.group(2),
                s)


fixed = []
for f in k["fixed"]:
    m = re.match(r"fixed: property=(C\d\d) ([0-9a-f]+) (.*)", f, re.S)
    fixed.append(f"* `property={m.group(1)} {m.group(2)}` {m.group(3)}")
block("fixed", fixed)
block("findings", [f"* **{f['property']}** `{f['key']}` — {f['what']}"
                   for f in k["findings"]])
open(p, "w").write(s)
print(len(fixed), "fixed,", len(k["findings"]), "findings")
