"""execute spec programs in K and V and confront them with the reference"""
from . import use_repo
use_repo()

from ebpfcat.ebpf import AssembleError  # noqa: E402
from . import dsl, ebpfvm, kern, prog  # noqa: E402

PKT = bytes(64)


class CaseRun:
    """one built+loaded spec program"""

    def __init__(self, specd, sess, **buildkw):
        self.specd = specd
        self.status = "ok"
        self.error = None
        self.built = None
        self.ld = None
        try:
            self.built = dsl.build(specd, **buildkw)
            self.ld = prog.Loaded(self.built.ebpf, sess)
        except AssembleError as ex:
            self.status = "assemble_error"
            self.error = repr(ex)
            return
        except (TypeError, AttributeError, ValueError, IndexError,
                KeyError, AssertionError, OverflowError,
                __import__("struct").error) as ex:
            self.status = "generator_crash"
            self.error = repr(ex)
            return
        try:
            self.ld.load()
        except OSError as ex:
            self.status = "load_failed"
            self.error = str(ex)[-3000:]

    def image(self, inputs):
        b = self.built
        spec = b.spec
        m = b.ebpf.__dict__["m"]
        m[:] = bytes(len(m))
        for place, pat in inputs.items():
            size = spec.info(place)[0]
            pat = dsl.to_raw(spec.fmt(place), size, pat)
            if place[0] == "v":
                b.poke(place[2:], size, pat)
            else:
                b.poke(b.ins[place], size, pat)
        return bytes(m)

    def observe(self):
        """read everything observable from the map"""
        b = self.built
        spec = b.spec
        obs = dict(stmt={}, markers={}, final={})
        for path, place, name in b.stmt_outs:
            size = spec.info(place)[0]
            obs["stmt"][path] = dsl.to_raw(spec.fmt(place), size,
                                           b.raw(name, size))
        for path, tag, name in b.markers:
            obs["markers"].setdefault(path, {})[tag] = b.raw(name, 1)
        for place in spec.places():
            size = spec.info(place)[0]
            if place[0] == "v":
                raw = b.raw(place[2:], size)
            else:
                raw = b.raw(b.final_outs[place], size)
            obs["final"][place] = dsl.to_raw(spec.fmt(place), size, raw)
        return obs

    def run(self, inputs, use_v=True, packet=PKT):
        """returns (obs_k, obs_v or None, vfault or None)"""
        m = self.built.ebpf.__dict__["m"]
        img = self.image(inputs)
        ret, out, _ = self.ld.run_k(packet)
        obs_k = self.observe()
        obs_k["ret"] = ret
        obs_v = None
        fault = None
        if use_v:
            m[:] = img
            try:
                retv, outv, vm = self.ld.run_v(packet)
                obs_v = self.observe()
                obs_v["ret"] = retv
            except ebpfvm.VMFault as ex:
                fault = str(ex)
        return obs_k, obs_v, fault

    def close(self):
        if self.ld is not None:
            self.ld.close()

    def disasm(self):
        return ebpfvm.disasm(self.ld.code) if self.ld else []


def compare(spec, ref, obs):
    """list of mismatches between the reference outcome and an observation

    each: dict(kind, path/place, observed, allowed, nbits)"""
    bad = []
    for path, (dest, vals, nbits) in ref["stmt"].items():
        if path not in obs["stmt"] or not nbits or vals is None:
            continue
        mask = (1 << nbits) - 1
        o = obs["stmt"][path]
        if (o & mask) not in {v & mask for v in vals}:
            bad.append(dict(kind="stmt", path=list(path), place=dest,
                            observed=o, allowed=sorted(vals), nbits=nbits))
    for place, (vals, nbits) in ref["final"].items():
        if not nbits:
            continue
        mask = (1 << nbits) - 1
        o = obs["final"][place]
        if (o & mask) not in {v & mask for v in vals}:
            bad.append(dict(kind="final", place=place, observed=o,
                            allowed=sorted(vals), nbits=nbits))
    for path, exp in ref["markers"].items():
        got = obs["markers"].get(path, {})
        for tag, e in exp.items():
            if e is None or tag not in got:
                continue
            if got[tag] != e:
                bad.append(dict(kind="marker", path=list(path), tag=tag,
                                observed=got[tag], allowed=[e]))
    return bad
