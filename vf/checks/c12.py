"""C12 every datagram request gets exactly its own response"""
import asyncio
import logging
import random
import struct

from .. import aio, bus, frames, use_repo
from ..core import Result
use_repo()

import ebpfcat.ethercat as ecmod  # noqa: E402
from ebpfcat.ethercat import ECCmd, EtherCat, EtherCatError  # noqa: E402

PROPERTY = "C12"
LEVEL = "exploration"
RULE = ("the real EtherCat send path (roundtrip -> send queue -> sendloop -> "
        "process_packet -> roundtrip_packet -> datagram_received) on a "
        "virtual-time loop with a fake transport: 5-60 client tasks issue "
        "requests whose address fields carry a unique id, sizes 0..1472 "
        "(and, in a separate stratum, beyond the frame limit), bursts of "
        "more than 15 datagrams, seeded start order and sleep(0) gaps, "
        "cancellations before enqueue / while queued / in flight / after "
        "completion; per frame the transport delivers after d ticks, loses, "
        "or duplicates, and reorders frames; per datagram the working "
        "counter is 0 or 1; response bytes are a keyed function of id and "
        "position. A history checker over the recorded call / enqueue / "
        "frame / return events decides exactly-once, order, own-bytes, "
        "error iff own counter 0, pending iff frame lost, independence and "
        "absence of stalls (logical-step watchdog on Packet constructions "
        "per loop iteration). a case = one history; non-trivial = >= 2 "
        "requests shared a frame or a fault was injected")
ASSUMPTIONS = ["asyncio's FIFO ready queue is not permuted (the library may "
               "rely on it); interleavings come from seeded delays",
               "a request cancelled by its caller may be sent or not"]
MIN_EVALUATIONS = {"quick": 300, "thorough": 8000}
MAXFIT = 1500 - 16 - 12


class Stall(Exception):
    pass


def plan(tier, seed):
    n = 120 if tier == "quick" else 600
    return [dict(seed=seed, shard=i, n=n) for i in range(16)]


def gen_case(rng, oversize=False, lossy=False):
    nreq = rng.choice([5, 8, 16, 17, 20, 33, rng.randint(5, 60)])
    reqs = []
    for i in range(nreq):
        size = rng.choice([0, 1, 2, 4, 8, 30, 100, 400, 700, 1000, 1400,
                           1472, rng.randint(0, 1472)])
        if nreq > 20:
            size = rng.choice([0, 2, 4, 10, 50])
        reqs.append(dict(id=0x10000 + i * 7 + rng.randrange(7), size=size,
                         gaps=rng.choice([0, 0, 0, 1, 2, 5]),
                         delay=rng.choice([0, 0, 0, 0.0002, 0.001, 0.003]),
                         cancel=rng.choice([None] * 7 + ["early", "queued",
                                                         "flight", "late",
                                                         "atput", "atput"]),
                         cmd=rng.choice([4, 5, 1, 7])))
    if oversize:
        k = rng.randrange(max(1, nreq - 3))
        reqs[k]["size"] = rng.choice([1473, 1474, 1480, 1488, 1500, 3000])
        # the caller of a request that can never fit may give up as well
        reqs[k]["cancel"] = rng.choice([None, None, "atput", "atput",
                                        "queued", "early"])
    if lossy:
        # a long life on a bad cable: requests one after the other, more
        # than half of the first 45 frames never come back, the bus is
        # healthy afterwards
        reqs = [dict(id=0x10000 + i * 7 + rng.randrange(7),
                     size=rng.choice([0, 2, 4, 10]), gaps=0,
                     delay=i * 0.0015 + rng.choice([0, 0.0002]), cancel=None,
                     cmd=rng.choice([4, 5, 1, 7]))
                for i in range(rng.randint(60, 100))]
    frames_pol = []
    for f in range(80):
        r = rng.random()
        fate = "deliver" if r < 0.7 else "lose" if r < 0.8 else \
            "dup" if r < 0.9 else "slow"
        if rng.random() < 0.04:
            fate = "senderr"
        if lossy:
            fate = "lose" if f < 45 and rng.random() < 0.55 else "deliver"
        frames_pol.append(dict(
            fate=fate, delay=rng.choice([0.0001, 0.0003, 0.001, 0.004]),
            wkc0=[rng.random() < 0.15 for _ in range(16)],
            # a datagram many terminals have processed: counters beyond 1,
            # beyond one byte
            wkc=[rng.choice([1, 1, 1, 2, 3, 255, 256, 512, 0x300, 0xff00,
                             0xffff]) for _ in range(16)]))
    narrow = rng.choice([0, 0, 0, 6, 12])
    if narrow:
        # identifiers are reused quickly in these histories: a response
        # that arrives after its frame is done (a duplicate, a frame whose
        # callers have given up) would meet a new frame with the same
        # identifier - which the real range of 10^9 makes practically
        # impossible and the statement does not cover. Frames are delivered
        # once or lost (a lost frame's identifier stays in use for ever),
        # nobody gives up
        for f in frames_pol:
            if f["fate"] in ("dup", "slow"):
                f["fate"] = "deliver"
        for r in reqs:
            r["cancel"] = None
    return dict(reqs=reqs, frames=frames_pol, key=rng.getrandbits(8),
                rseed=rng.getrandbits(32), oversize=oversize,
                narrow_indices=narrow,
                reconnect=rng.random() < 0.15,
                # the second and later masters on an interface use another
                # ethertype than the default
                ethertype=rng.choice([0x88A4, 0x88A4, 0x3000, 0x4567]))


def transform(key, rid, pos, data):
    return bytes((b ^ key ^ (rid & 0xff) ^ (i * 3 + pos) & 0xff) & 0xff
                 for i, b in enumerate(data))


def run_history(case):
    log = dict(calls=[], enq=[], frames=[], returns={}, stall=None,
               warnings=[])
    random.seed(case["rseed"])
    pkts = [0]
    RealPacket = ecmod.Packet

    class CountingPacket(RealPacket):
        def __init__(self):
            pkts[0] += 1
            if pkts[0] > 400:
                raise Stall(f"{pkts[0]} packets built in one loop iteration")
            super().__init__()

        def append(self, *a, **kw):
            # a send loop that retries the same datagram without yielding
            # builds no packets but appends for ever
            pkts[0] += 1
            if pkts[0] > 5000:
                raise Stall(f"{pkts[0]} packet operations in one loop "
                            "iteration")
            return super().append(*a, **kw)

    async def main(loop):
        ec = EtherCat("vf")
        ec.ethertype = case.get("ethertype", 0x88A4)
        ec.send_queue = asyncio.Queue()
        sent = []

        class Tr:
            _sock = bus.FakeSock()

            def sendto(self, data, addr=None):
                data = bytes(data)
                n = len(sent)
                sent.append(data)
                pol = case["frames"][n % len(case["frames"])]
                try:
                    length, typ, dgs, pad = frames.parse(data)
                except frames.FrameError as ex:
                    log["frames"].append(dict(n=n, error=str(ex)))
                    return
                ids = []
                out = bytearray(data)
                for j, d in enumerate(dgs[1:]):
                    rid = ((d.addr[0] & 0xffff) << 16) | d.addr[1]
                    wkc = 0 if pol["wkc0"][j % 16] else \
                        pol.get("wkc", [1] * 16)[j % 16]
                    resp = transform(case["key"], rid, j, d.data)
                    out[d.data_pos:d.wkc_pos] = resp
                    struct.pack_into("<H", out, d.wkc_pos, wkc)
                    ids.append((rid, len(d.data), wkc, resp))
                log["frames"].append(dict(n=n, ids=ids, fate=pol["fate"],
                                          t=loop.time()))
                if pol["fate"] == "senderr":
                    # the frame cannot be put on the wire (link down)
                    raise OSError(100, "Network is down")
                if pol["fate"] == "lose":
                    return
                if struct.unpack("<H", dgs[0].data)[0] != ec.ethertype:
                    # the dispatcher stamps the returning frame with the
                    # ethertype of its identification datagram: this one
                    # comes back on another master's socket
                    log["misrouted"] = log.get("misrouted", 0) + 1
                    return
                delay = pol["delay"] * (8 if pol["fate"] == "slow" else 1)
                loop.call_later(delay, ec.datagram_received, bytes(out), None)
                if pol["fate"] == "dup":
                    loop.call_later(delay * 2, ec.datagram_received,
                                    bytes(out), None)
        orig_put = ec.send_queue.put_nowait
        tasks = {}
        atput = {}

        def put(item):
            rid = ((item[3] & 0xffff) << 16) | item[4]
            log["enq"].append(rid)
            r = orig_put(item)
            if atput.get(rid) and rid in tasks:
                # cancelled while the datagram sits in the send queue (the
                # caller gives up before the send loop has seen it)
                tasks[rid].cancel()
                log["atput"] = log.get("atput", 0) + 1
            return r
        ec.send_queue.put_nowait = put
        ec.connection_made(Tr())
        if case.get("reconnect"):
            # the master object connects a second time (a re-connection
            # after the interface went away): connect() makes a new queue
            # and a new endpoint calls connection_made again; the first
            # send loop is waiting at its (old) queue by then
            for _ in range(3):
                await asyncio.sleep(0)
            ec.send_queue = asyncio.Queue()
            orig_put = ec.send_queue.put_nowait
            ec.send_queue.put_nowait = put
            ec.connection_made(Tr())
        loop.on_iteration_user = None
        old_iter = loop.on_iteration

        def on_iter():
            pkts[0] = 0
            old_iter()
        loop.on_iteration = on_iter

        async def client(r):
            for _ in range(r["gaps"]):
                await asyncio.sleep(0)
            if r["delay"]:
                await asyncio.sleep(r["delay"])
            rid = r["id"]
            pos = (rid >> 16) - (0x10000 if (rid >> 16) >= 0x8000 else 0)
            log["calls"].append(rid)
            return await ec.roundtrip(ECCmd(r["cmd"]), pos, rid & 0xffff,
                                      data=bytes((rid + i) & 0xff for i in
                                                 range(r["size"])))
        for r in case["reqs"]:
            if r["cancel"] == "atput":
                atput[r["id"]] = True
        for r in case["reqs"]:
            t = asyncio.ensure_future(client(r))
            tasks[r["id"]] = t
            c = r["cancel"]
            if c == "early":
                t.cancel()
            elif c == "queued":
                loop.call_later(r["delay"] + 0.00001, t.cancel)
            elif c == "flight":
                loop.call_later(r["delay"] + 0.00025, t.cancel)
            elif c == "late":
                loop.call_later(r["delay"] + 0.05, t.cancel)
        await asyncio.sleep(0.2)
        for rid, t in tasks.items():
            if not t.done():
                log["returns"][rid] = ("pending", None)
            elif t.cancelled():
                log["returns"][rid] = ("cancelled", None)
            elif t.exception() is not None:
                ex = t.exception()
                log["returns"][rid] = (
                    "error" if isinstance(ex, EtherCatError) else "exception",
                    f"{type(ex).__name__}: {str(ex)[:60]}")
            else:
                log["returns"][rid] = ("result", t.result())
        return log

    class Quiet(logging.Handler):
        def emit(self, record):
            log["warnings"].append(record.getMessage()[:80])
    h = Quiet()
    root = logging.getLogger()
    oldlevel = root.level
    oldhandlers = root.handlers[:]
    root.handlers = [h]
    root.setLevel(logging.WARNING)
    ecmod.Packet = CountingPacket
    real_randint = ecmod.randint
    if case.get("narrow_indices"):
        # the random frame identifiers come from a dozen values most of the
        # time (a wide draw now and then, so that a free one is always
        # found): identifiers of frames in flight are drawn again and again
        rr = random.Random(case["rseed"] ^ 0x5a5a)
        k = case["narrow_indices"]

        def narrow(a, b):
            if (a, b) != (2000, 1000000000):
                return real_randint(a, b)
            log["narrow_draws"] = log.get("narrow_draws", 0) + 1
            if rr.random() < 0.75:
                return a + rr.randrange(k)
            return rr.randint(a, b)
        ecmod.randint = narrow
    try:
        try:
            return aio.run(main, max_iterations=400000)
        except aio.Idle as ex:
            log["stall"] = str(ex)
            return log
    finally:
        ecmod.Packet = RealPacket
        ecmod.randint = real_randint
        root.handlers = oldhandlers
        root.setLevel(oldlevel)


def check_history(case, log, res):
    reqs = {r["id"]: r for r in case["reqs"]}
    desc = dict(case=case)
    if log["stall"]:
        return ("sendloop-stalls", f"event loop stalled: {log['stall']}")
    sent_in = {}
    for f in log["frames"]:
        if "error" in f:
            return ("unexplained:malformed-frame", f["error"])
        for j, (rid, size, wkc, resp) in enumerate(f["ids"]):
            if rid in sent_in:
                return ("unexplained:sent-twice",
                        f"request {rid:#x} in frames {sent_in[rid][0]} and "
                        f"{f['n']}")
            sent_in[rid] = (f["n"], j, wkc, resp, f["fate"])
    order = [rid for f in log["frames"] for rid, *_ in f["ids"]]
    enq = [r for r in log["enq"] if r in sent_in]
    if order != enq:
        return ("unexplained:order",
                f"frames carry {order[:12]} but submission order was "
                f"{enq[:12]}")
    stuck = any("Stall" in w or "sendloop failed" in w
                for w in log["warnings"])
    for rid, (kind, val) in log["returns"].items():
        r = reqs[rid]
        if r["cancel"] == "early":
            continue
        if r["size"] > MAXFIT:
            if r["cancel"] and kind == "cancelled":
                continue     # its caller gave up first
            if kind not in ("exception", "error"):
                return ("oversized-request-does-not-fail",
                        f"request of {r['size']} bytes ended {kind}")
            continue
        if rid not in sent_in:
            if r["cancel"] and kind == "cancelled":
                continue
            if stuck or any(q["size"] > MAXFIT for q in case["reqs"]):
                return ("sendloop-stalls",
                        f"request {rid:#x} was never sent (an oversized "
                        f"request stalled the send loop: "
                        f"{log['warnings'][:2]})")
            if rid not in log["enq"]:
                continue
            return ("unexplained:never-sent",
                    f"request {rid:#x} ({kind}) never appeared in a frame")
        fn, j, wkc, resp, fate = sent_in[rid]
        if kind == "cancelled":
            if r["cancel"]:
                continue
            return ("unexplained:spurious-cancel", f"{rid:#x} cancelled")
        if fate == "senderr":
            # the requests of a frame that could not be sent fail; nobody
            # else is affected
            want = "exception"
        elif fate == "lose":
            want = "pending"
        elif wkc == 0:
            want = "error"
        else:
            want = "result"
        # a request cancelled "late" may have completed before
        if kind != want:
            mates = [reqs[i] for i, *_ in
                     log["frames"][fn]["ids"] if i != rid and i in reqs]
            culprit = [m for m in mates if m["cancel"] in ("queued",
                                                           "flight")]
            key = "neighbour-cancellation-fails-frame" if culprit \
                else "unexplained:outcome"
            return (key, f"request {rid:#x} in frame {fn} pos {j} (frame "
                    f"{fate}, own wkc {wkc}) ended {kind} {val!r:.60}, "
                    f"expected {want}; frame mates cancelled: "
                    f"{[hex(m['id']) for m in culprit]}")
        if kind == "result" and val != resp:
            return ("unexplained:wrong-bytes",
                    f"request {rid:#x}: got "
                    + (val[:16].hex() if isinstance(val, (bytes, bytearray))
                       else repr(val)[:40])
                    + f" expected {resp[:16].hex()!r}")
    return None


def run_shard(params):
    res = Result()
    rng = random.Random(params["seed"] * 100279 + params["shard"])
    inter = set()
    for i in range(params["n"]):
        case = gen_case(rng, oversize=(i % 5 == 4), lossy=(i % 12 == 7))
        if i % 12 == 7:
            res.count("histories_with_a_long_lossy_start")
        log = run_history(case)
        shared = any(len(f.get("ids", [])) >= 2 for f in log["frames"])
        faults = any(f.get("fate") != "deliver" for f in log["frames"])
        res.case(case, nontrivial=shared or faults)
        res.count("requests", len(case["reqs"]))
        res.count("frames", len(log["frames"]))
        for f in log["frames"]:
            res.count("frame_fate[" + f.get("fate", "malformed") + "]")
            res.count(f"datagrams_per_frame[{min(len(f.get('ids', [])), 16)}]")
        for kind, _ in log["returns"].values():
            res.count("outcome[" + kind + "]")
        for r in case["reqs"]:
            if r["cancel"]:
                res.count("cancel[" + r["cancel"] + "]")
        inter.add(hash(tuple(tuple(i for i, *_ in f.get("ids", []))
                             for f in log["frames"])))
        bad = check_history(case, log, res)
        if bad:
            res.violation(bad[0], bad[1], case=case,
                          witness=dict(frames=[dict(n=f["n"], fate=f.get(
                              "fate"), ids=[hex(i) for i, *_ in f.get(
                                  "ids", [])]) for f in log["frames"][:12]],
                              returns={hex(k): v[0] for k, v in
                                       log["returns"].items()},
                              warnings=log["warnings"][:5]))
        elif len(res.samples) < 2:
            res.sample(dict(requests=len(case["reqs"]),
                            frames=[(f["fate"], [hex(i) for i, *_ in
                                                 f["ids"]][:6])
                                    for f in log["frames"][:5]]))
    res.info["distinct_frame_partitions"] = len(inter)
    return res


def finalize(res, tier, seed):
    c = res.counters
    for k in ("outcome[result]", "outcome[error]", "outcome[pending]",
              "outcome[cancelled]", "frame_fate[lose]", "frame_fate[dup]",
              "cancel[queued]", "cancel[flight]"):
        if not c.get(k):
            res.inconc(f"{k} never observed")


def replay(v):
    res = Result()
    log = run_history(v["case"])
    bad = check_history(v["case"], log, res)
    if bad:
        res.violation(bad[0], bad[1])
    return res
