"""importable targets for spawned child processes"""
import time


def obedient_child(running, log_path=None):
    """stands in for ProcessSyncGroup.subprocess_run: cycles until the
    parent clears the shared running flag"""
    n = 0
    while running.value:
        time.sleep(0.002)
        n += 1
        if n > 5000:      # 10 s: the parent forgot us
            break
    if log_path:
        with open(log_path, "w") as f:
            f.write(f"stopped after {n} cycles running={running.value}\n")


# ---------------------------------------------------------------------------
# C29: device classes that a spawned child can re-import by name
# ---------------------------------------------------------------------------
C29_FORMATS = ["B", "H", "I", "Q", "b", "h", "i", "q", "x", "x", "IH", "QB",
               "HB", "3H", "l", "L", "HI", "Bq", "hq", "bI",
               # one value, spelled with a byte-order mark
               "<H", ">I", "=q", "<B",
               # one value followed by pad bytes
               "Bx", "Hxx", "hx",
               # byte strings (binary blobs: trailing zero bytes belong to
               # the value), a char, a Pascal string
               "4s", "6s", "c", "8p", "1s"]
C29_PLAIN = 8      # classes 0..7 derive from Device
C29_DERIVED = 4    # classes 8..11 derive from class k-8 and re-declare


def _c29_decl(k):
    """the DeviceVars class k declares itself: {name: format}"""
    import random
    rng = random.Random(1000 + k)
    if k < C29_PLAIN:
        return {f"v{j}": rng.choice(C29_FORMATS)
                for j in range(rng.randint(1, 6))}
    base = _c29_decl(k - C29_PLAIN)
    out = {}
    # re-declare one or two inherited variables with another (mostly wider)
    # format, and add a variable of its own
    for n in rng.sample(sorted(base), min(len(base), rng.randint(1, 2))):
        out[n] = rng.choice(["Q", "q", "QB", "x", "I", "Bq"])
    out["w0"] = rng.choice(C29_FORMATS)
    return out


def _c29_effective(k):
    """{name: format} as seen on an instance of class k"""
    if k < C29_PLAIN:
        return _c29_decl(k)
    return dict(_c29_decl(k - C29_PLAIN), **_c29_decl(k))


def _c29_formats(k):
    eff = _c29_effective(k)
    return [eff[n] for n in sorted(eff)]


def _make_c29_classes():
    import sys
    sys.path.insert(0, __import__("os").environ.get("EBPFCAT_REPO", "/repo"))
    from ebpfcat.ebpfcat import Device, DeviceVar
    out = []
    for k in range(C29_PLAIN + C29_DERIVED):
        ns = {n: DeviceVar(f, write=True) for n, f in _c29_decl(k).items()}
        ns["__module__"] = __name__
        ns["__qualname__"] = f"C29Dev{k}"
        if k in (1, 5, 6):
            # devices that compare (and hash) equal when they are configured
            # alike, as a dataclass(unsafe_hash=True) device would: two
            # instances are still two devices
            ns["__eq__"] = lambda a, b: type(a) is type(b)
            ns["__hash__"] = lambda a: 4711
        base = Device if k < C29_PLAIN else out[k - C29_PLAIN]
        cls = type(f"C29Dev{k}", (base,), ns)
        cls.c29_vars = _c29_effective(k)
        out.append(cls)
        globals()[f"C29Dev{k}"] = cls
    return out


C29_CLASSES = None


def c29_classes():
    global C29_CLASSES
    if C29_CLASSES is None:
        C29_CLASSES = _make_c29_classes()
    return C29_CLASSES


def __getattr__(name):
    # lets pickle resolve vf.procchild.C29DevK in a fresh child
    if name.startswith("C29Dev"):
        c29_classes()
        return globals()[name]
    if name == "SimParallelEtherCat":
        return _make_sim_parallel()
    raise AttributeError(name)


# ---------------------------------------------------------------------------
# C24 (process kind): a ParallelEtherCat whose run() attaches the simulated
# bus inside the spawned child instead of touching lock files / XDP
# ---------------------------------------------------------------------------
def _make_sim_parallel():
    import sys
    sys.path.insert(0, __import__("os").environ.get("EBPFCAT_REPO", "/repo"))
    from contextlib import asynccontextmanager
    from ebpfcat.ebpfcat import ParallelEtherCat
    from ebpfcat.lock import MailboxLock

    class SimParallelEtherCat(ParallelEtherCat):
        sim_terms = None      # description of the simulated terminals
        report = None         # file the child writes what the bus saw
        ops = None            # shared counter of frames seen by the bus
        silent_after = None   # cyclic frames answered before the bus falls
        #                       silent for cyclic frames (cable pulled)
        _next = 0x01000000

        def __getstate__(self):
            return (self.addr[0], self.sim_terms, self.report, self.ops,
                    self.silent_after)

        def __setstate__(self, st):
            self.__init__(st[0])
            self.sim_terms, self.report, self.ops, self.silent_after = st[1:]

        def get_mbx_lock(self, no):
            return MailboxLock()

        def get_fmmu_addr(self):
            SimParallelEtherCat._next += 0x1000
            return SimParallelEtherCat._next

        @asynccontextmanager
        async def run(self):
            import asyncio
            import json
            import os
            from vf import bus, simgroup
            sims = simgroup.make_sims(self.sim_terms)
            b = bus.Bus(sims)
            ops = self.ops
            silent_after = self.silent_after
            ncyc = [0]

            def policy(nf, data):
                from vf import frames
                resp = b.process(data)
                if ops is not None:
                    with ops.get_lock():
                        ops.value += 1      # frames the bus has seen
                try:
                    dgs = frames.parse(data)[2]
                except Exception:
                    dgs = []
                cyclic = any(d.cmd in (10, 11, 12) or
                             (d.cmd in (4, 5) and d.addr[1] in (0x1000,
                                                                0x1100))
                             for d in dgs[1:])
                if cyclic:
                    ncyc[0] += 1
                    if silent_after is not None and ncyc[0] > silent_after:
                        return []
                return [(0.0001, resp)]
            bus.attach(self, asyncio.get_event_loop(), b, policy)
            try:
                yield
            finally:
                rep = dict(al={s.name: [e[1] for e in s.events
                                        if e[0] == "al_control"]
                               for s in sims},
                           fmmu_active={s.name: [
                               i for i in range(s.nfmmu)
                               if s.mem[0x600 + 16 * i + 12] & 1]
                               for s in sims})
                with open(self.report + ".tmp", "w") as f:
                    json.dump(rep, f)
                os.replace(self.report + ".tmp", self.report)
    SimParallelEtherCat.__module__ = __name__
    SimParallelEtherCat.__qualname__ = "SimParallelEtherCat"
    globals()["SimParallelEtherCat"] = SimParallelEtherCat
    return SimParallelEtherCat


def c29_child(sg, conn):
    """runs in the spawned process: report what is visible, then write"""
    try:
        while True:
            msg = conn.recv()
            if msg[0] == "quit":
                break
            if msg[0] == "read":
                vals = []
                for d in sg.devices:
                    cls = type(d)
                    vals.append([getattr(d, n) for n in sorted(cls.c29_vars)])
                conn.send(("values", vals))
            elif msg[0] == "write":
                for d, row in zip(sg.devices, msg[1]):
                    cls = type(d)
                    names = sorted(cls.c29_vars)
                    for n, v in zip(names, row):
                        setattr(d, n, v)
                conn.send(("done",))
    except Exception as ex:
        import traceback
        conn.send(("error", f"{type(ex).__name__}: {ex}",
                   traceback.format_exc()[-600:]))
