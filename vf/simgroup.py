"""shared rig: a master with slow/fast sync groups on the simulated bus"""
import random
import struct

from . import bus, use_repo
use_repo()

from ebpfcat.ebpfcat import (  # noqa: E402
    Device, PacketVar, SyncManager, TerminalVar)
from . import ecat  # noqa: E402


class RecDevice(Device):
    """records the input it sees at every update and drives a fresh output"""
    inp = TerminalVar()
    out = TerminalVar()

    def __init__(self, inp, out, tag):
        self.inp = inp
        if out is not None:
            self.out = out
        self.has_out = out is not None
        self.tag = tag
        self.seen = []
        self.sent = []
        self.n = 0

    def update(self):
        self.seen.append(self.inp)
        self.n += 1
        if self.has_out:
            v = (self.tag * 257 + self.n * 13) & 0xffff or 1
            self.out = v
            self.sent.append(v)

    def program(self):
        pass


def gen_terms(rng, nmax=5):
    terms = []
    for i in range(rng.randint(1, nmax)):
        terms.append(dict(pos=20 + i, isz=rng.choice([2, 2, 4, 6, 10]),
                          osz=rng.choice([2, 2, 4, 8]),
                          fmmu=rng.random() < 0.6, rw=rng.random() < 0.6))
    return terms


def make_rig(terms, ec):
    """real offline-parsed terminals + devices for the given description"""
    ts, devs = [], []
    for k, d in enumerate(terms):
        t = ecat.OfflineTerminal(ec)
        t.position = d["pos"]
        t.name = f"T{d['pos']}"
        t.use_fmmu = d["fmmu"]
        t.pdos = {}
        t.pdo_in_sz, t.pdo_in_off = d["isz"], 0x1100
        t.pdo_out_sz, t.pdo_out_off = d["osz"], 0x1000
        t.fmmu_used = [None] * 4
        ts.append(t)
        devs.append(RecDevice(
            PacketVar(t, SyncManager.IN, 0, "H"),
            PacketVar(t, SyncManager.OUT, 0, "H") if d["rw"] else None, k))
    return ts, devs


def make_sims(terms, start_state=bus.PREOP):
    sims = []
    for d in terms:
        s = bus.SimTerminal(f"T{d['pos']}", station=d["pos"])
        s.al_state = start_state
        sims.append(s)
    return sims
