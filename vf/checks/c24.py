"""C24 cancelling a sync group releases its resources and ends cancelled"""
import asyncio
import logging
import os
import random
import shutil
import struct
import time

from .. import aio, bus, ecat, kern, procchild, simgroup, use_repo
from ..core import Result
use_repo()

from ebpfcat.ebpfcat import (  # noqa: E402
    FastSyncGroup, ParallelEtherCat, ProcessSyncGroup, SimpleEtherCat,
    SyncGroup, SyncManager)

PROPERTY = "C24"
LEVEL = "fault_enumeration"
RULE = ("for slow SyncGroup and FastSyncGroup (real program load and real "
        "PROG_ARRAY in the kernel) over random small terminal sets on the "
        "simulated bus: run 0 counts the event-loop iterations from start() "
        "until three cycles are done; run k (for EVERY k quick: every 2nd) "
        "cancels the group's task at iteration k - a superset of the "
        "suspension points of the task and of the helper tasks it gathers. "
        "Process-based kind: the parent-side ProcessSyncGroup.wait_for_"
        "process with the real ProcessSyncGroup.start(): a real spawned child "
        "running the real subprocess_run / run over the simulated bus, "
        "cancelled at several points. Oracle: awaiting the task raises "
        "CancelledError and nothing else; every terminal model that received "
        "an OPERATIONAL request later received SAFE-OPERATIONAL; the slot "
        "table of every terminal is free; the program-table entry is gone "
        "(fast); the child exited (process-based). a case = one cancellation "
        "point; non-trivial = the cancellation hit the task while it was "
        "still running")
ASSUMPTIONS = ["exactly one cancellation per run, injected during start-up "
               "or normal cycling (not inside the clean-up itself)",
               "process-based kind: only ParallelEtherCat.run is replaced "
               "(inside the child) by the simulated bus; cancellation points "
               "are wall-clock delays from 0 (child still booting) to 1.5 s "
               "(cycling), the verdict is logical (task outcome, child exit, "
               "frames exchanged after the stop request, AL-control log)"]
MIN_EVALUATIONS = {"quick": 150, "thorough": 3000}
LEVEL = "fault_enumeration"


def plan(tier, seed):
    n = 5 if tier == "quick" else 20
    shards = [dict(seed=seed, shard=i, n=n, kind="slow", tier=tier)
              for i in range(8)]
    shards += [dict(seed=seed, shard=20 + i, n=max(1, n // 2), kind="fast",
                    tier=tier) for i in range(6)]
    shards += [dict(seed=seed, shard=40 + i, n=5 if tier == "quick" else 25,
                    kind="process", tier=tier) for i in range(2)]
    return shards


def run_group(kind, terms, cancel_at, sess, rseed):
    """returns dict(outcome, iterations, sims, ts, ...)"""
    random.seed(rseed)
    # the slot a fast group draws in the program table: the boundary values
    # now and then (derived from the seed so that both runs of a case agree)
    import ebpfcat.ebpfcat as ecmod_
    forced = {0: 0, 1: 0, 2: 63}.get(rseed % 7)
    orig_rr = ecmod_.randrange
    if forced is not None:
        ecmod_.randrange = lambda a, b=None: forced \
            if b is None and a == 64 else orig_rr(a, b) \
            if b is not None else orig_rr(a)
    try:
        return _run_group(kind, terms, cancel_at, sess, rseed)
    finally:
        ecmod_.randrange = orig_rr


def _run_group(kind, terms, cancel_at, sess, rseed):
    sims = simgroup.make_sims(terms)
    if rseed % 3 == 1:
        # the terminals are where an earlier (cancelled) run of a group, or
        # a bring-up that stops at SAFE-OPERATIONAL, has left them
        for s_ in sims:
            s_.al_state = 4
    b = bus.Bus(sims)
    out = dict(iter_at_3cycles=None)

    class H(logging.Handler):
        def emit(self, record):
            pass
    root = logging.getLogger()
    old = (root.handlers[:], root.level)
    root.handlers = [H()]

    async def main(loop):
        if kind == "fast":
            ec = ecat.OfflineFastEtherCat(sess)
        else:
            ec = SimpleEtherCat("vf")
        bus.attach(ec, loop, b)
        ts, devs = simgroup.make_rig(terms, ec)
        sg = (FastSyncGroup if kind == "fast" else SyncGroup)(ec, devs)
        cycles = [0]
        orig = sg.update_devices

        def upd(data):
            cycles[0] += 1
            if cycles[0] == 3 and out["iter_at_3cycles"] is None:
                out["iter_at_3cycles"] = loop.iterations - base
            return orig(data)
        sg.update_devices = upd
        base = loop.iterations
        # some fast groups are not cancelled directly but by the master
        # shutting down: leaving FastEtherCat.run() cancels every group
        shutdown = kind == "fast" and rseed % 5 == 3
        cm = None
        if shutdown:
            import ebpfcat.ebpfcat as em
            import ebpfcat.ethercat as et
            from contextlib import asynccontextmanager

            class NoXDP:
                """stands in for EtherXDP in run(): no netlink attach"""
                programs = None

                @asynccontextmanager
                async def run(self, ifname):
                    yield

            async def noconnect(self):
                pass
            olds = (em.EtherXDP, et.EtherCat.connect)
            em.EtherXDP, et.EtherCat.connect = NoXDP, noconnect
            try:
                cm = ec.run()
                await cm.__aenter__()
            finally:
                em.EtherXDP, et.EtherCat.connect = olds
            out["shutdown"] = True

        def cancel():
            if cm is not None:
                asyncio.ensure_future(cm.__aexit__(None, None, None))
            else:
                task.cancel()
        task = sg.start()
        out["sg"], out["ts"], out["ec"] = sg, ts, ec
        # the slot tables as somebody who awaits the task finds them when
        # he is woken up (not after the garbage collector has finalised
        # what the task left behind)
        task.add_done_callback(lambda _t: out.__setitem__(
            "slots_at_end", {t.name: list(t.fmmu_used) for t in ts}))
        prev = loop.on_iteration

        def on_iter():
            prev()
            if cancel_at is not None and loop.iterations - base == cancel_at \
                    and not task.done():
                out["cancelled_running"] = True
                cancel()
        loop.on_iteration = on_iter
        if cancel_at is None:
            while cycles[0] < 3 and not task.done():
                await asyncio.sleep(0.002)
            out["cancelled_running"] = not task.done()
            cancel()
        try:
            await asyncio.wait_for(asyncio.shield(asyncio.gather(
                task, return_exceptions=True)), 5)
        except asyncio.TimeoutError:
            out["outcome"] = "hangs"
            return
        if task.cancelled():
            out["outcome"] = "cancelled"
        else:
            ex = task.exception()
            out["outcome"] = f"raised {type(ex).__name__}: {str(ex)[:80]}" \
                if ex else "returned"
        out["cycles"] = cycles[0]
        # let clean-up traffic drain
        await asyncio.sleep(0.05)
    try:
        aio.run(main, wall_limit=40)
    finally:
        root.handlers, root.level = old
    out["sims"] = sims
    return out


def judge(kind, terms, out, sess):
    if out.get("outcome") != "cancelled":
        return "outcome", f"the task ended '{out.get('outcome')}'"
    for s, d in zip(out["sims"], terms):
        ctl = [e[1] for e in s.events if e[0] == "al_control"]
        if 8 in ctl:
            last_op = len(ctl) - 1 - ctl[::-1].index(8)
            if 4 not in ctl[last_op + 1:]:
                return "safeop", (f"{s.name} was asked to go OPERATIONAL "
                                  f"but not back to SAFE-OPERATIONAL "
                                  f"(requests {ctl})")
    for t in out["ts"]:
        if any(x is not None for x in t.fmmu_used):
            return "fmmu", f"{t.name} still holds FMMU slots {t.fmmu_used}"
    for name, slots in out.get("slots_at_end", {}).items():
        if any(x is not None for x in slots):
            return "fmmu", (f"{name} still held FMMU slots {slots} when "
                            f"the cancelled task was over")
    if kind == "fast":
        ec = out["ec"]
        if ec.sync_groups:
            return "progtable", f"sync_groups still {list(ec.sync_groups)}"
        for i in range(ec.MAX_PROGS):
            if kern.map_lookup(ec.programs, struct.pack("<I", i), 4):
                return "progtable", f"program table entry {i} still set"
    return None


def slow_fast(kind, params, res):
    rng = random.Random(params["seed"] * 100343 + params["shard"])
    for _ in range(params["n"]):
        terms = simgroup.gen_terms(rng, nmax=3)
        rseed = rng.getrandbits(32)
        with kern.session() as sess:
            base = run_group(kind, terms, None, sess, rseed)
        N = base.get("iter_at_3cycles")
        if N is None or base.get("outcome") != "cancelled":
            with kern.session() as sess:
                why = judge(kind, terms, base, sess) if base.get("sims") \
                    else ("outcome", "no run")
            res.violation(f"unexplained:{kind}-baseline",
                          f"uncancelled start-up did not reach 3 cycles / "
                          f"end cancelled: {base.get('outcome')} {why}",
                          case=dict(kind=kind, terms=terms))
            continue
        res.count(f"{kind}_configs")
        res.count(f"{kind}_iterations_to_3_cycles", N)
        step = 1 if params["tier"] == "thorough" else 2
        for k in range(1, N + 1, step):
            with kern.session() as sess:
                try:
                    out = run_group(kind, terms, k, sess, rseed)
                except aio.WallClock:
                    res.inconc(f"watchdog at point {k}")
                    continue
                desc = dict(kind=kind, terms=terms, cancel_at=k, of=N)
                res.case(desc, nontrivial=bool(out.get("cancelled_running")))
                res.count(f"{kind}_points")
                if out.get("shutdown"):
                    res.count("fast_points_cancelled_by_master_shutdown")
                why = judge(kind, terms, out, sess)
            if why:
                key = "unexplained:" + kind + "-" + why[0]
                if why[0] == "safeop":
                    key = "operational-requested-outside-the-finally"
                res.violation(key, f"{kind} group, cancel at iteration "
                              f"{k}/{N}: {why[1]}", case=desc)
            elif len(res.samples) < 2 and k > N // 2:
                res.sample(dict(desc, outcome=out["outcome"],
                                al_requests=[[e[1] for e in s.events
                                              if e[0] == "al_control"]
                                             for s in out["sims"]]))


def process_leg(params, res):
    """the real ProcessSyncGroup.start(): a real spawned child runs the real
    subprocess_run / subprocess_loop / run over the simulated bus (only
    ParallelEtherCat.run is replaced, inside the child); the parent cancels
    the group's task after a seeded delay - from "the child is still
    booting" to "cycling" - and the verdict is read from the task, the
    child's exit and the AL-control requests the child's bus recorded"""
    import json
    import os
    import signal
    import tempfile
    import time
    rng = random.Random(params["seed"] * 100357 + params["shard"])
    SimEC = procchild.SimParallelEtherCat
    for i in range(params["n"]):
        delays = [0.0, 0.02, 0.1, 0.3, 0.6, 1.0, 1.5, 0.05, 0.2, 0.45]
        delay = delays[(i * 2 + params["shard"]) % len(delays)]
        terms = simgroup.gen_terms(rng, nmax=2)
        # the cyclic frames stop coming back after so many cycles (cable
        # pulled behind the master): cancelling must still end the group
        silent = rng.choice([None, None, 2, 8, 40])
        restart = i % 2 == 1
        if restart:
            delay = max(delay, 0.45)      # the first run is cycling
        desc = dict(kind="process", cancel_after=delay, terms=terms,
                    cyclic_frames_answered=silent, restart=restart)
        if silent is not None:
            res.count("process_points_on_a_bus_that_falls_silent")
        tmp = tempfile.mkdtemp(prefix="vf-c24p-")
        report = os.path.join(tmp, "report.json")

        async def main():
            ec = SimEC("vf")
            ec.sim_terms, ec.report = terms, report
            ec.silent_after = silent
            ts, devs = simgroup.make_rig(terms, ec)
            sg = ProcessSyncGroup(ec, devs)
            ec.ops = sg.ctx.Value("I")
            task = sg.start()
            await asyncio.sleep(delay)
            if restart:
                # "the first run is cycling" is read from the frame counter,
                # not from the clock: a spawned child needs seconds to come
                # up on a busy machine
                t0 = time.time()
                while ec.ops.value < 1 and not task.done():
                    await asyncio.sleep(0.005)
                    if time.time() - t0 > 60:
                        sg.process.kill()
                        task.cancel()
                        await asyncio.gather(task, return_exceptions=True)
                        return "watchdog", True, None, 0
            running = not task.done()
            ops_at_cancel = ec.ops.value
            # in half of the restarts the first subprocess is not given the
            # CPU between the cancellation and the second start (a stopped
            # process is a possible schedule on a busy machine; made sure of
            # here with SIGSTOP .. SIGCONT)
            frozen = None
            if restart and i % 4 == 3 and running and \
                    getattr(sg, "process", None) is not None and \
                    sg.process.is_alive():
                frozen = sg.process.pid
                os.kill(frozen, signal.SIGSTOP)
                res.count("restarts_with_the_first_subprocess_stopped")
            task.cancel()
            if restart:
                # the group is started again right after the cancellation
                # was delivered (one pass of the event loop), before the
                # first subprocess had a chance to look at its flag; then
                # the second run is cancelled as well
                await asyncio.sleep(0)
                old_proc = sg.process
                try:
                    task2 = sg.start()
                finally:
                    if frozen is not None:
                        os.kill(frozen, signal.SIGCONT)
                # bounded progress: the first subprocess is over before
                # hundreds of further frames have been exchanged (it looks
                # at its flag once per cycle)
                ops0 = ec.ops.value
                t0 = time.time()
                lingering = False
                while old_proc.is_alive():
                    await asyncio.sleep(0.002)
                    if ec.ops.value - ops0 > 300:
                        lingering = True
                        break
                    if time.time() - t0 > 90:
                        break
                if lingering:
                    for p_ in (old_proc, sg.process):
                        if p_.is_alive():
                            p_.kill()
                    task.cancel()
                    task2.cancel()
                    await asyncio.gather(task, task2, return_exceptions=True)
                    return "restart-first-subprocess-keeps-running", \
                        running, None, ec.ops.value - ops0
                await asyncio.sleep(0.1)
                ops_at_cancel = ec.ops.value
                task2.cancel()
                t0 = time.time()
                verdict = None
                while not (task.done() and task2.done()):
                    await asyncio.sleep(0.002)
                    if ec.ops.value - ops_at_cancel > 400:
                        verdict = "keeps-running"
                        break
                    if time.time() - t0 > 90:
                        verdict = "watchdog"
                        break
                old_alive = old_proc.is_alive()
                for p_ in (old_proc, sg.process):
                    if p_.is_alive():
                        p_.kill()
                task.cancel()
                task2.cancel()
                await asyncio.gather(task, task2, return_exceptions=True)
                if verdict == "keeps-running" or (verdict is None
                                                  and old_alive):
                    return ("restart-first-subprocess-keeps-running"
                            if old_alive else "keeps-running"), running, \
                        None, ec.ops.value - ops_at_cancel
                if verdict:
                    return verdict, running, None, 0
                return "restart-ok", running, False, \
                    ec.ops.value - ops_at_cancel
            t0 = time.time()
            verdict = None
            while not task.done():
                await asyncio.sleep(0.002)
                # logical bound: the child keeps cycling although it was
                # told to stop (hundreds of frames after the request)
                if ec.ops.value - ops_at_cancel > 400 and \
                        sg.process.is_alive():
                    verdict = "keeps-running"
                    break
                if time.time() - t0 > 90:
                    verdict = "watchdog"
                    break
            if verdict:
                sg.process.kill()
                task.cancel()
                await asyncio.gather(task, return_exceptions=True)
                return verdict, running, None, ec.ops.value - ops_at_cancel
            # the moment the task is over its subprocess must be over too
            proc = getattr(sg, "process", None)
            alive_at_done = bool(proc is not None and proc.is_alive())
            if task.cancelled():
                oc = "cancelled"
            else:
                ex = task.exception()
                oc = f"raised {type(ex).__name__}: {str(ex)[:80]}" if ex \
                    else "returned"
            if alive_at_done and oc == "cancelled":
                oc = "cancelled-with-the-subprocess-still-running"
            sg.process.join(10)
            alive = sg.process.is_alive()
            if alive:
                sg.process.kill()
            return oc, running, alive, ec.ops.value - ops_at_cancel
        try:
            oc, running, alive, ops_after = asyncio.run(main())
        except Exception as ex:
            import traceback
            res.violation("unexplained:process-harness",
                          f"{type(ex).__name__}: {ex}", case=desc,
                          witness=traceback.format_exc()[-1200:])
            shutil.rmtree(tmp, ignore_errors=True)
            continue
        rep = None
        if os.path.exists(report):
            with open(report) as f:
                rep = json.load(f)
        shutil.rmtree(tmp, ignore_errors=True)
        res.case([desc, i], nontrivial=running)
        res.count("process_points")
        res.count("process_frames_after_cancel", ops_after or 0)
        if oc == "watchdog":
            res.inconc(f"process-based group: neither exit nor progress "
                       f"within 90 s after cancel ({desc})")
            continue
        if oc == "restart-ok":
            res.count("process_groups_started_again_after_cancel")
            continue
        if oc == "restart-first-subprocess-keeps-running":
            res.violation(
                "unexplained:process-child-of-the-first-run-keeps-running",
                f"the group was cancelled after {delay}s and started again "
                f"one loop pass later; the subprocess of the first run was "
                f"still alive {ops_after} frames later (or after both runs "
                f"were cancelled)", case=desc)
            continue
        if oc == "keeps-running":
            res.violation("unexplained:process-child-keeps-running",
                          f"cancelled after {delay}s: the subprocess "
                          f"exchanged {ops_after} more frames and did not "
                          f"stop", case=desc)
            continue
        if oc != "cancelled":
            res.violation("process-group-cancel-raises-unbound-error"
                          if "UnboundLocalError" in oc or "NameError" in oc
                          else "unexplained:process-outcome",
                          f"process-based group cancelled after {delay}s "
                          f"ended '{oc}'", case=desc)
            continue
        if alive:
            res.violation("unexplained:process-child-alive",
                          "child still alive after the cancelled task ended",
                          case=desc)
            continue
        if rep is None:
            res.count("process_child_left_no_report")
            res.violation("unexplained:process-child-died",
                          "the subprocess ended without leaving its bus "
                          "report (it did not leave ec.run() normally)",
                          case=desc)
            continue
        res.count("process_reports")
        bad = None
        for name, ctl in rep["al"].items():
            if 8 in ctl:
                res.count("process_terminals_asked_operational")
                last_op = len(ctl) - 1 - ctl[::-1].index(8)
                if 4 not in ctl[last_op + 1:]:
                    bad = (f"{name} was asked to go OPERATIONAL but not "
                           f"back to SAFE-OPERATIONAL (requests {ctl})")
        if bad:
            res.violation("unexplained:process-safeop", bad, case=desc)
        elif len(res.samples) < 3:
            res.sample(dict(desc, outcome=oc, al_requests=rep["al"],
                            frames_after_cancel=ops_after))


def run_shard(params):
    res = Result()
    if params["kind"] == "process":
        process_leg(params, res)
    else:
        slow_fast(params["kind"], params, res)
    return res


def finalize(res, tier, seed):
    c = res.counters
    for k in ("slow_points", "fast_points", "process_points"):
        if not c.get(k):
            res.inconc(f"{k}: leg did not run")


def replay(v):
    return Result()
