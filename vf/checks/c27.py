"""C27 the Valve device enforces its safe state on timeout"""
import itertools

from .. import ecat, use_repo
from ..core import Result
use_repo()

import ebpfcat.devices as devices  # noqa: E402
from ebpfcat.ebpfcat import SimpleEtherCat, SyncGroup, SyncManager  # noqa: E402

PROPERTY = "C27"
LEVEL = "exploration"
RULE = ("ALL histories of length <= 3 (quick) / <= 4 (thorough) after a "
        "reset over steps (target in {keep, toggle}) x (4 switch readings) x "
        "(clock advance in {0, just below, exactly, above movingTime}), for "
        "movingTime in {0.5, 5} and safeState in {False, True}, driven "
        "through the real Valve.update/reset with terminal variables bound "
        "to a real slow SyncGroup frame and ebpfcat.devices.monotonic on a "
        "virtual clock; coil, target and error after every update are "
        "compared with a reference automaton of the statement (safeState "
        "False: full automaton; safeState True: error reaction only, as the "
        "quantifier says). a case = one history; non-trivial = the history "
        "contains a step whose clock advance reaches the moving time or a "
        "target change")
ASSUMPTIONS = ["'has not elapsed' means elapsed < movingTime"]
MIN_EVALUATIONS = {"quick": 10000, "thorough": 100000}
LEVEL = "exploration"


class Clock:
    def __init__(self):
        self.t = 1000.0

    def __call__(self):
        return self.t


def steps_for(moving):
    eps = 1.0 / 1024
    advs = [0.0, moving - eps, moving, moving + eps]
    return [(tgl, o, c, a) for tgl in (0, 1) for o in (0, 1) for c in (0, 1)
            for a in advs]


def plan(tier, seed):
    L = 3 if tier == "quick" else 4
    shards = []
    for moving in (0.5, 5.0):
        for safe in (False, True):
            for first in range(8):
                shards.append(dict(moving=moving, safe=safe, L=L,
                                   first=first))
            # the coil on a byte / word variable (reads back 0 / 1, not
            # False / True), the safe state configured as the integer 0 / 1,
            # and a second valve of the same process that rests confirmed
            for first, var in enumerate(["byte", "word", "safeint",
                                         "companion", "byte+companion",
                                         "word+safeint", "companion",
                                         "safeint"] + ["status", "statusH",
                                                       "status+byte",
                                                       "status"] * 2
                                        + ["cycle", "cycle+companion",
                                           "cycle+byte", "cycle"] * 2
                                        + ["process", "process+uptime",
                                           "uptime", "process+uptime+byte",
                                           "process", "process+uptime",
                                           "uptime", "process+uptime"]):
                shards.append(dict(moving=moving, safe=safe, L=L,
                                   first=first % 8, variant=var))
    return shards


def make(variant=""):
    ec = SimpleEtherCat("vf")
    out = ("B",) if "byte" in variant else ("H",) if "word" in variant \
        else ("bit",)
    if "status" in variant:
        # digital inputs delivered as bits of a status byte / word: the
        # switches are linked with ProcessDesc and explicit bit numbers
        # (open = bit 0, closed = bit 1 of 0x6000:01)
        from ebpfcat.ebpfcat import ProcessDesc
        t, v = ecat.make_terminal(
            ec, 1, [("H",) if "statusH" in variant else ("B",)], [out],
            use_fmmu=False)
        t.__class__ = type("StatusTerminal", (type(t),), dict(
            sw_open=ProcessDesc(0x6000, 1, 0),
            sw_closed=ProcessDesc(0x6000, 1, 1)))
        v[SyncManager.IN, 0], v[SyncManager.IN, 1] = t.sw_open, t.sw_closed
    else:
        t, v = ecat.make_terminal(ec, 1, [("bit",), ("bit",)], [out],
                                  use_fmmu=False)
    valve = devices.Valve()
    valve.openSwitch = v[SyncManager.IN, 0]
    valve.closedSwitch = v[SyncManager.IN, 1]
    valve.coil = v[SyncManager.OUT, 0]
    devs = [valve]
    valve.companion = None
    if "companion" in variant:
        t2, v2 = ecat.make_terminal(ec, 2, [("bit",), ("bit",)], [("bit",)],
                                    use_fmmu=False)
        other = devices.Valve()
        other.openSwitch = v2[SyncManager.IN, 0]
        other.closedSwitch = v2[SyncManager.IN, 1]
        other.coil = v2[SyncManager.OUT, 0]
        devs.append(other)
        valve.companion = (other, t2)
    if "process" in variant:
        # the sync group whose device variables live in shared memory; the
        # subprocess is not started, its cycle (Device.update) is driven
        # by hand like everywhere in this check
        from ebpfcat.ebpfcat import ProcessSyncGroup
        sg = ProcessSyncGroup(ec, devs)
        sg.allocate()
        sg._current_data = sg.ctx.Array("B", max(64, sg.packet.size))
    else:
        sg = SyncGroup(ec, devs)
        sg.allocate()
        sg.current_data = bytearray(max(64, sg.packet.size))
    # independent positions of the three bits in the frame
    a = sg.pdo_assign[t]
    pos = dict(open=(a[SyncManager.IN], 0), closed=(a[SyncManager.IN], 1),
               coil=(a[SyncManager.OUT], 0))
    return valve, sg, pos


def run_shard(params):
    res = Result()
    moving, safe, L = params["moving"], params["safe"], params["L"]
    clock = Clock()
    old = devices.monotonic
    devices.monotonic = clock
    import logging
    logging.disable(logging.WARNING)
    try:
        variant = params.get("variant", "")
        valve, sg, pos = make(variant)
        if variant:
            res.count("shards_with_variant[" + variant + "]")
        valve.movingTime = moving
        valve.safeState = int(safe) if "safeint" in variant else safe
        comp = valve.companion
        if comp:
            # the companion rests closed with its closed switch active
            ca = sg.pdo_assign[comp[1]]
            cpos = ca[SyncManager.IN]
            comp[0].movingTime = moving
            comp[0].safeState = False
        data = sg.current_data
        allsteps = steps_for(moving)
        firsts = allsteps[params["first"]::8]

        def setbit(name, val):
            p, b = pos[name]
            if val:
                data[p] |= 1 << b
            else:
                data[p] &= ~(1 << b)

        def getbit(name):
            p, b = pos[name]
            return bool(data[p] >> b & 1)

        nhist = 0
        for ln in range(1, L + 1):
            for f in firsts:
                for rest in itertools.product(allsteps, repeat=ln - 1):
                    hist = (f,) + rest
                    # ---- fresh device state; every few histories the
                    # group gets a new frame buffer, as a restarted group
                    # does (SyncGroup.start allocates current_data anew)
                    nhist += 1
                    if nhist % 5 == 0 and "process" not in variant:
                        sg.current_data = bytearray(len(data))
                        data = sg.current_data
                        res.count("histories_after_a_buffer_change")
                    data[:] = bytes(len(data))
                    if "process" in variant:
                        # (the instance dict holds the variables' places in
                        # the shared map there)
                        valve.target = False
                        valve.error = False
                    else:
                        valve.__dict__.pop("target", None)
                        valve.__dict__.pop("error", None)
                    # (a control PC that has been up for 120 days)
                    clock.t = 10368000.0 + 0.1 * (nhist % 7) \
                        if "uptime" in variant else 1000.0
                    valve.movingTime = moving
                    valve.reset()
                    if comp:
                        comp[0].__dict__.pop("target", None)
                        comp[0].__dict__.pop("error", None)
                        comp[0].reset()
                    m_coil, m_target, m_error = False, False, False
                    m_last = clock.t
                    nontriv = False
                    ok = True
                    mt = moving
                    # in some histories the moving time is re-configured
                    # after the first update (halved / doubled): "the moving
                    # time" is the one in force when the device looks
                    change = (moving / 2 if nhist % 2 else moving * 2) \
                        if nhist % 3 == 0 and len(hist) >= 2 else None
                    if change is not None:
                        res.count("histories_with_a_moving_time_change")
                    for stepno, (tgl, o, c, adv) in enumerate(hist):
                        if stepno == 1 and change is not None:
                            valve.movingTime = mt = change
                        clock.t += adv
                        if tgl:
                            valve.target = not valve.target
                            m_target = not m_target
                            nontriv = True
                        if adv >= moving:
                            nontriv = True
                        setbit("open", o)
                        setbit("closed", c)
                        if "status" in variant:
                            # the other bits of the status byte are somebody
                            # else's
                            p_ = pos["open"][0]
                            data[p_] = (data[p_] & 3) | (
                                (nhist * 37 + stepno * 11) & 0xfc)
                        err_before = bool(valve.error)
                        if comp:
                            data[cpos] = (data[cpos] & ~3) | 2   # closed
                            if "cycle" not in variant:
                                comp[0].update()
                        if "cycle" in variant:
                            # the way a received frame reaches the devices;
                            # now and then a datagram comes back with a
                            # wrong working counter (another terminal of the
                            # datagram is off): the valve is looked after
                            # all the same
                            for pos_, cnt_ in sg.packet.counters.items():
                                data[pos_] = cnt_ + (
                                    1 if (nhist + stepno) % 3 == 0 else 0)
                                data[pos_ + 1] = 0
                            sg.wkc_errors = 0
                            sg.update_devices(bytes(data))
                            res.count("updates_through_update_devices")
                        else:
                            valve.update()
                        g_coil, g_target, g_error = (
                            getbit("coil"), bool(valve.target),
                            bool(valve.error))
                        if not safe:
                            confirm = (o and not c) if m_coil \
                                else (c and not o)
                            if confirm:
                                m_last = clock.t
                                m_coil = m_target
                            elif clock.t - m_last < mt:
                                m_coil = m_target
                            else:
                                m_error = True
                                m_coil = m_target = safe
                            if (g_coil, g_target, g_error) != \
                                    (m_coil, m_target, m_error):
                                res.violation(
                                    "unexplained:automaton",
                                    f"movingTime {moving}"
                                    + (f" (changed to {change} after the "
                                       f"first update)" if change else "")
                                    + f": after {hist} "
                                    f"device has coil/target/error "
                                    f"{(g_coil, g_target, g_error)}, "
                                    f"automaton "
                                    f"{(m_coil, m_target, m_error)}",
                                    case=dict(moving=moving, safe=safe,
                                              history=hist))
                                ok = False
                                break
                        else:
                            if g_error and not err_before:
                                res.count("error_reactions_checked")
                                if (g_coil, g_target) != (safe, safe):
                                    res.violation(
                                        "error-reaction-ignores-safeState",
                                        f"safeState {safe}: error flagged "
                                        f"but coil/target = "
                                        f"{(g_coil, g_target)} after {hist}",
                                        case=dict(moving=moving, safe=safe,
                                                  history=hist))
                                    ok = False
                                    break
                            m_target = g_target
                        if g_error:
                            res.count("updates_with_error")
                        res.count("updates")
                    res.case([moving, safe, hist], nontrivial=nontriv)
                    if ok and len(res.samples) < 2 and ln == L:
                        res.sample(dict(movingTime=moving, safeState=safe,
                                        history=hist,
                                        final=(g_coil, g_target, g_error)))
    finally:
        devices.monotonic = old
        logging.disable(logging.NOTSET)
    res.info["exhaustive"] = True
    return res


def finalize(res, tier, seed):
    if not res.counters.get("updates_with_error"):
        res.inconc("the error branch was never reached")


def replay(v):
    return Result()
