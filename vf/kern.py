"""K: thin, independent wrappers around bpf(2) and fd hygiene

Uses ebpfcat.bpf.bpf only as the raw syscall trampoline (pack attr, call,
unpack); everything else (attr layouts, buffers) is ours.
"""
import ctypes
import os
from contextlib import contextmanager

from . import use_repo
use_repo()

import ebpfcat.bpf as _bpf  # noqa: E402
import ebpfcat.arraymap as _arraymap  # noqa: E402
import ebpfcat.hashmap as _hashmap  # noqa: E402

_libc = ctypes.CDLL("libc.so.6", use_errno=True)
SYS_BPF = _bpf.SYS_BPF

_raw_create_map = _bpf.create_map
_raw_prog_load = _bpf.prog_load


def _syscall(cmd, attr):
    ret = _libc.syscall(SYS_BPF, ctypes.c_int(cmd), attr, len(attr))
    if ret == -1:
        e = ctypes.get_errno()
        raise OSError(e, os.strerror(e))
    return ret


class Session:
    """remembers every map / program fd created during one case"""

    def __init__(self):
        self.fds = []
        self.maps = {}   # fd -> dict(type, key_size, value_size, max_entries)

    def create_map(self, map_type, key_size, value_size, max_entries,
                   attributes=_bpf.MapFlags(0)):
        fd = _raw_create_map(map_type, key_size, value_size, max_entries,
                             attributes)
        self.fds.append(fd)
        self.maps[fd] = dict(type=map_type, key_size=key_size,
                             value_size=value_size, max_entries=max_entries,
                             flags=attributes)
        return fd

    def prog_load(self, *a, **kw):
        fd, log = _raw_prog_load(*a, **kw)
        self.fds.append(fd)
        return fd, log

    def track(self, fd):
        self.fds.append(fd)
        return fd

    def close(self):
        for fd in self.fds:
            try:
                os.close(fd)
            except OSError:
                pass
        self.fds = []
        self.maps = {}


_current = None


def _create_map_proxy(*a, **kw):
    if _current is not None:
        return _current.create_map(*a, **kw)
    return _raw_create_map(*a, **kw)


def _prog_load_proxy(*a, **kw):
    if _current is not None:
        return _current.prog_load(*a, **kw)
    return _raw_prog_load(*a, **kw)


def install():
    """route the library's map/program creation through the session"""
    _bpf.create_map = _create_map_proxy
    _arraymap.create_map = _create_map_proxy
    _hashmap.create_map = _create_map_proxy
    _bpf.prog_load = _prog_load_proxy
    try:
        import ebpfcat.ebpfcat as _ec
        _ec.create_map = _create_map_proxy
    except Exception:
        pass


install()


@contextmanager
def session():
    global _current
    old = _current
    s = _current = Session()
    try:
        yield s
    finally:
        _current = old
        s.close()


# ---------------------------------------------------------------------------

def prog_load(prog_type, insns, license="GPL", log_level=1,
              log_size=1 << 20, name="vf"):
    """load; returns (fd, log).  Raises OSError with .log on rejection"""
    import struct
    insns = bytes(insns)
    ibuf = ctypes.create_string_buffer(insns, len(insns))
    lic = ctypes.create_string_buffer(license.encode())
    logbuf = ctypes.create_string_buffer(log_size) if log_level else None
    attr = struct.pack(
        "IIQQIIQII16sII", getattr(prog_type, "value", prog_type),
        len(insns) // 8, ctypes.addressof(ibuf), ctypes.addressof(lic),
        log_level, log_size if log_level else 0,
        ctypes.addressof(logbuf) if log_level else 0, 0, 0,
        name.encode()[:15], 0, 0)
    attr = ctypes.create_string_buffer(attr, len(attr))
    try:
        fd = _syscall(5, attr)
    except OSError as e:
        if e.errno == 28 and log_level:   # ENOSPC: log too small
            return prog_load(prog_type, insns, license, 0, 0, name)
        e.log = logbuf.value.decode(errors="replace") if log_level else ""
        raise
    if _current is not None:
        _current.track(fd)
    return fd, (logbuf.value.decode(errors="replace") if log_level else "")


def test_run(fd, data_in, repeat=1, out_size=None):
    """BPF_PROG_TEST_RUN; returns (retval, full output packet, duration)"""
    import struct
    data_in = bytes(data_in)
    if out_size is None:
        out_size = len(data_in) + 256
    ibuf = ctypes.create_string_buffer(data_in, len(data_in))
    obuf = ctypes.create_string_buffer(out_size)
    attr = struct.pack("IIIIQQII20x", fd, 0, len(data_in), out_size,
                       ctypes.addressof(ibuf), ctypes.addressof(obuf),
                       repeat, 0)
    attr = ctypes.create_string_buffer(attr, len(attr))
    _syscall(10, attr)
    _, retval, _, size_out, _, _, _, duration = struct.unpack(
        "IIIIQQII20x", attr.raw)
    return retval, obuf.raw[:size_out], duration


def map_lookup(fd, key, value_size):
    import struct
    kbuf = ctypes.create_string_buffer(bytes(key), len(key))
    # never trust the caller's idea of the value size: the harness must not
    # be the one that lets the kernel overrun a buffer
    vbuf = ctypes.create_string_buffer(safe_value_size(fd, value_size))
    attr = struct.pack("IQQQ", fd, ctypes.addressof(kbuf),
                       ctypes.addressof(vbuf), 0)
    attr = ctypes.create_string_buffer(attr, len(attr))
    try:
        _syscall(1, attr)
    except OSError as e:
        if e.errno == 2:
            return None
        raise
    return vbuf.raw[:value_size]


def map_info(fd):
    """(type, key_size, value_size, max_entries) the kernel reports for fd
    (BPF_OBJ_GET_INFO_BY_FD): what the map really is, whatever the code under
    test believes"""
    import struct
    info = ctypes.create_string_buffer(88)
    attr = struct.pack("IIQ", fd, 88, ctypes.addressof(info))
    attr = ctypes.create_string_buffer(attr, len(attr))
    _syscall(15, attr)
    return struct.unpack_from("IIIII", info.raw)[0:1] + \
        struct.unpack_from("IIIII", info.raw)[2:5]


def prog_id(fd):
    """the kernel's id of the loaded program behind fd"""
    import struct
    info = ctypes.create_string_buffer(232)
    attr = struct.pack("IIQ", fd, 232, ctypes.addressof(info))
    attr = ctypes.create_string_buffer(attr, len(attr))
    _syscall(15, attr)
    return struct.unpack_from("II", info.raw)[1]


PERCPU_TYPES = (5, 6, 10, 21)


def safe_value_size(fd, value_size):
    """bytes the kernel may write for one lookup on this fd"""
    try:
        t, ks, vs, n = map_info(fd)
    except OSError:
        return value_size
    if t in PERCPU_TYPES:
        return max(value_size, (vs + 7) // 8 * 8 * possible_cpus())
    return max(value_size, vs)


def map_update(fd, key, value, flags=0):
    import struct
    kbuf = ctypes.create_string_buffer(bytes(key), len(key))
    vbuf = ctypes.create_string_buffer(bytes(value), len(value))
    attr = struct.pack("IQQQ", fd, ctypes.addressof(kbuf),
                       ctypes.addressof(vbuf), flags)
    attr = ctypes.create_string_buffer(attr, len(attr))
    _syscall(2, attr)


def map_delete(fd, key):
    import struct
    kbuf = ctypes.create_string_buffer(bytes(key), len(key))
    attr = struct.pack("IQ", fd, ctypes.addressof(kbuf))
    attr = ctypes.create_string_buffer(attr, len(attr))
    try:
        _syscall(3, attr)
    except OSError as e:
        if e.errno == 2:
            return False
        raise
    return True


def map_keys(fd, key_size):
    import struct
    out = []
    nbuf = ctypes.create_string_buffer(key_size)
    attr = struct.pack("IQQ", fd, 0, ctypes.addressof(nbuf))
    attr = ctypes.create_string_buffer(attr, len(attr))
    try:
        _syscall(4, attr)
    except OSError as e:
        if e.errno == 2:
            return out
        raise
    while True:
        cur = nbuf.raw
        out.append(cur)
        kbuf = ctypes.create_string_buffer(cur, key_size)
        attr = struct.pack("IQQ", fd, ctypes.addressof(kbuf),
                           ctypes.addressof(nbuf))
        attr = ctypes.create_string_buffer(attr, len(attr))
        try:
            _syscall(4, attr)
        except OSError as e:
            if e.errno == 2:
                return out
            raise
        if len(out) > 100000:
            raise RuntimeError("key iteration does not terminate")


def map_dump(fd, key_size, value_size):
    return {k: map_lookup(fd, k, value_size) for k in map_keys(fd, key_size)}


def possible_cpus():
    with open("/sys/devices/system/cpu/possible") as f:
        s = f.read().strip()
    n = 0
    for part in s.split(","):
        if "-" in part:
            a, b = part.split("-")
            n = max(n, int(b) + 1)
        else:
            n = max(n, int(part) + 1)
    return n


def available():
    try:
        fd = _raw_create_map(_bpf.MapType.ARRAY, 4, 8, 1)
        os.close(fd)
        return True
    except OSError:
        return False
