"""C23 processes sharing an interface coordinate the dispatcher safely"""
import asyncio
import random
import shutil
import tempfile
import threading

from .. import gates, use_repo
from ..core import Result
use_repo()

import ebpfcat.ebpfcat as ecmod  # noqa: E402
import ebpfcat.lock as lockmod  # noqa: E402
from ebpfcat.ebpfcat import ParallelEtherCat  # noqa: E402

PROPERTY = "C23"
LEVEL = "exploration"
RULE = ("2-3 participants run the real ParallelEtherCat.run() enter / hold / "
        "exit, each in its own thread; every file-system and kernel "
        "operation goes through a gate proxy (paths redirected into a "
        "scratch root; real files, O_EXCL, rename, rmdir; attach / detach / "
        "pin / get are recording stubs with the real error behaviour; "
        "record locks modelled by a lock table). The scheduler enumerates "
        "ALL schedules with <= p preemptions for 2 participants (p=2 quick, 3 "
        "thorough) and a seeded sample for 3 participants. History checker "
        "over the serialised effects: installers never overlap; no detach / "
        "unpin while another participant is running or installing; while a "
        "participant is running the dispatcher is attached and the program "
        "table pinned; ethertypes of concurrently running participants are "
        "distinct; logical address windows of concurrently live "
        "participants are disjoint (random window choice narrowed to 1..3 so "
        "that collisions show); failing participants are counted by kind. "
        "Second leg, the FMMU address map alone: 2 (enumerated) and 3-4 "
        "(sampled) participants create, hold and remove FMMULocks twice "
        "each, every os / lockf call a scheduling point, random draws from "
        "six addresses spread over three bitmap bytes: windows held at the "
        "same time are distinct. Restart leg: sampled schedules of 2-3 "
        "participants of which one runs its ParallelEtherCat object a second "
        "time, half of them shaped by a probe run so that it was the last "
        "to leave before. Window leg (no scheduler): 2-3 participants of "
        "one address map with neighbouring ranges draw 1..2100 windows "
        "each, one leaves, a third joins: windows of different live "
        "participants never overlap. "
        "a case = one "
        "schedule; non-trivial = the participants' operations really "
        "interleave (>= 1 switch while both were enabled)")
ASSUMPTIONS = ["participants are threads, not processes: the only shared "
               "state of real processes (files, the attached program, pins, "
               "record locks) is what the proxies mediate",
               "crash (SIGKILL) points are not explored: the statement gives "
               "no expected outcome for them"]
MIN_EVALUATIONS = {"quick": 150, "thorough": 3000}
SHARD_TIMEOUT = {"quick": 280, "thorough": 3400}


def plan(tier, seed):
    if tier == "quick":
        return [dict(seed=seed, shard=i, of=16, npart=2, budget=2, rnd=10)
                for i in range(16)]
    return [dict(seed=seed, shard=i, of=16, npart=2, budget=3, rnd=150,
                 cap=2500)
            for i in range(16)]


class DummyXDP:
    """stands in for EtherXDP: attach/detach are recorded effects"""
    sched = None

    def __init__(self):
        self.programs = None

    async def attach(self, network, flags=None):
        s = DummyXDP.sched
        s.gate(("attach",))
        s.attached = s.me()
        s.record("attach")

    async def detach(self, network, flags=None):
        s = DummyXDP.sched
        s.gate(("detach",))
        s.record("detach", s.attached)
        s.attached = None

    def close(self):
        pass


def _ino(lock):
    """the file a lock object really works on"""
    import os
    try:
        return os.fstat(lock.fd).st_ino
    except Exception:
        return None


def run_schedule(prefix, npart, rseed, restart=(), hostile=False,
                 director=None):
    """returns (trace, status, events); participants in `restart` run their
    ParallelEtherCat object a second time after they left (a restart of the
    loop in the same process)"""
    root = tempfile.mkdtemp(prefix="vf-c23-")
    import os
    for d in ("/run/lock", "/run/ebpf", "/sys/fs/bpf"):
        os.makedirs(root + d)
    rng = random.Random(rseed)

    def schedule_fn(trace, enabled):
        if director is not None:
            return director(sched, trace, enabled)
        i = len(trace)
        if i < len(prefix) and prefix[i] in enabled:
            return prefix[i]
        if trace and trace[-1][0] in enabled:
            return trace[-1][0]
        return enabled[0]
    sched = gates.Sched(root, schedule_fn)
    prox = gates.Proxies(sched)
    DummyXDP.sched = sched
    old_xdp = ecmod.EtherXDP
    old_rr = lockmod.randrange
    old_err = (ecmod.randrange,)
    prox.install()
    ecmod.EtherXDP = DummyXDP
    # (participants that are not the last to leave keep their address range
    # marked: the narrowed universe must have room for every run)
    lockmod.randrange = lambda a, b=None: rng.randint(1, 3 + 2 * len(restart))
    ecmod.randrange = lambda a, b=None: 0x3000 + rng.randint(0, 2)
    if hostile:
        lockmod.randrange = hostile_draws(
            sched, "running-begin", "running-end",
            [2, 3, 9, 4, 5, 10, 6, 7, 11] + list(range(12, 500)))

    def participant(pid):
        sched.pids[threading.get_ident()] = pid

        async def main():
            ec = ParallelEtherCat("vf0")
            try:
                for _ in range(2 if pid in restart else 1):
                    async with ec.run():
                        sched.gate(("running-begin",))
                        sched.record("running-begin", dict(
                            ethertype=ec.ethertype,
                            base=ec.fmmu_lock_file.base_addr,
                            mbx_file=_ino(ec.mbx_lock_file),
                            fmmu_file=_ino(ec.fmmu_lock_file)))
                        sched.gate(("hold",))
                        sched.gate(("running-end",))
                        sched.record("running-end")
            except gates.Killed:
                raise
            except BaseException as ex:
                sched.record("failed", f"{type(ex).__name__}: {ex}")
        try:
            asyncio.run(main())
        except gates.Killed:
            pass
        except BaseException as ex:
            sched.record("failed", f"{type(ex).__name__}: {ex}")
        finally:
            sched.finished(pid)
    threads = [threading.Thread(target=participant, args=(p,), daemon=True)
               for p in range(npart)]
    try:
        for t in threads:
            t.start()
        trace, status = sched.run(npart)
        if status != "finished":
            with sched.cv:
                sched.killed |= set(range(npart))
                sched.cv.notify_all()
        for t in threads:
            t.join(5)
    finally:
        ecmod.EtherXDP = old_xdp
        prox.uninstall()
        lockmod.randrange = old_rr
        ecmod.randrange = old_err[0]
        shutil.rmtree(root, ignore_errors=True)
    global LAST_HOLDS
    LAST_HOLDS = list(sched.holds)
    return trace, status, sched.events


def hostile_draws(sched, begin, end, fresh, streak=0):
    """a random source that is out to collide: every draw of a participant
    first names the address ranges other participants hold right now (each
    once per allocation), then values nobody has used.  Any sequence is a
    possible outcome of randrange(1, 512); a correct address map refuses the
    held ones whatever the schedule."""
    tried = {}
    fresh = iter(fresh)

    def draw(a, b=None):
        me = sched.me()
        live = {}
        mine = 0
        for _, p, op, d in sched.events:
            if op == begin:
                base = d["base"] if isinstance(d, dict) else d
                if p == me:
                    mine += 1
                else:
                    live[p] = base >> 22
            elif op == end and p != me:
                live.pop(p, None)
        t = tried.setdefault((me, mine), set())
        # an unlucky streak first: so many draws in a row name ranges that
        # are held (on a crowded address map most draws do)
        n = counts.get((me, mine), 0)
        counts[(me, mine)] = n + 1
        if n < streak and live:
            held = sorted(live.values())
            return held[n % len(held)]
        for addr in sorted(live.values()):
            if addr not in t:
                t.add(addr)
                return addr
        return next(fresh)
    counts = {}
    return draw


def run_fmmu_schedule(prefix, npart, rseed, rounds=2, hostile=False,
                      director=None, streak=0):
    """participants create / use / remove FMMULocks on one address map; the
    random draws come from a small set that spans several bitmap bytes"""
    import os
    root = tempfile.mkdtemp(prefix="vf-c23f-")
    os.makedirs(root + "/run/ebpf")
    rng = random.Random(rseed)
    universe = [1, 2, 9, 10, 17, 3]

    def schedule_fn(trace, enabled):
        if director is not None:
            return director(sched, trace, enabled)
        i = len(trace)
        if i < len(prefix) and prefix[i] in enabled:
            return prefix[i]
        if trace and trace[-1][0] in enabled:
            return trace[-1][0]
        return enabled[0]
    sched = gates.Sched(root, schedule_fn)
    prox = gates.Proxies(sched)
    old = (lockmod.os, lockmod.fcntl, lockmod.randrange)
    lockmod.os, lockmod.fcntl = prox.lock_os, prox.fcntl
    lockmod.randrange = lambda a, b=None: rng.choice(universe)
    if hostile:
        # fresh values: the creator's byte first, then the next byte
        lockmod.randrange = hostile_draws(
            sched, "alloc", "release",
            [2, 3, 9, 4, 5, 10, 6, 7, 11] + list(range(12, 500)),
            streak=streak)

    def participant(pid):
        sched.pids[threading.get_ident()] = pid
        try:
            for r in range(rounds):
                sched.gate(("start", r))
                lk = lockmod.FMMULock("/run/ebpf/vf0.fmmu")
                sched.record("alloc", lk.base_addr)
                sched.gate(("hold", r))
                sched.record("release", lk.base_addr)
                lk.remove()
        except gates.Killed:
            pass
        except BaseException as ex:
            sched.record("failed", f"{type(ex).__name__}: {ex}")
        finally:
            sched.finished(pid)
    threads = [threading.Thread(target=participant, args=(p,), daemon=True)
               for p in range(npart)]
    try:
        for t in threads:
            t.start()
        trace, status = sched.run(npart, max_steps=900)
        if status != "finished":
            with sched.cv:
                sched.killed |= set(range(npart))
                sched.cv.notify_all()
        for t in threads:
            t.join(5)
    finally:
        lockmod.os, lockmod.fcntl, lockmod.randrange = old
        shutil.rmtree(root, ignore_errors=True)
    return trace, status, sched.events


def segments(spec):
    """a director for run_fmmu_schedule: spec is a list of (pid, stop); the
    participant runs until it has made `stop` choices in this segment (int),
    until the gate it waits at is `stop` (tuple), or until it is done (None).
    A participant that is blocked lets the others run meanwhile."""
    state = dict(seg=0, n=0)

    def director(sched, trace, enabled):
        while state["seg"] < len(spec):
            pid, stop = spec[state["seg"]]
            over = pid not in sched.waiting
            if not over and isinstance(stop, int):
                over = state["n"] >= stop
            elif not over and stop is not None:
                over = sched.waiting[pid][0] == stop
            if over:
                state["seg"] += 1
                state["n"] = 0
                continue
            if pid in enabled:
                state["n"] += 1
                return pid
            break
        if trace and trace[-1][0] in enabled:
            return trace[-1][0]
        return enabled[0]
    return director


def inside_leg(res, sigs, shard, of):
    """one operation run inside another: at every gate of a participant's
    first round and second allocation, another participant allocates (and
    parks), runs a whole round, or runs a round and allocates again; a third
    one may allocate right after.  The draws are hostile (hostile_draws)."""
    seen = set()
    for g in range(1, 48):
        if g % of != shard:
            continue
        specs = []
        for u in (("hold", 0), ("start", 1), ("hold", 1)):
            specs.append((2, [(0, g), (1, u), (0, None), (1, None)]))
            specs.append((3, [(0, g), (1, u), (2, ("hold", 0)), (0, None),
                              (1, None), (2, None)]))
        for u in (("start", 1), ("hold", 1)):
            specs.append((2, [(1, ("hold", 0)), (0, g), (1, u), (0, None),
                              (1, None)]))
            specs.append((3, [(1, ("hold", 0)), (2, ("hold", 0)), (0, g),
                              (1, u), (0, None), (2, None), (1, None)]))
        for n, spec in specs:
            trace, status, events = run_fmmu_schedule(
                (), n, 0, hostile=True, director=segments(spec))
            choices = tuple(c for c, _ in trace)
            if (n, choices) in seen:
                continue
            seen.add((n, choices))
            analyse_fmmu(choices, trace, status, events, n, res, sigs,
                         "fmmu_inside")
        # the same with an unlucky streak of draws in front of every
        # allocation
        n, spec = specs[g % len(specs)]
        k = [99, 100, 101, 150, 30][g % 5]
        trace, status, events = run_fmmu_schedule(
            (), n, 0, hostile=True, director=segments(spec), streak=k)
        res.count("schedules_with_an_unlucky_streak_of_draws")
        analyse_fmmu(tuple(c for c, _ in trace), trace, status, events, n,
                     res, sigs, "fmmu_streak")


def judge_fmmu(events):
    live = {}
    for step, pid, op, detail in events:
        if op == "failed":
            return "fmmu-participant-failed", (
                f"participant {pid} failed: {detail}")
        if op == "alloc":
            if detail % (1 << 22) or not 0 < detail >> 22 < 512:
                return "fmmu-bad-window", (
                    f"participant {pid} got base address {detail:#x}")
            for q, b in live.items():
                if b >> 22 == detail >> 22:
                    return "overlapping-logical-windows", (
                        f"participants {q} and {pid} both hold the logical "
                        f"window {detail:#x}")
            live[pid] = detail
        elif op == "release":
            live.pop(pid, None)
    return None


def analyse_fmmu(choices, trace, status, events, npart, res, sigs, kind):
    switches = sum(1 for i in range(1, len(trace))
                   if trace[i][0] != trace[i - 1][0]
                   and trace[i - 1][0] in trace[i][1])
    res.case([kind, choices], nontrivial=switches >= 1)
    res.count(f"schedules_{kind}")
    res.count("gate_steps", len(trace))
    res.count("fmmu_allocations",
              sum(1 for e in events if e[2] == "alloc"))
    sigs.add(hash(tuple((p, op, d) for _, p, op, d in events)))
    desc = dict(kind=kind, participants=npart, schedule=list(choices))
    if status == "stuck":
        # wall-clock watchdog of the scheduler: never a verdict
        res.inconc(f"schedule {desc} did not reach its next gate in time")
        return
    if status != "finished":
        res.violation("unexplained:" + status.replace(" ", "-"),
                      f"schedule ended '{status}'", case=desc,
                      witness=events[-12:])
        return
    bad = judge_fmmu(events)
    if bad:
        res.violation(bad[0] if bad[0] != "fmmu-participant-failed"
                      else "unexplained:fmmu-participant-failed", bad[1],
                      case=desc, witness=[(st, p, op, str(d)[:40])
                                          for st, p, op, d in events])


LAST_HOLDS = []


def preemptions(trace_prefix, holds=()):
    n = 0
    for i in range(1, len(trace_prefix)):
        prev = trace_prefix[i - 1][0]
        cur, enabled = trace_prefix[i]
        if cur != prev and prev in enabled and \
                not (i < len(holds) and prev in holds[i]):
            n += 1
    return n


def judge(events, npart):
    """history checker over the serialised effects"""
    installing = set()
    running = {}
    pinned = False
    attached = False
    live_base = {}
    for step, pid, op, detail in events:
        if op == "failed":
            # a failing participant is not by itself against the
            # statement; it is reported in the evidence
            continue
        if op == "rename-ok":
            if installing - {pid}:
                return "two-installers", (f"participant {pid} decided to "
                                          f"install while {installing} was "
                                          f"installing")
            installing.add(pid)
        elif op == "rmtree" and str(detail).endswith(".lock") \
                and "/tmp" not in str(detail):
            # a failing installer gives the lock directory up
            installing.discard(pid)
            others = (set(running) | installing) - {pid}
            if others:
                # the membership of running participants is gone: the next
                # process to start takes the directory, installs a second
                # dispatcher and unpins the live table (checked as a
                # consequence of the statement, not waiting for that third
                # process to show up in the schedule)
                return "lockdir-destroyed-while-others-active", (
                    f"participant {pid} removed the membership directory "
                    f"while {sorted(others)} was running or installing")
        elif op == "attach":
            others = (set(running) | installing) - {pid}
            if attached and others:
                # a dispatcher is in place and in use: whoever attaches
                # another one (with a program table of its own) takes the
                # running groups' programs away from their frames
                return "dispatcher-replaced-while-others-active", (
                    f"participant {pid} attached a dispatcher while one was "
                    f"attached and {sorted(others)} was running or "
                    f"installing")
            attached = True
        elif op == "pin":
            pinned = True
            installing.discard(pid)
        elif op == "detach":
            others = (set(running) | installing) - {pid}
            if others:
                return "detach-while-others-active", (
                    f"participant {pid} detached the dispatcher (installed "
                    f"by {detail}) while {sorted(others)} was running or "
                    f"installing"), set(others)
            attached = False
        elif op == "remove" and str(detail).endswith("/programs"):
            others = (set(running) | installing) - {pid}
            if others and pinned:
                return "unpin-while-others-active", (
                    f"participant {pid} removed the program table pin while "
                    f"{sorted(others)} was running or installing"), \
                    set(others)
            pinned = False
        elif op == "running-begin":
            if not attached or not pinned:
                return "running-without-dispatcher", (
                    f"participant {pid} runs with attached={attached} "
                    f"pinned={pinned}"), {pid}
            for q, d in running.items():
                if d["ethertype"] == detail["ethertype"]:
                    return "same-ethertype", (
                        f"participants {q} and {pid} both use ethertype "
                        f"{detail['ethertype']:#x}")
            for q, b in live_base.items():
                if b >> 22 == detail["base"] >> 22 and q != pid:
                    return "overlapping-logical-windows", (
                        f"participants {q} and {pid} both got the logical "
                        f"window {detail['base']:#x}")
            running[pid] = detail
            live_base[pid] = detail["base"]
        elif op == "running-end":
            running.pop(pid, None)
        if running and (not attached or not pinned) and op in (
                "detach", "remove"):
            return "running-without-dispatcher", (
                f"after {op} by {pid}: {sorted(running)} still running with "
                f"attached={attached} pinned={pinned}"), set(running)
        if op == "rmdir-ok" or op == "rmdir-failed":
            live_base.pop(pid, None)
    return None


def run_shard(params):
    res = Result()
    npart, budget = params["npart"], params["budget"]
    rng = random.Random(params["seed"] * 100403 + params["shard"])
    seen = set()
    stack = [()]
    k = 0
    sigs = set()
    while stack:
        prefix = stack.pop()
        if prefix in seen:
            continue
        seen.add(prefix)
        k += 1
        trace, status, events = run_schedule(prefix, npart, 7)
        holds = LAST_HOLDS
        choices = tuple(c for c, _ in trace)
        # children: deviate at every later position; the subtrees below
        # the root are divided among the shards
        for i in range(len(prefix), len(trace)):
            chosen, enabled = trace[i]
            for alt in enabled:
                if alt == chosen:
                    continue
                if not prefix and i % params["of"] != params["shard"]:
                    continue
                newp = choices[:i] + (alt,)
                tp = list(trace[:i]) + [(alt, enabled)]
                if preemptions(tp, holds) <= budget and newp not in seen:
                    stack.append(newp)
        if not prefix and params["shard"] != 0:
            continue
        analyse(choices, trace, status, events, npart, res, sigs, "enumerated")
        if len(seen) > params.get("cap", 40000):
            # a budget, not a verdict: the enumeration is bounded by the
            # preemption bound AND by this cap; what was explored is reported
            res.count("shards_whose_enumeration_hit_the_cap")
            res.info["schedule_enumeration_cap"] = params.get("cap", 40000)
            break
    # three participants, seeded random schedules
    for j in range(params["rnd"]):
        r = random.Random(rng.getrandbits(32))
        pre = tuple(r.randrange(3) for _ in range(120))
        trace, status, events = run_schedule(pre, 3, r.getrandbits(16),
                                             hostile=j % 2 == 1)
        analyse(tuple(c for c, _ in trace), trace, status, events, 3, res,
                sigs, "random3")
        if j % 2:
            res.count("schedules_with_hostile_draws")
    # a participant that restarts its loop object, seeded random schedules
    for j in range(params["rnd"] * 2):
        r = random.Random(rng.getrandbits(32))
        n = r.choice([2, 2, 3])
        pre = tuple(r.randrange(n) for _ in range(160))
        who = r.randrange(n)
        rs = r.getrandbits(16)
        if j % 2:
            # the restarting participant runs alone up to some point of its
            # second run (it was the last to leave before it started again),
            # found by a probe run; then the others start
            _, _, ev0 = run_schedule((who,) * 400, n, rs, restart=(who,))
            begins = [st for st, p_, op, _ in ev0
                      if p_ == who and op == "running-begin"]
            if len(begins) == 2:
                other = (who + 1) % n
                pre = (who,) * (begins[1] + r.randrange(-6, 4)) + \
                    (other,) * r.randrange(10, 60) + pre
                res.count("restart_schedules_with_a_lone_first_run")
        trace, status, events = run_schedule(pre, n, rs, restart=(who,))
        analyse(tuple(c for c, _ in trace), trace, status, events, n, res,
                sigs, "random_restart", restart=[who])
    # FMMU address map alone: 2 participants enumerated, 3-4 sampled
    stack = [()]
    seen2 = set()
    while stack and len(seen2) < params.get("fmmu_cap", 400):
        prefix = stack.pop()
        if prefix in seen2:
            continue
        seen2.add(prefix)
        trace, status, events = run_fmmu_schedule(prefix, 2, 11)
        choices = tuple(c for c, _ in trace)
        for i in range(len(prefix), len(trace)):
            chosen, enabled = trace[i]
            for alt in enabled:
                if alt == chosen:
                    continue
                if not prefix and i % params["of"] != params["shard"]:
                    continue
                newp = choices[:i] + (alt,)
                tp = list(trace[:i]) + [(alt, enabled)]
                if preemptions(tp) <= min(budget, 2) and newp not in seen2:
                    stack.append(newp)
        if not prefix and params["shard"] != 0:
            continue
        analyse_fmmu(choices, trace, status, events, 2, res, sigs,
                     "fmmu_enumerated")
    for j in range(params["rnd"] * 3):
        r = random.Random(rng.getrandbits(32))
        n = r.choice([3, 4])
        pre = tuple(r.randrange(n) for _ in range(200))
        trace, status, events = run_fmmu_schedule(pre, n, r.getrandbits(16))
        analyse_fmmu(tuple(c for c, _ in trace), trace, status, events, n,
                     res, sigs, "fmmu_random")
    inside_leg(res, sigs, params["shard"], params["of"])
    windows_leg(res, rng, 6 if params["rnd"] <= 10 else 40)
    if params["shard"] in (0, 1):
        netlink_leg(res, rng, 12 if params["rnd"] <= 10 else 60)
    res.info["distinct_interleavings"] = len(sigs)
    res.info["exhaustive"] = False
    return res


def analyse(choices, trace, status, events, npart, res, sigs, kind,
            restart=()):
    switches = sum(1 for i in range(1, len(trace))
                   if trace[i][0] != trace[i - 1][0]
                   and trace[i - 1][0] in trace[i][1])
    res.case([kind, choices], nontrivial=switches >= 1)
    res.count(f"schedules_{kind}")
    res.count("gate_steps", len(trace))
    sigs.add(hash(tuple((p, op) for _, p, op, _ in events)))
    desc = dict(kind=kind, participants=npart, schedule=list(choices))
    if restart:
        desc["restart"] = list(restart)
        res.count("restarts_that_ran", sum(
            1 for q in restart
            if sum(1 for _, p, op, _ in events
                   if p == q and op == "running-begin") == 2))
    if status == "stuck":
        # wall-clock watchdog of the scheduler: never a verdict
        res.inconc(f"schedule {desc} did not reach its next gate in time")
        return
    if status != "finished":
        res.violation("unexplained:" + status.replace(" ", "-"),
                      f"schedule ended '{status}'", case=desc,
                      witness=events[-12:])
        return
    for _, p, op, d in events:
        if op == "failed":
            res.count("participant_failures[" + (
                "joiner gave up before the pin appeared"
                if "no such pin" in str(d) else
                "exception during exit" if "No such file" in str(d)
                else "other") + "]")
    bad = judge(events, npart)
    if bad:
        key = bad[0]
        if key in ("detach-while-others-active", "unpin-while-others-active",
                   "running-without-dispatcher", "participant-failed"):
            # was a starter let in between a leaver's rmdir and its
            # detach / unpin?
            # (the recorded mechanism: every participant harmed is a
            # starter that took the directory - its rename succeeded - after
            # the leaver's rmdir; somebody harmed who never installed got in
            # another way)
            victims = bad[2] if len(bad) > 2 else set()
            order = [(p, op) for _, p, op, _ in events]
            for i, (p, op) in enumerate(order):
                if op == "rmdir-ok":
                    later = order[i + 1:]
                    starters = {q for q, o in later
                                if o == "rename-ok" and q != p}
                    if starters and victims <= starters | {p} \
                            and any(o in ("detach", "remove") and q == p
                                    for q, o in later):
                        key = "starter-installs-between-rmdir-and-detach"
        res.violation(key, bad[1], case=desc,
                      witness=[(st, p, op, str(d)[:60])
                               for st, p, op, d in events])
    elif len(res.samples) < 2 and switches >= 1:
        res.sample(dict(desc, effects=[(p, op) for _, p, op, _ in events]))


def windows_history(case, res):
    """participants of one address map that draw windows for their sync
    groups (no scheduling: the operations are sequential): windows that
    different live participants hold never overlap, however many each of
    them has drawn"""
    import os
    root = tempfile.mkdtemp(prefix="vf-c23w-")
    draws = iter(case["draws"])
    old = lockmod.randrange
    lockmod.randrange = lambda a, b=None: next(draws, 400)
    live = {}        # participant -> (lock, its address range, [windows])
    heavy = set()    # participants that have drawn more than 1023 windows
    heavy_left = False
    KNOWN = "process-draws-more-than-1023-windows"
    res.case(["fmmu_windows", case], nontrivial=True)
    res.count("window_histories")
    try:
        for op in case["ops"]:
            who = op[1]
            if op[0] == "open":
                lk = lockmod.FMMULock(root + "/vf0.fmmu")
                r = lk.base_addr >> 22
                if lk.base_addr % (1 << 22) or not 0 < r < 512:
                    return ("unexplained:fmmu-windows",
                            f"participant {who} got base {lk.base_addr:#x}")
                for q, (lq, rq, wq) in live.items():
                    if rq == r:
                        # the range of a live participant given out again
                        return (KNOWN if heavy_left
                                else "unexplained:fmmu-windows",
                                f"participant {who} got address range {r}, "
                                f"which participant {q} holds")
                    if any(w >> 22 == r for w in wq):
                        return (KNOWN if q in heavy
                                else "unexplained:fmmu-windows",
                                f"participant {who} got address range {r}, "
                                f"in which participant {q} holds windows")
                live[who] = (lk, r, [])
            elif op[0] == "draw":
                lk, r, ws = live[who]
                for _ in range(op[2]):
                    w = lk.get_next_addr()
                    ws.append(w)
                    res.count("windows_drawn")
                    if len(ws) > 1023:
                        heavy.add(who)
                        res.count("windows_drawn_beyond_the_1023rd")
                    for q, (lq, rq, wq) in live.items():
                        if q != who and (w in wq or w >> 22 == rq):
                            return (KNOWN if who in heavy
                                    else "unexplained:fmmu-windows",
                                    f"window {w:#x}, the {len(ws)}th of "
                                    f"participant {who}, lies in the address "
                                    f"range of participant {q}")
            else:
                lk, r, ws = live.pop(who)
                if who in heavy:
                    heavy_left = True
                lk.remove()
    finally:
        lockmod.randrange = old
        for lk, r, ws in live.values():
            try:
                os.close(lk.fd)
            except OSError:
                pass
        shutil.rmtree(root, ignore_errors=True)
    return None


def windows_leg(res, rng, n):
    for _ in range(n):
        counts = [rng.choice([1, 3, 40, 1022, 1023, 1024, 1025, 1500, 2100])
                  for _ in range(3)]
        if rng.random() < 0.5:
            counts = [min(c, 1023) for c in counts]
        ops = [("open", 0), ("open", 1), ("draw", 0, counts[0]),
               ("draw", 1, counts[1])]
        if rng.random() < 0.5:
            ops += [("close", rng.choice([0, 1])), ("open", 2),
                    ("draw", 2, counts[2])]
        # neighbouring and distant address ranges; the creator always gets 1
        case = dict(ops=ops, draws=[rng.choice([2, 2, 3, 1, 2, 9])
                                    for _ in range(8)])
        bad = windows_history(case, res)
        if bad:
            res.violation(bad[0], bad[1], case=dict(kind="fmmu_windows",
                                                    **case))


NETLINK_WORKER = r'''
import asyncio, ctypes, json, os, random, socket, struct, sys
sys.path.insert(0, %(repo)r)
sys.path.insert(1, %(verif)r)
libc = ctypes.CDLL(None, use_errno=True)
if libc.unshare(0x40000000) != 0:          # CLONE_NEWNET: a private "lo"
    print(json.dumps(dict(skip="unshare failed")))
    sys.exit(0)
os.environ["EBPFCAT_REPO"] = %(repo)r
from vf import kern
from ebpfcat.xdp import XDP, XDPExitCode, XDPFlags


def xdp_state(ifindex):
    """(attach mode, program id) of the interface, asked with an own
    RTM_GETLINK request, not through the code under test"""
    s = socket.socket(socket.AF_NETLINK, socket.SOCK_RAW, 0)
    s.bind((0, 0))
    s.send(struct.pack("IHHII", 32, 18, 1, 7, 0) +
           struct.pack("BxHiII", 0, 0, ifindex, 0, 0))
    data = s.recv(65536)
    s.close()
    ln, typ, flags, seq, pid = struct.unpack_from("IHHII", data, 0)
    if typ == 2:
        raise OSError(-struct.unpack_from("i", data, 16)[0], "RTM_GETLINK")
    pos = 32
    while pos < ln:
        alen, atype = struct.unpack_from("HH", data, pos)
        if atype & 0x3fff == 43:               # IFLA_XDP
            sub, attached, progid = pos + 4, 0, 0
            while sub < pos + alen:
                l2, t2 = struct.unpack_from("HH", data, sub)
                if t2 == 2:
                    attached = data[sub + 4]
                if t2 == 4:
                    progid, = struct.unpack_from("I", data, sub + 4)
                sub += (l2 + 3) & ~3
            return attached, progid
        pos += (alen + 3) & ~3
    return 0, 0


class P(XDP):
    license = "GPL"

    def program(self):
        self.exit(XDPExitCode.PASS)


async def main():
    rng = random.Random(int(sys.argv[1]))
    idx = socket.if_nametoindex("lo")
    out = []
    progs = []
    for step in range(int(sys.argv[2])):
        op = rng.choice(["attach", "attach", "attach-drv", "detach",
                         "detach-drv"])
        before = xdp_state(idx)
        rec = dict(op=op, before=before)
        try:
            if op.startswith("attach"):
                p = P()
                progs.append(p)
                await p.attach("lo", XDPFlags.DRV_MODE if op.endswith("drv")
                               else XDPFlags.SKB_MODE)
                rec["own_id"] = kern.prog_id(p.file_descriptor)
            else:
                await P().detach("lo", XDPFlags.DRV_MODE
                                 if op.endswith("drv") else XDPFlags.SKB_MODE)
            rec["outcome"] = "returned"
        except OSError as ex:
            rec["outcome"] = "raised"
            rec["error"] = repr(ex)[:80]
            if op.startswith("attach") and p.file_descriptor is not None:
                rec["own_id"] = kern.prog_id(p.file_descriptor)
        rec["after"] = xdp_state(idx)
        out.append(rec)
    print(json.dumps(dict(steps=out)))
asyncio.run(main())
'''


def netlink_leg(res, rng, n):
    """the installer's attach and the last leaver's detach on a real
    interface: a private network namespace's `lo`, the real XDP.attach /
    detach and their netlink code; what the kernel did is asked with an own
    RTM_GETLINK request. Requests the kernel refuses (native mode on `lo`,
    a mode other than the attached one) must raise, and a call that
    returns must have taken effect"""
    import json
    import subprocess
    from ..core import PYTHON
    from .. import REPO, VERIF_ROOT
    script = NETLINK_WORKER % dict(repo=REPO, verif=VERIF_ROOT)
    try:
        p = subprocess.run([PYTHON, "-c", script, str(rng.getrandbits(30)),
                            str(n)], capture_output=True, timeout=120)
    except subprocess.TimeoutExpired:
        res.inconc("netlink leg: worker timed out")
        return
    if p.returncode:
        res.violation("unexplained:netlink-worker",
                      f"worker failed: {p.stderr.decode()[-300:]}",
                      case=dict(kind="netlink"))
        return
    data = json.loads(p.stdout.decode().strip().splitlines()[-1])
    if "skip" in data:
        # no private network namespace in this environment: the leg is
        # reported as not run (evidence), the schedule legs decide
        res.count("netlink_leg_skipped")
        res.info["netlink_leg"] = "not run: " + data["skip"]
        return
    for k, st in enumerate(data["steps"]):
        desc = dict(kind="netlink", step=k, **st)
        res.case(["netlink", k, st["op"], st["before"][0]], nontrivial=True)
        res.count("netlink_requests")
        res.count(f"netlink_{st['op']}_{st['outcome']}")
        before, after = tuple(st["before"]), tuple(st["after"])
        why = None
        if st["outcome"] == "returned":
            if st["op"].startswith("attach") and after[1] != st["own_id"]:
                why = (f"{st['op']} returned, but the interface runs "
                       f"program {after[1]} (mode {after[0]}), not the "
                       f"program {st['own_id']} of the call")
            # (the kernel's attach modes: 1 native, 2 generic; a detach
            # names a mode, and detaching a mode in which nothing is
            # attached succeeds without touching the other)
            gone = 1 if st["op"].endswith("drv") else 2
            if st["op"].startswith("detach") and after[0] in (gone, 4):
                why = (f"{st['op']} returned, but program {after[1]} is "
                       f"still attached (mode {after[0]})")
        else:
            if after != before:
                why = (f"{st['op']} raised ({st.get('error')}), but the "
                       f"interface changed from {before} to {after}")
        if why:
            res.violation("unexplained:netlink-" + st["op"], why, case=desc)


def finalize(res, tier, seed):
    c = res.counters
    if not c.get("netlink_requests") and not c.get("netlink_leg_skipped"):
        res.inconc("netlink leg did not run")
    if not c.get("window_histories"):
        res.inconc("window histories did not run")
    if not c.get("schedules_enumerated"):
        res.inconc("no schedule enumerated")
    if not c.get("schedules_random3"):
        res.inconc("no 3-participant schedule ran")
    if not c.get("schedules_fmmu_enumerated") or \
            not c.get("schedules_fmmu_random") or \
            not c.get("schedules_fmmu_inside"):
        res.inconc("FMMU address-map leg did not run")


def replay(v):
    res = Result()
    c = v["case"]
    if c["kind"] == "fmmu_windows":
        bad = windows_history(c, res)
        if bad:
            res.violation(bad[0], bad[1], case=c)
        return res
    if c["kind"] == "fmmu_inside":
        # the hostile draws are a function of the schedule
        trace, status, events = run_fmmu_schedule(
            tuple(c["schedule"]), c["participants"], 0, hostile=True)
        analyse_fmmu(tuple(x for x, _ in trace), trace, status, events,
                     c["participants"], res, set(), c["kind"])
        return res
    if c["kind"].startswith("fmmu"):
        return res      # random draws are not stored in the case
    if c.get("restart"):
        return res      # random draws are not stored in the case
    trace, status, events = run_schedule(tuple(c["schedule"]),
                                         c["participants"], 7)
    analyse(tuple(x for x, _ in trace), trace, status, events,
            c["participants"], res, set(), c["kind"])
    return res
