"""a second task for C08: attaches to the array map of a program another
process has loaded (EBPF(load_maps=...), the documented way to use a
program's maps "in a different task") and reads every variable.  There is no
bpf file system in the sandbox: obj_get() hands out the map's file
descriptor, which this process inherited.  The interpreter runs with a string
hash seed of its own, as every independently started Python process does.

stdin: {"case": ..., "fd": n, "expect": [[program, variable, format, value]]}
stdout: {"read": n, "bad": [[program, variable, format, expected, got]]}
"""
import json
import sys

from . import use_repo
use_repo()

import ebpfcat.bpf as bpfmod  # noqa: E402

from .checks import c08  # noqa: E402


def main():
    job = json.load(sys.stdin)
    bpfmod.obj_get = lambda path: job["fd"]
    e, subs, m = c08.build(job["case"], load_maps="pinned/")
    objs = {"main": e}
    for i, s in enumerate(subs):
        objs[f"sub{i}"] = s
    bad = []
    n = 0
    for pname, name, f, want in job["expect"]:
        if isinstance(want, list):
            want = tuple(want)
        elif isinstance(want, dict):
            want = bytes.fromhex(want["__bytes__"])
        try:
            got = getattr(objs[pname], name)
            ok = c08.same(f, got, want) is True
        except Exception as ex:
            got, ok = f"{type(ex).__name__}: {ex}", False
        n += 1
        if not ok:
            bad.append([pname, name, f, want, repr(got)[:80]])
    json.dump(dict(read=n, bad=bad), sys.stdout)


if __name__ == "__main__":
    main()
