"""entry point: python -m vf.cli <Cnn> [--tier quick|thorough] [--replay f]"""
import argparse
import json
import os
import sys

from . import use_repo
use_repo()
from . import core  # noqa: E402


def main(argv=None):
    ap = argparse.ArgumentParser()
    ap.add_argument("property")
    ap.add_argument("--tier", default=os.environ.get("VERIF_TIER") or "quick",
                    choices=["quick", "thorough"])
    ap.add_argument("--seed", type=int,
                    default=int(os.environ.get("VERIF_SEED") or 0))
    ap.add_argument("--shard")
    ap.add_argument("--replay")
    ap.add_argument("--inline", action="store_true")
    ap.add_argument("--only", type=int, nargs="*")
    a = ap.parse_args(argv)
    pid = a.property.upper()
    if a.shard is not None:
        core.shard_main(pid, json.loads(a.shard))
        return 0
    if a.replay:
        mod = core.load_check(pid)
        with open(a.replay) as f:
            v = json.load(f)
        print(json.dumps(v, indent=1)[:6000])
        if hasattr(mod, "replay"):
            r = mod.replay(v)
            bad = [x for x in r.violations]
            for x in bad:
                print("REPRODUCED", x["key"], x["what"])
            return 1 if bad else 0
        return 0
    return core.run_check(pid, a.tier, a.seed, inline=a.inline, only=a.only)


if __name__ == "__main__":
    sys.exit(main())
