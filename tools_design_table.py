"""print the DESIGN.md section 10 table from seeded/*/meta.json"""
import glob
import json
import os
import re

ROOT = os.path.dirname(os.path.abspath(__file__))


def short(s, n):
    s = re.sub(r"\s+", " ", s).strip()
    return s if len(s) <= n else s[:n - 1].rsplit(" ", 1)[0] + " …"


rows = []
for d in sorted(glob.glob(os.path.join(ROOT, "seeded", "*"))):
    m = json.load(open(os.path.join(d, "meta.json")))
    v = m.get("verified", {})
    keys = []
    for ck, r in v.get("checks", {}).items():
        for l in r.get("first_lines", []):
            mm = re.match(r"\s*key=([^:]+(?::[a-z-]+)?)", l)
            if mm:
                keys.append(f"{ck.split('@')[0]}: `{short(mm.group(1), 60)}`")
    rows.append((os.path.basename(d), short(m.get("summary", ""), 150),
                 short(m.get("needs_to_manifest", ""), 130),
                 "; ".join(keys[:1]) or ("caught" if v.get("caught")
                                         else "MISSED"),
                 "yes" if v.get("missed_by_the_first_version_of_the_check")
                 else ""))
print("| change | what was changed | needs, to manifest | caught by (first "
      "violation) | first version missed it |")
print("|---|---|---|---|---|")
for r in rows:
    print("| " + " | ".join(x.replace("|", "\\|") for x in r) + " |")
