"""C05 every program the generator accepts loads into the kernel"""
import random
import re

from .. import dsl, ecat, ebpfvm, kern, prog
from ..core import Result
from . import c01, c02, c03, c04, c06, c07, c09
from .. import use_repo
use_repo()

from ebpfcat.arraymap import ArrayMap  # noqa: E402
from ebpfcat.ebpf import AssembleError, LocalVar, SubProgram, ktime, \
    prandom  # noqa: E402
from ebpfcat.ebpfcat import (  # noqa: E402
    Device, EtherXDP, FastSyncGroup, SyncManager, TerminalVar, DeviceVar)
from ebpfcat import devices as D  # noqa: E402
from ebpfcat.xdp import XDP, XDPExitCode  # noqa: E402

PROPERTY = "C05"
LEVEL = "exploration"
RULE = ("every program of the C01 C02 C03 C04 C06 C07 C09 generators plus "
        "hand-parameterised families (ktime/prandom inside expressions and "
        "conditions, helper calls issued directly with scratch registers "
        "set before and read after, array-map layouts with multi-element "
        "formats whose scalars are updated in place, sub-programs, every "
        "combination of per-CPU map / array map / hash map / stack "
        "variables in any declaration order with static or dynamic packet "
        "guards, static guards at the small end (minimumPacketSize 0, 1, "
        "13..15) left through the default exit code, memory operands addressed through a bare register in every "
        "position, dynamic packetSize guards after "
        "arithmetic, nested guards) and the library's own programs (the "
        "EtherXDP dispatcher; FastSyncGroup over random terminal sets with "
        "each bundled device AnalogInput/Output, DigitalInput/Output, "
        "RandomOutput, Counter, Motor, RandomDropper, Dummy alone and "
        "combined, FMMU and direct addressing) is assembled by the real "
        "generator; AssembleError = not accepted (counted, no claim); every "
        "assembled program is submitted to BPF_PROG_LOAD and must be accepted "
        "by this kernel's verifier (log kept as witness). a case = one "
        "program; non-trivial = assembled; distinct by hash of the bytecode "
        "shape")
ASSUMPTIONS = ["the verifier of the running kernel is the oracle; the claim "
               "is relative to it",
               "generators only read initialised variables and keep packet "
               "accesses inside guards (side conditions of the statement)"]
MIN_EVALUATIONS = {"quick": 2000, "thorough": 50000}


def plan(tier, seed):
    n = 16
    per = 70 if tier == "quick" else 700
    return [dict(seed=seed, shard=i, n=per) for i in range(n)]


def classify(tag, log, desc=None):
    if tag == "c04" and isinstance(desc, dict) and desc.get("avars2") and \
            "invalid access to map value" in log:
        return "two-array-maps-share-the-base-register"
    if tag == "minsize" and isinstance(desc, dict) and desc.get("G") == 0 \
            and desc.get("touch") and "offset is outside of the packet" in log:
        return "packet-access-under-a-zero-size-guard"
    if "BPF_ATOMIC stores into R9 pkt" in log:
        return "atomic-add-on-packet-variable"
    if re.search(r"invalid shift \d+", log):
        return "shift-by-constant-ge-32-in-32bit-computation"
    lines = [l for l in log.strip().splitlines()
             if not l.startswith("processed")
             and not re.match(r"^\d+: ", l)]
    msg = re.sub(r"\d+", "N", lines[-1][:60]) if lines else "?"
    return f"unexplained:{tag} {msg}"


def submit(tag, mk, res, desc=None):
    """mk() -> ebpf object (not assembled yet)"""
    with kern.session() as sess:
        res.count(f"generated[{tag}]")
        try:
            e = mk(sess) if mk.__code__.co_argcount else mk()
            if res.counters[f"generated[{tag}]"] % 3 == 0 and \
                    hasattr(e, "kern_version"):
                # (EBPF(..., kern_version=...): the LINUX_VERSION_CODE
                # classic loaders pass; the kernel ignores it for XDP)
                e.kern_version = 0x6122c
                res.count("programs_with_a_kern_version")
            ld = prog.Loaded(e, sess)
        except AssembleError as ex:
            res.count(f"not_accepted[{tag}]")
            return None
        except (TypeError, AttributeError, ValueError, KeyError,
                IndexError, OverflowError,
                __import__("struct").error) as ex:
            res.count(f"generator_crash[{tag}]")
            return None
        shape = [ins[0] for ins in ebpfvm.Program(ld.code).insns]
        res.case([tag, shape], nontrivial=True)
        res.count(f"assembled[{tag}]")
        res.count("instructions", len(shape))
        try:
            ld.load()
            res.count(f"loaded[{tag}]")
            if tag.startswith(("fastgroup", "dispatcher")) or \
                    len(shape) % 7 == 0:
                # the way the library itself loads programs (XDP.run,
                # register_sync_group): load() without arguments
                try:
                    e.load()
                    res.count("loaded_through_the_default_path")
                    import os as _os
                    try:
                        _os.close(e.file_descriptor)
                    except Exception:
                        pass
                except OSError as ex:
                    res.violation(
                        f"unexplained:{tag} default load() fails",
                        f"{tag}: the program ({len(shape)} instructions) "
                        f"loads with an explicit verifier log buffer but "
                        f"load() with the library's defaults fails: "
                        f"{str(ex)[-200:]}", case=dict(family=tag, desc=desc))
                    return False
            if len(res.samples) < 4 and tag not in [s.get("family")
                                                    for s in res.samples]:
                res.sample(dict(family=tag, instructions=len(shape),
                                verifier=ld.log.strip().splitlines()[-1]
                                if ld.log else "",
                                head=ebpfvm.disasm(ld.code)[:12]))
            return True
        except OSError as ex:
            log = str(ex)
            res.violation(classify(tag, log, desc),
                          f"{tag}: assembled program rejected by the "
                          f"verifier: {log.strip().splitlines()[-2:]}",
                          case=dict(family=tag, desc=desc),
                          witness=dict(log=log[-2500:],
                                       disasm=ebpfvm.disasm(ld.code)[:250]))
            return False
        finally:
            ld.close()


# --- hand-parameterised families -------------------------------------------

def fam_calls(rng):
    """ktime/prandom inside expressions, conditions and stores"""
    ops = [rng.choice(["ktime", "prandom"]) for _ in range(rng.randint(1, 3))]
    fmts = [rng.choice("IQqi") for _ in range(3)]
    nloc = rng.randint(0, 3)
    shift = rng.randrange(6)

    def mk():
        m = ArrayMap()
        ns = {"license": "GPL", "m": m}
        for i, f in enumerate(fmts):
            ns[f"a{i}"] = m.globalVar(f)
        for i in range(nloc):
            ns[f"l{i}"] = LocalVar(rng.choice("BHIQ"))

        def program(self):
            e = self
            for i in range(nloc):
                setattr(e, f"l{i}", i + 1)
            for k, op in enumerate(ops):
                # prandom() has no signed/fixed attributes and can only be
                # used under an & (as the library itself does)
                f = ktime if op == "ktime" else (
                    lambda e_: prandom(e_) & 0xffffffff)
                tgt = f"a{k % 3}"
                style = (k + len(ops) + shift) % 6
                if style == 4 and op == "ktime":
                    # the call itself is the left operand of a comparison,
                    # a register of the program is live across it
                    e.r3 = 9
                    with ktime(e) > getattr(e, "a1"):
                        setattr(e, tgt, 5)
                    e.a0 = e.r3
                elif style == 5 and op == "ktime":
                    # ... with Else, and the packet is looked at afterwards
                    with ktime(e) > getattr(e, "a1") as Else:
                        setattr(e, tgt, 6)
                    with Else:
                        setattr(e, tgt, 7)
                    with e.packetSize > 20 as pk:
                        e.a2 = pk.pB[14]
                elif style >= 4:
                    setattr(e, tgt, f(e))
                elif style == 0:
                    setattr(e, tgt, f(e))
                elif style == 1:
                    setattr(e, tgt, getattr(e, "a0") + f(e) * 3)
                elif style == 2:
                    with f(e) & 0xffff < getattr(e, "a1"):
                        setattr(e, tgt, 5)
                else:
                    with e.tmp:
                        e.tmp = f(e)
                        with e.tmp > getattr(e, "a2") as Else:
                            setattr(e, tgt, e.tmp)
                        with Else:
                            setattr(e, tgt, 1)
            e.r0 = 2
            e.exit()
        ns["program"] = program
        return type("VfCalls", (XDP,), ns)()
    return mk


def fam_rawcall(rng):
    """helper calls issued directly through EBPF.call(): scratch registers
    set before the call, a random subset of r0..r9 read after it (reading a
    clobbered register must be refused by the generator, not the kernel)"""
    from ebpfcat.ebpf import FuncId
    func = rng.choice([FuncId.ktime_get_ns, FuncId.get_prandom_u32,
                       FuncId.get_smp_processor_id])
    pre = rng.sample([2, 3, 4, 5, 8], rng.randint(1, 4))
    post = rng.sample([0, 2, 3, 4, 5, 8], rng.randint(1, 3)) \
        if rng.random() < 0.5 else rng.sample([0, 8], rng.randint(1, 2))
    if 8 in post and 8 not in pre:
        pre.append(8)
    again = rng.random() < 0.4

    def mk():
        m = ArrayMap()
        ns = {"license": "GPL", "m": m}
        for i in range(4):
            ns[f"a{i}"] = m.globalVar("Q")

        def program(self):
            e = self
            for i, r in enumerate(pre):
                e.r[r] = getattr(e, f"a{i % 4}") + i
            e.call(func)
            if again:
                e.r2 = 1
                e.call(func)
            for i, r in enumerate(post):
                setattr(e, f"a{i}", e.r[r])
            e.r0 = 2
            e.exit()
        ns["program"] = program
        return type("VfRawCall", (XDP,), ns)()
    return mk, dict(func=func.name, pre=pre, post=post, again=again)


def fam_layout(rng):
    """array-map declaration sets with multi-element formats: every scalar
    variable is updated in place, copied and compared"""
    fmts = [rng.choice(["B", "H", "I", "Q", "b", "h", "i", "q", "x", "3H",
                        "2I", "5B", "3B", "2q", "7H"])
            for _ in range(rng.randint(2, 9))]
    percpu = rng.random() < 0.3

    def mk():
        from ebpfcat.arraymap import PerCPUArrayMap
        m = PerCPUArrayMap() if percpu else ArrayMap()
        ns = {"license": "GPL", "m": m}
        for i, f in enumerate(fmts):
            ns[f"a{i}"] = m.globalVar(f)

        def program(self):
            e = self
            sc = [i for i, f in enumerate(fmts) if len(f) == 1]
            for i in sc:
                cur = getattr(e, f"a{i}")
                if fmts[i] in "IiQqx":
                    cur += 1
                    setattr(e, f"a{i}", cur)
                else:
                    setattr(e, f"a{i}", cur + 1)
            for i, j in zip(sc, sc[1:]):
                with getattr(e, f"a{i}") > 3:
                    setattr(e, f"a{j}", 0)
            e.r0 = 2
            e.exit()
        ns["program"] = program
        return type("VfLayout", (XDP,), ns)()
    return mk, dict(fmts=fmts, percpu=percpu)


def fam_guards(rng):
    """dynamic packetSize guards after arithmetic, nested, with Else"""
    G1 = rng.randint(14, 80)
    G2 = G1 + rng.randint(1, 40)
    style = rng.randrange(4)

    def mk():
        m = ArrayMap()
        ns = {"license": "GPL", "m": m, "a": m.globalVar("I"),
              "b": m.globalVar("Q"), "c": m.globalVar("H")}

        def program(self):
            e = self
            e.b = e.a * 3 + 1
            if style == 0:
                with e.packetSize > G1 as p:
                    e.c = p.pH[G1 - 2]
                    with e.packetSize > G2 as q:
                        e.a = q.pI[G2 - 4]
            elif style == 1:
                with e.packetSize >= G1 as p:
                    p.pB[G1 - 1] = e.a
            elif style == 2:
                with e.packetSize > G1 as p:
                    e.c = p.pH[0]
                with p.Else:
                    e.c = 7
            else:
                with e.a > 5:
                    with e.packetSize > G1 as p:
                        p.pQ[G1 - 8] = e.b
            e.exit(XDPExitCode.PASS)
        ns["program"] = program
        return type("VfGuards", (XDP,), ns)()
    return mk


def fam_storage_mix(rng):
    """every combination of storage kinds (per-CPU map, array map, hash map,
    stack variable) in any declaration order, in an XDP program that uses the
    context (static or dynamic packet guard) after the maps were set up"""
    kinds = rng.sample(["percpu", "array", "hash", "stack"],
                       rng.randint(1, 4))
    static = rng.random() < 0.4
    G = rng.randint(16, 60)
    fm = {k: rng.choice(["B", "H", "I", "Q", "i", "q"]) for k in kinds}

    def mk():
        from ebpfcat.arraymap import PerCPUArrayMap
        from ebpfcat.hashmap import HashMap
        from ebpfcat.ebpf import LocalVar
        ns = {"license": "GPL"}
        if static:
            ns["minimumPacketSize"] = G
        for k in kinds:
            if k == "percpu":
                ns["mp"] = PerCPUArrayMap()
                ns["v_percpu"] = ns["mp"].globalVar(fm[k])
            elif k == "array":
                ns["ma"] = ArrayMap()
                ns["v_array"] = ns["ma"].globalVar(fm[k])
            elif k == "hash":
                ns["mh"] = HashMap()
                ns["v_hash"] = ns["mh"].globalVar()
            else:
                ns["v_stack"] = LocalVar(fm[k])

        def body(e, p):
            for k in kinds:
                setattr(e, "v_" + k, p.pB[G - 1] + 1)
            for k in kinds:
                p.pH[G - 3] = getattr(e, "v_" + k)

        def program(self):
            e = self
            if static:
                body(e, e)
            else:
                with e.packetSize > G as p:
                    body(e, p)
            e.exit(XDPExitCode.PASS)
        ns["program"] = program
        return type("VfStorageMix", (XDP,), ns)()
    return mk, dict(kinds=kinds, static=static, G=G, fmts=fm)


def fam_minsize(rng):
    """statically guarded XDP programs at the small end of the guard
    (minimumPacketSize 0, 1, 13, 14 ...) that leave through the default
    exit code instead of calling exit() themselves"""
    G = rng.choice([0, 0, 1, 2, 13, 14, 15])
    kind = rng.choice(["array", "hash", "local"])
    touch = rng.random() < 0.6

    def mk():
        from ebpfcat.hashmap import HashMap
        from ebpfcat.ebpf import LocalVar
        ns = {"license": "GPL", "minimumPacketSize": G,
              "defaultExitCode": rng.choice([XDPExitCode.PASS,
                                             XDPExitCode.DROP])}
        if kind == "array":
            ns["m"] = ArrayMap()
            ns["cnt"] = ns["m"].globalVar("I")
        elif kind == "hash":
            ns["h"] = HashMap()
            ns["cnt"] = ns["h"].globalVar()
        else:
            ns["cnt"] = LocalVar("I")

        def program(self):
            if kind == "local":
                self.cnt = 1
            self.cnt = self.cnt + 1
            if touch:
                self.pB[G] = 7
        ns["program"] = program
        # the class name becomes the program's name in the kernel
        return type(cname, (XDP,), ns)()
    cname = rng.choice(["VfMinSize", "V", "VfFifteenChars_", "VfSixteenChars__",
                        "VfSeventeenChars_", "VfA_name_that_is_rather_long_x",
                        "Vf_9"])
    return mk, dict(G=G, kind=kind, touch=touch, name=cname)


def fam_regmem(rng):
    """memory operands addressed through a register (e.mQ[reg], with and
    without an offset) in every position: source of a copy into a hash-map /
    array-map / stack variable, destination, in-place update, operand of an
    expression"""
    fmt = rng.choice(["B", "H", "I", "Q", "q", "i"])
    reg = rng.choice([6, 8, 2, 3, 4])
    off = rng.choice([0, 0, 0, 8])
    uses = [rng.choice(["to_hash", "to_array", "to_local", "store", "iadd",
                        "expr", "to_hash"]) for _ in range(rng.randint(1, 4))]
    live_r3 = rng.random() < 0.3

    def mk():
        from ebpfcat.hashmap import HashMap
        from ebpfcat.ebpf import LocalVar
        m = ArrayMap()
        h = HashMap()
        ns = {"license": "GPL", "m": m, "h": h, "hv": h.globalVar(),
              "av": m.globalVar("Q"), "lv": LocalVar("Q"),
              "s0": LocalVar("Q"), "s1": LocalVar("Q")}

        def program(self):
            e = self
            e.s0 = 5
            e.s1 = 7
            addr = type(e).__dict__["s0" if off else "s1"].fmt_addr(e)[1]
            e.r[reg] = e.r10 + addr
            if live_r3 and reg != 3:
                e.r3 = 99
            mem = {"B": e.mB, "H": e.mH, "I": e.mI, "Q": e.mQ, "q": e.mq,
                   "i": e.mi}[fmt]
            a = e.r[reg] + off if off else e.r[reg]
            for u in uses:
                if u == "to_hash":
                    e.hv = mem[a]
                elif u == "to_array":
                    e.av = mem[a]
                elif u == "to_local":
                    e.lv = mem[a]
                elif u == "store":
                    mem[a] = 3
                elif u == "iadd" and fmt in "IQqi":
                    mem[a] += 1
                else:
                    e.av = mem[a] * 3 + 1
            e.exit(XDPExitCode.PASS)
        ns["program"] = program
        return type("VfRegMem", (XDP,), ns)()
    return mk, dict(fmt=fmt, reg=reg, off=off, uses=uses, live_r3=live_r3)


def fam_subprog(rng):
    nsub = rng.randint(1, 3)
    fm = [rng.choice("BHIQbhiq") for _ in range(nsub)]

    def mk():
        m = ArrayMap()
        ns = {"license": "GPL", "m": m, "a": m.globalVar("q"),
              "l": LocalVar("I")}
        subs = []
        for j in range(nsub):
            def sprog(self, j=j):
                self.x = self.ebpf.a + j
                self.g = self.x * 2
                with self.g > 3:
                    self.x = 1
            S = type(f"S{j}", (SubProgram,),
                     {"x": LocalVar(fm[j]), "g": m.globalVar(fm[j]),
                      "program": sprog})
            subs.append(S())

        def program(self):
            self.l = 3
            for s in self.subprograms:
                s.program()
            self.a = self.l
            self.r0 = 2
            self.exit()
        ns["program"] = program
        return type("VfSubs", (XDP,), ns)(subprograms=subs)
    return mk


# --- the library's own programs ---------------------------------------------

DEVS = ["AnalogInput", "AnalogOutput", "DigitalInput", "DigitalOutput",
        "RandomOutput", "Counter", "Motor", "RandomDropper", "Dummy"]


def make_devices(rng, ec, names):
    """instantiate the named bundled devices on fresh offline terminals"""
    devs = []
    pos = 1
    for nm in names:
        fm = rng.random() < 0.5
        if nm in ("AnalogInput", "DigitalInput"):
            ent = [("bit",)] * rng.randint(0, 3) + \
                  [(rng.choice("HIhi"),)] + [("bit",)]
            t, v = ecat.make_terminal(ec, pos, ent, [], use_fmmu=fm)
            if nm == "AnalogInput":
                k = [i for i, e_ in enumerate(ent) if e_[0] != "bit"][0]
            else:
                k = len(ent) - 1
            devs.append(getattr(D, nm)(v[SyncManager.IN, k]))
        elif nm in ("AnalogOutput", "DigitalOutput", "RandomOutput"):
            ent = [("bit",)] * rng.randint(0, 3) + \
                  [(rng.choice("HIhi"),)] + [("bit",)]
            t, v = ecat.make_terminal(ec, pos, [("H",)], ent, use_fmmu=fm)
            if nm == "AnalogOutput":
                k = [i for i, e_ in enumerate(ent) if e_[0] != "bit"][0]
            else:
                k = len(ent) - 1
            devs.append(getattr(D, nm)(v[SyncManager.OUT, k]))
        elif nm == "Motor":
            t, v = ecat.make_terminal(
                ec, pos, [("bit",), ("bit",), ("pad", 6), ("i",)],
                [("bit",), ("pad", 7), ("h",)], use_fmmu=fm)
            mot = D.Motor()
            mot.velocity = v[SyncManager.OUT, 2]
            mot.encoder = v[SyncManager.IN, 3]
            mot.low_switch = v[SyncManager.IN, 0]
            mot.high_switch = v[SyncManager.IN, 1]
            mot.enable = v[SyncManager.OUT, 0]
            devs.append(mot)
        elif nm == "Dummy":
            t, v = ecat.make_terminal(ec, pos, [("H",)], [("H",)],
                                      use_fmmu=fm)
            devs.append(D.Dummy([t]))
        else:
            devs.append(getattr(D, nm)())
            continue
        pos += 1
    return devs


def fam_fastgroup(rng, names=None):
    # Dummy.get_terminals returns a set, so no sync group can be built
    # around it (AttributeError in SyncGroupBase.__init__): it is only
    # tried alone, to document that
    names = names or rng.sample([d for d in DEVS if d != "Dummy"],
                                rng.randint(1, 4))

    def mk(sess):
        ec = ecat.OfflineFastEtherCat(sess)
        devs = make_devices(rng, ec, names)
        sg = FastSyncGroup(ec, devs)
        sg.allocate()
        return sg
    return mk, names


def fam_dispatcher():
    def mk(sess):
        from ebpfcat.bpf import MapType
        e = EtherXDP()
        e.programs = sess.create_map(MapType.PROG_ARRAY, 4, 4, 64)
        return e
    return mk


def run_shard(params):
    res = Result()
    rng = random.Random(params["seed"] * 100183 + params["shard"])
    if params["shard"] == 0:
        submit("dispatcher", fam_dispatcher(), res)
        for nm in DEVS:
            mk, names = fam_fastgroup(rng, [nm])
            submit("fastgroup:" + nm, mk, res, desc=names)
        # large groups (many axes), as loaded by register_sync_group
        for n in (6, 7):
            mk, names = fam_fastgroup(rng, ["Motor"] * n + ["Counter"])
            submit(f"fastgroup:{n} motors", mk, res, desc=names)
    for i in range(params["n"]):
        cs = c01.gen_case(rng, 3)
        submit("c01", lambda: dsl.build(cs["spec"]).ebpf, res, cs["spec"])
        cs2 = c02.gen_case(rng)
        submit("c02", lambda: dsl.build(cs2["spec"]).ebpf, res, cs2["spec"])
        cs3 = c03.gen_case(rng, 3)
        submit("c03", lambda: dsl.build(cs3["spec"]).ebpf, res, cs3["spec"])
        cs4 = c04.gen_case(rng)
        submit("c04", lambda: c04.build(cs4).e, res, cs4)
        cs7 = c07.gen_case(rng)
        submit("c07", lambda: c07.build(cs7), res,
               {k: cs7[k] for k in ("G", "dynamic", "acc")})
        h = c09.gen_hash_case(rng)
        submit("c09hash", lambda: c09.build_hash(h), res, h["vars"])
        d = c09.gen_dict_case(rng)
        submit("c09dict", lambda: c09.build_dict(d)[0], res,
               dict(kf=d["kf"], vf=d["vf"]))
        f, k, a = (rng.choice(c06.FMTS), rng.choice(c06.KINDS),
                   rng.choice(c06.AMOUNTS))
        if not (a in c06.FIXED_ONLY and f != "x"):
            submit("c06", lambda: c06.build(f, k, a, 3)[0], res, [f, k, a])
        submit("calls", fam_calls(rng), res)
        mk, d = fam_rawcall(rng)
        submit("rawcall", mk, res, desc=d)
        mk, d = fam_layout(rng)
        submit("layout", mk, res, desc=d)
        submit("guards", fam_guards(rng), res)
        submit("subprog", fam_subprog(rng), res)
        mk, d = fam_storage_mix(rng)
        submit("storagemix", mk, res, desc=d)
        mk, d = fam_regmem(rng)
        submit("regmem", mk, res, desc=d)
        mk, d = fam_minsize(rng)
        submit("minsize", mk, res, desc=d)
        mk, names = fam_fastgroup(rng)
        submit("fastgroup", mk, res, desc=names)
    return res


def finalize(res, tier, seed):
    c = res.counters
    fams = ["c01", "c02", "c03", "c04", "c06", "c07", "c09hash", "c09dict",
            "calls", "rawcall", "layout", "guards", "subprog", "storagemix", "regmem", "minsize",
            "fastgroup",
            "dispatcher"]
    missing = [f for f in fams if not c.get(f"loaded[{f}]")]
    res.info["families_without_a_loaded_program"] = missing
    if missing:
        res.inconc(f"families without a loaded program: {missing}")
    nd = [d for d in DEVS if not c.get(f"assembled[fastgroup:{d}]")]
    res.info["bundled_devices_not_assembled_alone"] = nd


def replay(v):
    return Result()
