"""importable targets for spawned child processes"""
import time


def obedient_child(running, log_path=None):
    """stands in for ProcessSyncGroup.subprocess_run: cycles until the
    parent clears the shared running flag"""
    n = 0
    while running.value:
        time.sleep(0.002)
        n += 1
        if n > 5000:      # 10 s: the parent forgot us
            break
    if log_path:
        with open(log_path, "w") as f:
            f.write(f"stopped after {n} cycles running={running.value}\n")


# ---------------------------------------------------------------------------
# C29: device classes that a spawned child can re-import by name
# ---------------------------------------------------------------------------
C29_FORMATS = ["B", "H", "I", "Q", "b", "h", "i", "q", "x", "x"]


def _c29_formats(k):
    import random
    rng = random.Random(1000 + k)
    return [rng.choice(C29_FORMATS) for _ in range(rng.randint(1, 6))]


def _make_c29_classes():
    import sys
    sys.path.insert(0, __import__("os").environ.get("EBPFCAT_REPO", "/repo"))
    from ebpfcat.ebpfcat import Device, DeviceVar
    out = []
    for k in range(6):
        ns = {f"v{j}": DeviceVar(f, write=True)
              for j, f in enumerate(_c29_formats(k))}
        ns["__module__"] = __name__
        ns["__qualname__"] = f"C29Dev{k}"
        cls = type(f"C29Dev{k}", (Device,), ns)
        out.append(cls)
        globals()[f"C29Dev{k}"] = cls
    return out


C29_CLASSES = None


def c29_classes():
    global C29_CLASSES
    if C29_CLASSES is None:
        C29_CLASSES = _make_c29_classes()
    return C29_CLASSES


def __getattr__(name):
    # lets pickle resolve vf.procchild.C29DevK in a fresh child
    if name.startswith("C29Dev"):
        c29_classes()
        return globals()[name]
    raise AttributeError(name)


def c29_child(sg, conn):
    """runs in the spawned process: report what is visible, then write"""
    try:
        while True:
            msg = conn.recv()
            if msg[0] == "quit":
                break
            if msg[0] == "read":
                vals = []
                for d in sg.devices:
                    cls = type(d)
                    vals.append([getattr(d, n) for n in sorted(
                        k for k in cls.__dict__ if k.startswith("v"))])
                conn.send(("values", vals))
            elif msg[0] == "write":
                for d, row in zip(sg.devices, msg[1]):
                    cls = type(d)
                    names = sorted(k for k in cls.__dict__
                                   if k.startswith("v"))
                    for n, v in zip(names, row):
                        setattr(d, n, v)
                conn.send(("done",))
    except Exception as ex:
        import traceback
        conn.send(("error", f"{type(ex).__name__}: {ex}",
                   traceback.format_exc()[-600:]))
