"""C16 SDO transfers carry values byte-for-byte"""
import asyncio
import os
import random
import shutil
import struct
import tempfile

from .. import aio, bus, use_repo
from ..core import Result
use_repo()

from ebpfcat.ethercat import EtherCat, EtherCatError, Terminal  # noqa: E402

PROPERTY = "C16"
LEVEL = "exploration"
RULE = ("terminal model with mailbox sizes {24,32,48,64,128,256} and an "
        "ETG.1000.6 SDO server (expedited / normal / segmented up- and "
        "download, complete access, toggle checking, complete-size checking); "
        "object lengths 0 .. 3 mailbox payloads + 8 with every length around "
        "each segmentation boundary and 1-4 for expedited; with subindex and "
        "with complete access; response latency 0..k polls; unrelated mail "
        "(emergency, one to three EoE/FoE/SoE/VoE messages) queued before "
        "the response; plus histories of 2-3 tasks transferring different "
        "objects of one terminal concurrently; servers that answer "
        "complete-access uploads of 1-4 bytes expedited with the "
        "complete-access bit mirrored; transfers that follow earlier ones "
        "of the session (succeeded, aborted, abandoned, or given up while "
        "another process held the terminal's record lock - lockf answering "
        "EAGAIN). The real "
        "Terminal.sdo_write / sdo_read run over the real send loop; the "
        "server's object store, every mailbox message (lengths vs mailbox "
        "size, toggle bits) and the returned bytes are compared. a case = "
        "one transfer; non-trivial = value length >= 1")
ASSUMPTIONS = ["the SDO server model is the conformance reference "
               "(ETG.1000.6): it aborts on toggle errors and on a complete "
               "size that contradicts the data sent"]
MIN_EVALUATIONS = {"quick": 600, "thorough": 20000}
SIZES = [24, 32, 48, 64, 128, 256]


def plan(tier, seed):
    shards = []
    for i, sz in enumerate(SIZES):
        for half in range(3 if tier == "quick" else 6):
            shards.append(dict(seed=seed, shard=i * 10 + half, size=sz,
                               tier=tier, part=half))
    return shards


def lengths_for(sz, rng, tier):
    first = sz - 16                  # data bytes in a download-init message
    seg = sz - 9                     # data bytes per download segment
    upfirst = sz - 16
    upseg = sz - 9
    pts = {0, 1, 2, 3, 4, 5, 7, 8}
    for b in (first, first + seg, first + 2 * seg, upfirst, upfirst + upseg):
        for d in (-1, 0, 1, 2, 6, 7, 8):
            if b + d >= 0:
                pts.add(b + d)
    pts.add(first + 2 * seg + 8)
    pts = sorted(pts)
    if tier == "quick":
        return pts
    return sorted(set(pts) | {rng.randint(0, first + 3 * seg)
                              for _ in range(30)})


def transfer(kind, sz, value, sub, latency, junk, res, desc, sz_in=None,
             lenient=False):
    """kind in write / read; sz = master->slave mailbox size, sz_in =
    slave->master mailbox size (default: the same); lenient = the server
    accepts a download whose complete-size field is 0 (many slaves do)"""
    sz_in = sz_in or sz
    t = bus.SimTerminal("T", station=21)
    struct.pack_into("<HHBBBB", t.mem, 0x800, 0x1000, sz, 0x26, 0, 1, 0)
    struct.pack_into("<HHBBBB", t.mem, 0x808, 0x1400, sz_in, 0x22, 0, 1, 0)
    index = 0x8000
    objs = {}
    if kind == "read":
        if sub is None:
            objs[index, "CA"] = value
        else:
            objs[index, sub] = value
    objs[0x7fff, 1] = b"\x05\x06"
    srv = bus.SdoServer(objs, mbx_in_size=sz_in, mbx_out_size=sz,
                        strict_size=not lenient,
                        ca_expedited=desc.get("ca_expedited", False))
    # an earlier session (another program, a restart) has left the
    # terminal's mailbox counter at some value
    srv.last_counter = desc.get("last_counter", 0)
    t.mbx_handler = srv.handle
    lat = iter(latency)
    t.mbx_resp_latency = lambda: next(lat, 0)
    if junk:
        # unrelated mail that is already waiting when the response comes
        orig = srv.handle

        def handle(msg, orig=orig, first=[True]):
            out = orig(msg)
            if first[0] and out:
                first[0] = False
                extra = []
                for j in junk:
                    if j == "emergency":
                        pl = struct.pack("<H", 1 << 12) + bytes(8)
                        extra.append(struct.pack("<HHBB", len(pl), 0, 0, 3
                                                 | (7 << 4)) + pl)
                    else:
                        # EoE (2), FoE (4), SoE (5), VoE (15) mail
                        typ = {"eoe": 2, "foe": 4, "soe": 5, "voe": 15}[j]
                        pl = bytes([0xee] * 6)
                        extra.append(struct.pack("<HHBB", len(pl), 0, 0, typ
                                                 | (6 << 4)) + pl)
                return extra + out
            return out
        if not desc.get("prelude"):
            t.mbx_handler = handle
    b = bus.Bus([t])

    async def main(loop):
        ec = EtherCat("vf")
        bus.attach(ec, loop, b)
        term = Terminal(ec)
        term.position = 21
        term.mbx_lock = ec.get_mbx_lock(21)
        if desc.get("parallel_lock"):
            # the lock the multi-process master hands out
            from ebpfcat.lock import LockFile, ParallelMailboxLock
            term.mbx_lock = ParallelMailboxLock(
                LockFile(os.path.join(lockdir, "lf"), 0, 100), 21)
            res.count("transfers_under_the_parallel_lock")
        term.mbx_out_off, term.mbx_out_sz = 0x1000, sz
        term.mbx_in_off, term.mbx_in_sz = 0x1400, sz_in
        if desc.get("prelude"):
            res.count("transfers_after_earlier_transfers")
        for step in (desc.get("prelude") or "").split("+"):
            # earlier transfers of the same session: one that succeeds, one
            # that the terminal aborts (missing object)
            if step == "ok":
                r0 = await asyncio.wait_for(term.sdo_read(0x7fff, 1), 2000)
                if r0 != b"\x05\x06":
                    return ("raised", f"prelude read returned {r0!r}")
            elif step == "timeout":
                # an upload the caller gives up (slow terminal): its
                # response is still to come when the next transfer starts
                t.mbx_resp_latency = lambda: 60
                try:
                    await asyncio.wait_for(term.sdo_read(0x7fff, 1), 0.004)
                    res.count("preludes_timeout_came_too_late")
                except asyncio.TimeoutError:
                    res.count("preludes_with_an_abandoned_upload")
                t.mbx_resp_latency = lambda: next(lat, 0)
            elif step == "unfetched":
                # a transfer given up after its request was written and
                # before the (slow) terminal fetched it from the mailbox:
                # the next transfer finds the send mailbox still full
                t.mbx_fetch_latency = lambda: desc.get("fetch_after", 12)
                n0 = len(t.mbx_writes)
                t0 = asyncio.ensure_future(term.sdo_read(0x7fff, 1))
                for _ in range(4000):
                    # (virtual time only moves when nothing is ready)
                    await asyncio.sleep(1e-5)
                    if len(t.mbx_writes) > n0:
                        break
                for _ in range(desc.get("cancel_after", 0)):
                    await asyncio.sleep(1e-5)
                if t.mbx_out_full and not t0.done():
                    res.count("preludes_with_an_unfetched_request")
                t0.cancel()
                try:
                    await t0
                except (asyncio.CancelledError, EtherCatError):
                    pass
                t.mbx_fetch_latency = lambda: 0
            elif step == "contended":
                # another process holds the terminal's record lock (lockf
                # answers EAGAIN, which is all this process sees of it); the
                # transfer that waits for it is given up; then the other
                # process is done
                import ebpfcat.lock as lockmod

                class Fcntl:
                    def __getattr__(self, n):
                        return getattr(real_fcntl, n)

                    def lockf(self, fd, cmd, *a):
                        if cmd & real_fcntl.LOCK_EX:
                            res.count("lockf_calls_answered_eagain")
                            raise BlockingIOError(11, "held elsewhere")
                        return real_fcntl.lockf(fd, cmd, *a)
                real_fcntl = lockmod.fcntl
                lockmod.fcntl = Fcntl()
                try:
                    t0 = asyncio.ensure_future(term.sdo_read(0x7fff, 1))
                    for _ in range(desc.get("cancel_after", 3)):
                        await asyncio.sleep(0)
                    t0.cancel()
                    try:
                        await t0
                        return ("raised", "transfer ended without the lock")
                    except asyncio.CancelledError:
                        res.count("preludes_cancelled_waiting_for_another_"
                                  "process")
                finally:
                    lockmod.fcntl = real_fcntl
            elif step == "fail":
                try:
                    await asyncio.wait_for(term.sdo_read(0x7ffe, 1), 2000)
                    return ("raised", "upload of a missing object succeeded")
                except EtherCatError:
                    res.count("preludes_with_an_aborted_transfer")
        if junk and desc.get("prelude"):
            t.mbx_handler = handle
        marks.append(len(t.events))
        try:
            if kind == "write":
                r = await asyncio.wait_for(
                    term.sdo_write(value, index, sub), 2000)
            else:
                r = await asyncio.wait_for(term.sdo_read(index, sub), 2000)
            return ("ok", r)
        except asyncio.TimeoutError:
            return ("timeout", None)
        except Exception as ex:
            return ("raised", f"{type(ex).__name__}: {str(ex)[:120]}")
    lockdir = tempfile.mkdtemp(prefix="vf-c16-")
    marks = []
    try:
        out = aio.run(main, max_iterations=30000)
    except aio.Idle as ex:
        # bounded progress: a conformant exchange ends within a few hundred
        # loop iterations; this is a logical-step bound, not a timer
        out = ("timeout", f"transfer did not end: {ex}")
    finally:
        shutil.rmtree(lockdir, ignore_errors=True)
    lim = (sz if kind == "write" else sz_in) - 16
    mode = ("expedited" if len(value) <= 4 and sub is not None
            else "normal" if len(value) <= lim else "segmented")
    if kind == "read" and sub is None and len(value) <= lim:
        mode = "expedited" if desc.get("ca_expedited") else "normal"
    res.count(f"{kind}[{mode}{'/ca' if sub is None else ''}]"
              + ("[lenient]" if lenient else "")
              + ("[asym]" if sz_in != sz else ""))
    res.count("mailbox_messages", len(t.mbx_writes) + len(t.mbx_reads))
    problems = []
    toolong = [len(m) for m in srv.errors if "exceeds mailbox" in m]
    stale = desc.get("prelude") == "timeout"
    if "unfetched" in (desc.get("prelude") or "") and marks:
        # the abandoned request is answered after all: the transfer under
        # test may fail once the master has read that stale response after
        # handing over its own request (as for "timeout"), not otherwise
        own = False
        for e in t.events[marks[0]:]:
            if e[0] == "mbx_write":
                own = True
            elif e[0] == "mbx_read" and own and len(e[1]) >= 12 and \
                    e[1][5] & 0xf == 3 and \
                    struct.unpack_from("<H", e[1], 9)[0] == 0x7fff:
                stale = True
    if out[0] != "ok" and stale:
        # the stale response of the abandoned upload may make this transfer
        # fail (the statement promises no success here), but never succeed
        # with the other object's bytes
        res.count("transfers_refused_behind_a_stale_response")
    elif out[0] != "ok":
        problems.append(f"client {out[0]}: {out[1]}")
    if srv.errors and not stale:
        problems.append(f"server saw protocol errors: {srv.errors[:2]}")
    if kind == "write" and out[0] == "ok":
        stored = srv.objects.get((index, "CA") if sub is None
                                 else (index, sub))
        if stored != value:
            problems.append(
                f"server holds {None if stored is None else stored.hex()[:40]}"
                f" ({None if stored is None else len(stored)} bytes), "
                f"written {value.hex()[:40]} ({len(value)} bytes)")
    if kind == "read" and out[0] == "ok" and out[1] != value:
        problems.append(f"read returned {out[1]!r:.60} "
                        f"({len(out[1]) if hasattr(out[1], '__len__') else '?'}"
                        f" bytes), server holds {len(value)} bytes")
    if problems:
        key = classify(kind, mode, sub, junk)
        if lenient and kind == "write" and mode == "normal" and \
                sub is not None and 10 <= len(value) <= sz - 17 and \
                not junk:
            # this range works on the pinned tree with a lenient server
            key = "unexplained:write-normal-lenient-server"
        res.violation(key,
                      f"mailbox {sz}/{sz_in}, {len(value)} bytes: "
                      + "; ".join(problems[:3]), case=desc,
                      witness=dict(server_log=srv.log[:12],
                                   messages=[m[:24].hex()
                                             for m in t.mbx_writes[:6]]))
    elif len(res.samples) < 3 and mode != "expedited":
        res.sample(dict(desc, server_log=srv.log[:6]))


def concurrent(sz, rng, res):
    """2-3 tasks transfer different objects of one terminal at the same
    time (expedited downloads, expedited / normal uploads), with response
    latencies of several polls: every transfer must still carry its own
    bytes"""
    t = bus.SimTerminal("T", station=21)
    struct.pack_into("<HHBBBB", t.mem, 0x800, 0x1000, sz, 0x26, 0, 1, 0)
    struct.pack_into("<HHBBBB", t.mem, 0x808, 0x1400, sz, 0x22, 0, 1, 0)
    ntask = rng.choice([2, 2, 3])
    jobs = []
    objs = {}
    for k in range(ntask):
        kind = rng.choice(["write", "read", "read"])
        index, sub = 0x8000 + 0x10 * k, rng.randint(1, 9)
        ln = rng.randint(1, 4) if kind == "write" else rng.choice(
            [rng.randint(1, 4), rng.randint(5, sz - 16)])
        value = bytes(rng.getrandbits(8) for _ in range(ln))
        if kind == "read":
            objs[index, sub] = value
        jobs.append(dict(kind=kind, index=index, sub=sub, value=value,
                         start=rng.randint(0, 3)))
    srv = bus.SdoServer(objs, mbx_in_size=sz, mbx_out_size=sz)
    t.mbx_handler = srv.handle
    lats = [rng.choice([0, 1, 3, 4, 6]) for _ in range(12)]
    lat = iter(lats)
    t.mbx_resp_latency = lambda: next(lat, 0)
    b = bus.Bus([t])
    desc = dict(mode="concurrent", mailbox=sz, latency=lats,
                prober=rng.random() < 0.5,
                jobs=[dict(j, value=j["value"].hex()) for j in jobs])

    async def main(loop):
        ec = EtherCat("vf")
        bus.attach(ec, loop, b)
        term = Terminal(ec)
        term.position = 21
        term.mbx_lock = ec.get_mbx_lock(21)
        term.mbx_out_off, term.mbx_out_sz = 0x1000, sz
        term.mbx_in_off, term.mbx_in_sz = 0x1400, sz

        async def job(j):
            for _ in range(j["start"]):
                await asyncio.sleep(0)
            try:
                if j["kind"] == "write":
                    return ("ok", await term.sdo_write(
                        j["value"], j["index"], j["sub"]))
                return ("ok", await term.sdo_read(j["index"], j["sub"]))
            except Exception as ex:
                return ("raised", f"{type(ex).__name__}: {str(ex)[:100]}")
        stop = []

        async def prober():
            # somebody scans for free addresses at the same time: reads of
            # a station address nobody has come back unprocessed
            from ebpfcat.ethercat import ECCmd
            n = 0
            while not stop and n < 200:
                try:
                    await ec.roundtrip(ECCmd.FPRD, 0x7a00 + n % 3, 0x10, "H")
                except EtherCatError:
                    pass
                n += 1
                for _ in range(n % 3):
                    await asyncio.sleep(0)
            return n
        pr = asyncio.ensure_future(prober()) if desc["prober"] else None
        try:
            return await asyncio.wait_for(
                asyncio.gather(*[job(j) for j in jobs]), 4000)
        except asyncio.TimeoutError:
            return None
        finally:
            stop.append(1)
            if pr is not None:
                res.count("unanswered_probes_beside_transfers", await pr)
    try:
        outs = aio.run(main, max_iterations=60000)
    except aio.Idle:
        outs = None
    res.case(desc)
    res.count("concurrent_histories")
    res.count("concurrent_transfers", ntask)
    problems = []
    if outs is None:
        problems.append("transfers timed out")
        outs = []
    for j, o in zip(jobs, outs):
        if o[0] != "ok":
            problems.append(f"{j['kind']} {j['index']:#x}:{j['sub']} {o[1]}")
        elif j["kind"] == "read" and o[1] != j["value"]:
            problems.append(f"read {j['index']:#x}:{j['sub']} returned "
                            f"{o[1]!r:.40}, server holds {j['value']!r:.40}")
        elif j["kind"] == "write" and \
                srv.objects.get((j["index"], j["sub"])) != j["value"]:
            problems.append(f"write {j['index']:#x}:{j['sub']}: server "
                            f"holds {srv.objects.get((j['index'], j['sub']))}")
    if srv.errors:
        problems.append(f"server saw protocol errors: {srv.errors[:2]}")
    if problems:
        res.violation("unexplained:concurrent-transfers",
                      f"mailbox {sz}: " + "; ".join(problems[:3]), case=desc,
                      witness=dict(server_log=srv.log[:12]))


def classify(kind, mode, sub, junk):
    """mechanism behind a failing transfer (from reading sdo_read/sdo_write);
    anything else is unexplained"""
    if "emergency" in junk:
        return "coe-emergency-before-response-not-skipped"
    if kind == "write" and junk:
        return "sdo-write-does-not-skip-foreign-mail"
    if kind == "write" and mode in ("normal", "segmented"):
        return "sdo-download-normal-and-segmented-malformed"
    if kind == "read" and mode == "segmented":
        return "sdo-upload-segmented-broken"
    return (f"unexplained:{kind}-{mode}"
            + ("-complete-access" if sub is None else "")
            + ("-after-" + "+".join(sorted(set(junk))) if junk else ""))


def run_shard(params):
    res = Result()
    rng = random.Random(params["seed"] * 100267 + params["shard"])
    sz = params["size"]
    lens = lengths_for(sz, rng, params["tier"])
    nparts = 3 if params["tier"] == "quick" else 6
    for k, ln in enumerate(lens):
        if k % nparts != params["part"] or ln == 0:
            continue      # zero-length values cannot be expressed in SDO
        reps = 8 if ln <= 4 else (3 if ln <= sz - 16 else 1)
        for kind, sub in [(k_, s_) for _ in range(reps)
                          for k_ in ("write", "read")
                          for s_ in (rng.randint(0, 20), None)]:
            if True:
                value = bytes(rng.getrandbits(8) for _ in range(ln))
                latency = [rng.choice([0, 0, 1, 3]) for _ in range(8)]
                junk = rng.choice([[], [], ["emergency"], ["eoe"],
                                   ["emergency", "eoe"], ["eoe", "voe"],
                                   ["foe", "eoe", "soe"]])
                desc = dict(kind=kind, mailbox=sz, length=ln, sub=sub,
                            latency=latency, junk=junk,
                            last_counter=rng.choice([0, 0, 1, 1, 2, 7]),
                            # what the same master did before on this
                            # terminal, and the lock kind of its mailbox
                            prelude=rng.choice([None, None, "ok", "fail",
                                                "ok+fail", "timeout"]),
                            parallel_lock=rng.random() < 0.4,
                            value=value.hex()[:64])
                if rng.random() < 0.1:
                    desc.update(prelude=rng.choice(["unfetched",
                                                    "ok+unfetched"]),
                                fetch_after=rng.randint(6, 40),
                                cancel_after=rng.randint(0, 3))
                elif rng.random() < 0.12:
                    desc.update(prelude=rng.choice(["contended",
                                                    "ok+contended"]),
                                parallel_lock=True,
                                cancel_after=rng.randint(1, 9))
                if kind == "read" and sub is None and ln <= 4:
                    desc["ca_expedited"] = rng.random() < 0.6
                    if desc["ca_expedited"]:
                        res.count("complete_access_uploads_answered_expedited")
                res.case(desc, nontrivial=ln >= 1)
                transfer(kind, sz, value, sub, latency, junk, res, desc)
    for _ in range(40 if params["tier"] == "quick" else 400):
        concurrent(sz, rng, res)
    # single-message normal downloads against a server that does not insist
    # on the complete-size field, symmetric and asymmetric mailboxes
    others = [x for x in SIZES if x != sz]
    for k in range(60 if params["tier"] == "quick" else 500):
        sz_in = rng.choice([sz, rng.choice(others), rng.choice(others)])
        ln = rng.choice([10, 11, sz - 18, sz - 17, rng.randint(10, max(
            10, sz - 17))])
        if ln < 10 or ln > sz - 17:
            continue
        if k % params.get("nparts", 3) != params["part"] % 3:
            pass
        value = bytes(rng.getrandbits(8) for _ in range(ln))
        latency = [rng.choice([0, 0, 1, 3]) for _ in range(8)]
        sub = rng.choice([0, rng.randint(1, 20), rng.randint(1, 20)])
        if sub == 0:
            res.count("normal_downloads_to_subindex_0")
        desc = dict(kind="write", mailbox=sz, mailbox_in=sz_in, length=ln,
                    sub=sub, latency=latency, junk=[], lenient=True,
                    value=value.hex()[:64])
        res.case(desc)
        transfer("write", sz, value, sub, latency, [], res, desc,
                 sz_in=sz_in, lenient=True)
        # uploads with asymmetric mailboxes
        ln2 = rng.randint(1, max(1, sz_in - 16))
        value2 = bytes(rng.getrandbits(8) for _ in range(ln2))
        desc2 = dict(kind="read", mailbox=sz, mailbox_in=sz_in, length=ln2,
                     sub=sub, latency=latency, junk=[],
                     value=value2.hex()[:64])
        res.case(desc2)
        transfer("read", sz, value2, sub, latency, [], res, desc2,
                 sz_in=sz_in)
    return res


def finalize(res, tier, seed):
    c = res.counters
    need = ["write[expedited]", "write[normal]", "write[segmented]",
            "read[expedited]", "read[normal]", "read[segmented]",
            "write[normal/ca]", "read[normal/ca]"]
    missing = [n for n in need if not c.get(n)]
    if missing:
        res.inconc(f"transfer kinds never exercised: {missing}")
    if not c.get("concurrent_histories"):
        res.inconc("no concurrent transfer history ran")


def replay(v):
    return Result()
