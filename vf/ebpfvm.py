"""V: a reference eBPF machine with a sanitizer and single-step scheduling

Independent of ebpfcat's encoder: it decodes the 8-byte instructions of
EBPF.assemble().  Flat 64-bit address space made of regions; every access is
bounds-checked against its region, stack bytes carry an initialised bit and
every access can be delivered to monitors as an event.
"""
import bisect
import struct

M64 = (1 << 64) - 1
M32 = (1 << 32) - 1

STACK_BASE = 0x7F00_0000_0000
STACK_SIZE = 512
PKT_BASE = 0x6000_0000_1000
CTX_BASE = 0x5000_0000_0000
MAPH_BASE = 0x4000_0000_0000      # map handles (LD_IMM64 pseudo fd)
MAPV_BASE = 0x3000_0000_0000      # map value storage

XDP_ABORTED, XDP_DROP, XDP_PASS, XDP_TX, XDP_REDIRECT = range(5)


class VMFault(Exception):
    """the program did something the sanitizer forbids"""

    def __init__(self, kind, detail, pc=None):
        super().__init__(f"{kind}: {detail} at pc={pc}")
        self.kind = kind
        self.detail = detail
        self.pc = pc


def s64(v):
    v &= M64
    return v - (1 << 64) if v >> 63 else v


def s32(v):
    v &= M32
    return v - (1 << 32) if v >> 31 else v


def sx(v, bits):
    v &= (1 << bits) - 1
    return v - (1 << bits) if v >> (bits - 1) else v


class Region:
    __slots__ = ("name", "base", "size", "data", "init", "writable", "tag")

    def __init__(self, name, base, size, data=None, writable=True,
                 track_init=False, tag=None):
        self.name = name
        self.base = base
        self.size = size
        self.data = data if data is not None else bytearray(size)
        self.init = bytearray(size) if track_init else None
        self.writable = writable
        self.tag = tag


class VMMap:
    def __init__(self, fd, mtype, key_size, value_size, max_entries):
        self.fd = fd
        self.type = mtype              # 'array' 'percpu_array' 'hash' 'prog'
        self.key_size = key_size
        self.value_size = value_size
        self.max_entries = max_entries
        self.handle = MAPH_BASE + fd * 0x100
        self.entries = {}              # hash: key bytes -> Region
        self.region = None             # array: one region for all values
        self.progs = {}                # prog array: index -> Program
        self.order = []                # insertion order (LRU approximation)


class Program:
    def __init__(self, code, name="prog"):
        self.name = name
        self.raw = bytes(code)
        self.insns = [struct.unpack_from("<BBhi", self.raw, i)
                      for i in range(0, len(self.raw), 8)]


class Memory:
    """the regions shared by all machine instances"""

    def __init__(self):
        self.regions = []     # sorted by base
        self.bases = []
        self.maps = {}        # fd -> VMMap
        self.by_handle = {}
        self.next_mapv = MAPV_BASE
        self.hooks = []       # callables(vm, kind, region, off, size, value)

    def add_region(self, r):
        i = bisect.bisect(self.bases, r.base)
        self.bases.insert(i, r.base)
        self.regions.insert(i, r)
        return r

    def remove_region(self, r):
        i = self.regions.index(r)
        del self.regions[i]
        del self.bases[i]

    def find(self, addr, size):
        i = bisect.bisect(self.bases, addr) - 1
        if i < 0:
            return None
        r = self.regions[i]
        if addr + size <= r.base + r.size:
            return r
        return None

    def find_any(self, addr):
        i = bisect.bisect(self.bases, addr) - 1
        if i < 0:
            return None
        r = self.regions[i]
        if addr < r.base + r.size + 4096:
            return r
        return None

    # maps ---------------------------------------------------------
    def add_map(self, fd, mtype, key_size, value_size, max_entries,
                backing=None):
        m = VMMap(fd, mtype, key_size, value_size, max_entries)
        self.maps[fd] = m
        self.by_handle[m.handle] = m
        if mtype in ("array", "percpu_array"):
            stride = (value_size + 7) & ~7
            size = stride * max_entries
            data = backing if backing is not None else bytearray(size)
            m.region = self.add_region(
                Region(f"map{fd}", self._alloc(size), size, data,
                       tag=("map", fd)))
            m.stride = stride
        return m

    def _alloc(self, size):
        base = self.next_mapv
        self.next_mapv += ((size + 4095) // 4096 + 1) * 4096
        return base

    def hash_insert(self, m, key, value):
        key = bytes(key)
        r = m.entries.get(key)
        if r is None:
            if len(m.entries) >= m.max_entries:
                if m.type == "lru_hash":
                    old = m.order.pop(0)
                    del m.entries[old]
                else:
                    return -7   # E2BIG
            r = self.add_region(
                Region(f"map{m.fd}[{key.hex()}]", self._alloc(m.value_size),
                       m.value_size, tag=("map", m.fd, key)))
            m.entries[key] = r
            m.order.append(key)
        r.data[:] = bytes(value)[:m.value_size].ljust(m.value_size, b"\0")
        return 0


class VM:
    def __init__(self, mem, prog, packet=b"", ident=0, clock=None, rng=None,
                 trace=False):
        self.mem = mem
        self.ident = ident
        self.prog = prog
        self.pc = 0
        self.regs = [None] * 11
        self.exited = False
        self.retval = None
        self.steps = 0
        self.tail_calls = 0
        self.trace = [] if trace else None
        self.clock = clock or (lambda: 1_000_000_000)
        self.rng = rng or (lambda: 0x12345678)
        self.programs_run = [prog.name]
        # private regions
        self.stack = Region(f"stack{ident}", STACK_BASE + ident * 0x10000,
                            STACK_SIZE, track_init=True, tag=("stack", ident))
        mem.add_region(self.stack)
        pkt = bytearray(packet)
        self.pkt_len = len(pkt)
        self.packet = Region(f"pkt{ident}", PKT_BASE + ident * 0x10000,
                             len(pkt), pkt, tag=("pkt", ident))
        mem.add_region(self.packet)
        self.ctx = Region(f"ctx{ident}", CTX_BASE + ident * 0x1000, 24,
                          writable=False, tag=("ctx", ident))
        mem.add_region(self.ctx)
        self.regs[1] = self.ctx.base
        self.regs[10] = self.stack.base + STACK_SIZE

    def release(self):
        for r in (self.stack, self.packet, self.ctx):
            self.mem.remove_region(r)

    # ------------------------------------------------------------------
    def fault(self, kind, detail):
        raise VMFault(kind, detail, self.pc)

    def reg(self, n):
        v = self.regs[n]
        if v is None:
            self.fault("uninit-register", f"r{n} read before written")
        return v

    def load(self, addr, size):
        r = self.mem.find(addr, size)
        if r is None:
            near = self.mem.find_any(addr)
            self.fault("oob-read",
                       f"{size} bytes at {addr:#x}"
                       + (f" (near {near.name}+{addr - near.base})"
                          if near else ""))
        off = addr - r.base
        if r is self.ctx:
            if size != 4 or off not in (0, 4, 8, 12, 16, 20):
                self.fault("bad-ctx-access", f"size {size} off {off}")
            if off == 0 or off == 8:
                v = self.packet.base
            elif off == 4:
                v = self.packet.base + self.pkt_len
            else:
                v = 0
            return v
        if r.init is not None:
            if r.init[off:off + size] != b"\x01" * size:
                self.fault("uninit-stack-read",
                           f"{size} bytes at fp{off - STACK_SIZE}")
        v = int.from_bytes(r.data[off:off + size], "little")
        for h in self.mem.hooks:
            h(self, "r", r, off, size, v)
        return v

    def store(self, addr, size, value, kind="w"):
        r = self.mem.find(addr, size)
        if r is None:
            near = self.mem.find_any(addr)
            self.fault("oob-write",
                       f"{size} bytes at {addr:#x}"
                       + (f" (near {near.name}+{addr - near.base})"
                          if near else ""))
        if not r.writable:
            self.fault("readonly-write", r.name)
        off = addr - r.base
        r.data[off:off + size] = (value & ((1 << (8 * size)) - 1)).to_bytes(
            size, "little")
        if r.init is not None:
            r.init[off:off + size] = b"\x01" * size
        for h in self.mem.hooks:
            h(self, kind, r, off, size, value)

    # ------------------------------------------------------------------
    def run(self, max_steps=100000):
        while not self.exited:
            self.step()
            if self.steps > max_steps:
                self.fault("step-limit", f"more than {max_steps} steps")
        return self.retval

    def step(self):
        if self.exited:
            return False
        insns = self.prog.insns
        if not 0 <= self.pc < len(insns):
            self.fault("pc-out-of-range", str(self.pc))
        opc, regs, off, imm = insns[self.pc]
        dst = regs & 15
        src = regs >> 4
        if self.trace is not None:
            self.trace.append((self.prog.name, self.pc, opc, dst, src, off,
                               imm))
        self.steps += 1
        cls = opc & 7
        nextpc = self.pc + 1
        if cls == 7 or cls == 4:
            self.alu(opc, dst, src, off, imm, cls == 7)
        elif cls == 5 or cls == 6:
            nextpc = self.jmp(opc, dst, src, off, imm, cls == 5)
        elif cls == 1:   # LDX
            size = (4, 2, 1, 8)[(opc >> 3) & 3]
            mode = opc & 0xe0
            v = self.load((self.reg(src) + off) & M64, size)
            if mode == 0x80:
                v = sx(v, size * 8) & M64
            elif mode != 0x60:
                self.fault("bad-opcode", hex(opc))
            self.regs[dst] = v
        elif cls == 2:   # ST imm
            size = (4, 2, 1, 8)[(opc >> 3) & 3]
            if opc & 0xe0 != 0x60:
                self.fault("bad-opcode", hex(opc))
            self.store((self.reg(dst) + off) & M64, size, imm & M64)
        elif cls == 3:   # STX
            size = (4, 2, 1, 8)[(opc >> 3) & 3]
            mode = opc & 0xe0
            addr = (self.reg(dst) + off) & M64
            if mode == 0x60:
                self.store(addr, size, self.reg(src))
            elif mode == 0xc0:
                if size not in (4, 8):
                    self.fault("bad-atomic-size", str(size))
                self.atomic(addr, size, src, imm)
            else:
                self.fault("bad-opcode", hex(opc))
        elif cls == 0:   # LD
            if opc != 0x18:
                self.fault("bad-opcode", hex(opc))
            if self.pc + 1 >= len(insns):
                self.fault("truncated-ldimm64", "")
            _, _, _, imm2 = insns[self.pc + 1]
            if src == 1:
                m = self.mem.maps.get(imm)
                if m is None:
                    self.fault("unknown-map-fd", str(imm))
                self.regs[dst] = m.handle
            elif src == 0:
                self.regs[dst] = (imm & M32) | ((imm2 & M32) << 32)
            else:
                self.fault("bad-ldimm64-src", str(src))
            nextpc = self.pc + 2
        self.pc = nextpc
        return not self.exited

    def atomic(self, addr, size, src, imm):
        mask = (1 << (8 * size)) - 1
        r = self.mem.find(addr, size)
        if r is None:
            self.fault("oob-atomic", f"{addr:#x}")
        off = addr - r.base
        if r.init is not None and r.init[off:off + size] != b"\x01" * size:
            self.fault("uninit-stack-read", f"atomic at fp{off - 512}")
        old = int.from_bytes(r.data[off:off + size], "little")
        op = imm & 0xf0
        sv = self.reg(src) & mask
        if imm in (0x00, 0x01):
            new = (old + sv) & mask
        elif imm in (0x40, 0x41):
            new = old | sv
        elif imm in (0x50, 0x51):
            new = old & sv
        elif imm in (0xa0, 0xa1):
            new = old ^ sv
        elif imm == 0xe1:
            new = sv
        elif imm == 0xf1:
            r0 = self.reg(0) & mask
            new = sv if old == r0 else old
            self.regs[0] = old
        else:
            self.fault("bad-atomic-op", hex(imm))
        r.data[off:off + size] = new.to_bytes(size, "little")
        for h in self.mem.hooks:
            h(self, "a", r, off, size, new)
        if imm & 1 and imm != 0xf1:
            self.regs[src] = old

    def alu(self, opc, dst, src, off, imm, is64):
        op = opc >> 4
        mask = M64 if is64 else M32
        bits = 64 if is64 else 32
        if op == 0xd:   # END
            d = self.reg(dst)
            if is64:            # BSWAP (v4)
                d = int.from_bytes((d & ((1 << imm) - 1)).to_bytes(
                    imm // 8, "little"), "big")
            elif opc & 8:       # to BE
                d = int.from_bytes((d & ((1 << imm) - 1)).to_bytes(
                    imm // 8, "little"), "big")
            else:               # to LE on a LE host: truncate
                d = d & ((1 << imm) - 1)
            self.regs[dst] = d
            return
        if op == 8:   # NEG
            self.regs[dst] = (-self.reg(dst)) & mask
            return
        if opc & 8:
            s = self.reg(src)
        else:
            s = imm & M64 if is64 else imm & M32    # imm sign-extended
        s &= mask
        if op == 0xb:   # MOV
            if off in (8, 16, 32) and (opc & 8):
                s = sx(s, off) & mask
            elif off != 0:
                self.fault("bad-mov-off", str(off))
            self.regs[dst] = s
            return
        d = self.reg(dst) & mask
        if op == 0:
            v = d + s
        elif op == 1:
            v = d - s
        elif op == 2:
            v = d * s
        elif op == 3 or op == 9:
            if off == 1:   # signed
                sd, ss = sx(d, bits), sx(s, bits)
                if ss == 0:
                    v = 0 if op == 3 else d
                elif ss == -1 and sd == -(1 << (bits - 1)):
                    v = sd if op == 3 else 0
                else:
                    q = abs(sd) // abs(ss)
                    if (sd < 0) != (ss < 0):
                        q = -q
                    v = q if op == 3 else sd - q * ss
            elif off == 0:
                if s == 0:
                    v = 0 if op == 3 else d
                else:
                    v = d // s if op == 3 else d % s
            else:
                self.fault("bad-div-off", str(off))
        elif op == 4:
            v = d | s
        elif op == 5:
            v = d & s
        elif op == 6:
            v = d << (s & (bits - 1))
        elif op == 7:
            v = d >> (s & (bits - 1))
        elif op == 0xa:
            v = d ^ s
        elif op == 0xc:
            v = sx(d, bits) >> (s & (bits - 1))
        else:
            self.fault("bad-alu-op", hex(opc))
        self.regs[dst] = v & mask

    def jmp(self, opc, dst, src, off, imm, is64):
        op = opc >> 4
        if op == 0:
            if not is64:
                return self.pc + 1 + imm
            return self.pc + 1 + off
        if op == 8:
            self.call(imm)
            return self.pc + 1 if self.pc >= 0 else 0
        if op == 9:
            self.exited = True
            self.retval = self.reg(0) & M32
            return self.pc
        bits = 64 if is64 else 32
        mask = M64 if is64 else M32
        d = self.reg(dst) & mask
        if opc & 8:
            s = self.reg(src) & mask
        else:
            s = imm & mask
        sd, ss = sx(d, bits), sx(s, bits)
        t = {1: d == s, 2: d > s, 3: d >= s, 4: bool(d & s), 5: d != s,
             6: sd > ss, 7: sd >= ss, 0xa: d < s, 0xb: d <= s,
             0xc: sd < ss, 0xd: sd <= ss}.get(op)
        if t is None:
            self.fault("bad-jmp-op", hex(opc))
        return self.pc + 1 + (off if t else 0)

    def _map_arg(self, n):
        m = self.mem.by_handle.get(self.reg(n))
        if m is None:
            self.fault("bad-map-arg", f"r{n}={self.reg(n):#x}")
        return m

    def _read_bytes(self, addr, size):
        r = self.mem.find(addr, size)
        if r is None:
            self.fault("oob-helper-read", f"{size} bytes at {addr:#x}")
        off = addr - r.base
        if r.init is not None and r.init[off:off + size] != b"\x01" * size:
            self.fault("uninit-stack-read",
                       f"helper reads {size} bytes at fp{off - STACK_SIZE}")
        b = bytes(r.data[off:off + size])
        for h in self.mem.hooks:
            h(self, "hr", r, off, size, b)
        return b

    def call(self, fn):
        mem = self.mem
        r0 = 0
        if fn == 1:     # map_lookup_elem
            m = self._map_arg(1)
            key = self._read_bytes(self.reg(2), m.key_size)
            if m.type in ("array", "percpu_array"):
                idx = int.from_bytes(key, "little")
                r0 = (m.region.base + idx * m.stride
                      if idx < m.max_entries else 0)
            elif m.type in ("hash", "lru_hash"):
                r = m.entries.get(key)
                r0 = r.base if r is not None else 0
                if r is not None and m.type == "lru_hash":
                    m.order.remove(key)
                    m.order.append(key)
            else:
                self.fault("lookup-on-bad-map", m.type)
        elif fn == 2:   # map_update_elem
            m = self._map_arg(1)
            key = self._read_bytes(self.reg(2), m.key_size)
            val = self._read_bytes(self.reg(3), m.value_size)
            flags = self.reg(4) & M64
            if m.type in ("array", "percpu_array"):
                idx = int.from_bytes(key, "little")
                if idx >= m.max_entries:
                    r0 = -7 & M64
                elif flags == 1:
                    r0 = -17 & M64
                else:
                    o = idx * m.stride
                    m.region.data[o:o + m.value_size] = val
            elif m.type in ("hash", "lru_hash"):
                exists = key in m.entries
                if flags == 1 and exists:
                    r0 = -17 & M64     # EEXIST
                elif flags == 2 and not exists:
                    r0 = -2 & M64      # ENOENT
                elif flags > 2:
                    r0 = -22 & M64
                else:
                    r0 = mem.hash_insert(m, key, val) & M64
            else:
                self.fault("update-on-bad-map", m.type)
        elif fn == 3:   # map_delete_elem
            m = self._map_arg(1)
            key = self._read_bytes(self.reg(2), m.key_size)
            if m.type in ("hash", "lru_hash"):
                if key in m.entries:
                    del m.entries[key]
                    m.order.remove(key)
                else:
                    r0 = -2 & M64
            else:
                r0 = -22 & M64
        elif fn == 5:
            r0 = self.clock() & M64
        elif fn == 7:
            r0 = self.rng() & M32
        elif fn == 8:
            r0 = 0
        elif fn == 12:  # tail_call
            if self.reg(1) != self.ctx.base:
                self.fault("tail-call-ctx", "r1 is not the context")
            m = self._map_arg(2)
            if m.type != "prog":
                self.fault("tail-call-map", m.type)
            idx = self.reg(3) & M32
            p = m.progs.get(idx) if idx < m.max_entries else None
            if p is not None and self.tail_calls < 33:
                self.tail_calls += 1
                self.prog = p
                self.programs_run.append(p.name)
                self.pc = -1
                ctx = self.regs[1]
                self.regs = [None] * 11
                self.regs[1] = ctx
                self.regs[10] = self.stack.base + STACK_SIZE
                self.stack.init[:] = bytes(STACK_SIZE)
                return
            r0 = self.regs[0] if self.regs[0] is not None else 0
        else:
            self.fault("unknown-helper", str(fn))
        self.regs[0] = r0
        for i in range(1, 6):
            self.regs[i] = None

    def out_packet(self):
        return bytes(self.packet.data[:self.pkt_len])


# ---------------------------------------------------------------------------
ALU_NAMES = {0: "add", 1: "sub", 2: "mul", 3: "div", 4: "or", 5: "and",
             6: "lsh", 7: "rsh", 8: "neg", 9: "mod", 0xa: "xor", 0xb: "mov",
             0xc: "arsh", 0xd: "end"}
JMP_NAMES = {0: "ja", 1: "jeq", 2: "jgt", 3: "jge", 4: "jset", 5: "jne",
             6: "jsgt", 7: "jsge", 8: "call", 9: "exit", 0xa: "jlt",
             0xb: "jle", 0xc: "jslt", 0xd: "jsle"}


def disasm(code):
    out = []
    insns = [struct.unpack_from("<BBhi", code, i)
             for i in range(0, len(code), 8)]
    skip = False
    for pc, (opc, regs, off, imm) in enumerate(insns):
        if skip:
            skip = False
            continue
        dst, src = regs & 15, regs >> 4
        cls = opc & 7
        sz = ("w", "h", "b", "dw")[(opc >> 3) & 3]
        if cls in (4, 7):
            n = ALU_NAMES.get(opc >> 4, "?") + ("64" if cls == 7 else "32")
            a = f"r{src}" if opc & 8 else str(imm)
            s = f"{n} r{dst}, {a}" + (f" off={off}" if off else "")
        elif cls in (5, 6):
            n = JMP_NAMES.get(opc >> 4, "?") + ("" if cls == 5 else "32")
            if opc >> 4 == 8:
                s = f"call {imm}"
            elif opc >> 4 == 9:
                s = "exit"
            elif opc >> 4 == 0:
                s = f"ja +{off} -> {pc + 1 + off}"
            else:
                a = f"r{src}" if opc & 8 else str(imm)
                s = f"{n} r{dst}, {a}, +{off} -> {pc + 1 + off}"
        elif cls == 1:
            s = f"ldx{sz} r{dst}, [r{src}{off:+}]"
        elif cls == 2:
            s = f"st{sz} [r{dst}{off:+}], {imm}"
        elif cls == 3:
            m = "atomic" if opc & 0xe0 == 0xc0 else "stx"
            s = f"{m}{sz} [r{dst}{off:+}], r{src}" + (
                f" op={imm:#x}" if m == "atomic" else "")
        else:
            if opc == 0x18:
                imm2 = insns[pc + 1][3] if pc + 1 < len(insns) else 0
                s = (f"ld_map_fd r{dst}, {imm}" if src == 1 else
                     f"ld_imm64 r{dst}, "
                     f"{(imm & M32) | ((imm2 & M32) << 32):#x}")
                skip = True
            else:
                s = f"?? {opc:#x}"
        out.append(f"{pc:4}: {s}")
    return out
