"""C10 user-space map calls never overrun Python buffers"""
import os
import random
import re
import subprocess
import struct

from .. import kern, prog, sysmon, VERIF_ROOT, REPO
from ..core import Result, PYTHON
from . import c08, c09
from .. import use_repo
use_repo()

from ebpfcat.arraymap import PerCPUArrayMap  # noqa: E402
from ebpfcat.xdp import XDP  # noqa: E402

PROPERTY = "C10"
LEVEL = "exploration"
RULE = ("every bpf() map syscall the library issues while running the C09 "
        "workloads (hash-map variables of every format: defaults, Python "
        "reads/writes; Dict set/get/del/pop/iteration/values on random "
        "Key/Value layouts, plain and LRU) and a per-CPU workload (maps "
        "created and read under the full and under narrowed CPU affinity "
        "masks; several instances of one program class with different "
        "sub-program sets read in random order; Dict calls with objects of "
        "a base structure class, a HashMap with more than 255 variables - "
        "both may be refused but never passed on with short buffers) is "
        "intercepted at ebpfcat.bpf.bpf; the size of the Python object behind "
        "each key/value/next-key pointer (recorded at addrof/addressof/"
        "c_char.from_buffer) is compared with the map geometry recorded at "
        "MAP_CREATE (per-CPU: round_up(value,8) x possible CPUs). a case = "
        "one intercepted map syscall; non-trivial = both buffer size and "
        "geometry known. thorough tier adds valgrind memcheck on a reduced "
        "workload (reports on bpf(attr->key|value|next_key) only)")
ASSUMPTIONS = ["pointer provenance is known only for buffers created through "
               "the interposed functions; unknown provenance is counted and "
               "makes the run inconclusive when it exceeds 1%"]
MIN_EVALUATIONS = {"quick": 2000, "thorough": 20000}


def plan(tier, seed):
    n = 16
    shards = [dict(seed=seed, shard=i, nh=40 if tier == "quick" else 100,
                   nd=60 if tier == "quick" else 200) for i in range(n)]
    if tier == "thorough":
        shards.append(dict(seed=seed, shard=100, valgrind=True))
    return shards


def classify(v):
    cmd = v["cmd"]
    if cmd == "LOOKUP" and v.get("map_type") == "HASH" and \
            v.get("key_size") == 1 and v.get("value_size") == 8:
        return "hash-variable-read-buffer-sized-by-format"
    if cmd == "LOOKUP" and v.get("map_type") == "PERCPU_ARRAY" and \
            v.get("workload") == "percpu-instances":
        return "unexplained:percpu-read-sized-by-another-instance"
    if cmd == "GET_NEXT_KEY":
        return "unexplained:get-next-key " + v["problem"][:40]
    return f"unexplained:{cmd} {v.get('map_type')}"


def absorb(mon, res, what):
    if mon is None:
        return
    for c in mon.calls:
        known = not any(k.endswith("_unknown") or k == "unknown_map"
                        for k in c)
        res.case([what, c], nontrivial=known)
        res.count(f"syscall[{c['cmd']}/{c.get('map_type', '?')}]")
        if len(res.samples) < 4 and known and \
                not any(s.get("cmd") == c["cmd"] for s in res.samples):
            res.sample(dict(c, workload=what))
    res.count("unknown_provenance", mon.unknown)
    for v in mon.violations:
        v = dict(v, workload=what)
        res.violation(classify(v), f"{v['problem']}: {v}", case=v)


def percpu_workload(res, rng):
    """per-CPU maps created and read under the full and under narrowed CPU
    affinity masks (taskset / cpuset configurations): the kernel sizes the
    value by the POSSIBLE CPUs whatever the mask"""
    allowed = sorted(os.sched_getaffinity(0))
    masks = [set(allowed), {rng.choice(allowed)},
             set(rng.sample(allowed, max(1, len(allowed) // 2))),
             set(rng.sample(allowed, min(len(allowed), 2)))]
    for fmt, mask in zip(["I", "Q", "B", "h"], masks):
        with kern.session() as sess:
            try:
                os.sched_setaffinity(0, mask)
                pm = PerCPUArrayMap()
                nvars = rng.randint(1, 5)
                ns = {"license": "GPL", "pm": pm}
                for i in range(nvars):
                    ns[f"c{i}"] = pm.globalVar(rng.choice("BHIQbhiq"))
                ns["c"] = pm.globalVar(fmt)

                def program(self):
                    self.c = 7
                    self.r0 = 2
                    self.exit()
                ns["program"] = program
                with sysmon.Monitor(sess) as mon:
                    e = type("VfPC", (XDP,), ns)()
                    ld = prog.Loaded(e, sess)
                    ld.load()
                    ld.run_k(bytes(64))
                    e.pm.read()
                    _ = [e.c[i] for i in range(len(e.c))]
                res.count(f"percpu_affinity[{len(mask)} of {len(allowed)}]")
            finally:
                os.sched_setaffinity(0, set(allowed))
            absorb(mon, res, "percpu")
            ld.close()


def percpu_instances_workload(res, rng):
    """several instances of ONE program class with different sub-program
    sets share the class's map descriptor; each instance's read must be
    sized for its own kernel map"""
    from ebpfcat.ebpf import SubProgram
    with kern.session() as sess:
        pm = PerCPUArrayMap()
        sub_ns = {"program": lambda self: None}
        for i in range(rng.randint(1, 4)):
            sub_ns[f"s{i}"] = pm.globalVar(rng.choice("BHIQq"))
        Sub = type("VfSub", (SubProgram,), sub_ns)
        ns = {"license": "GPL", "pm": pm, "c": pm.globalVar("I")}

        def program(self):
            self.c = 7
            self.r0 = 2
            self.exit()
        ns["program"] = program
        P = type("VfPCI", (XDP,), ns)
        counts = [rng.randint(0, 3) for _ in range(3)]
        if len(set(counts)) == 1:
            counts[0] += 1
        lds = []
        with sysmon.Monitor(sess) as mon:
            insts = []
            for n in counts:
                e = P(subprograms=[Sub() for _ in range(n)])
                ld = prog.Loaded(e, sess)
                ld.load()
                lds.append(ld)
                insts.append(e)
            order = list(range(len(insts)))
            rng.shuffle(order)
            for i in order:
                lds[i].run_k(bytes(64))
                insts[i].pm.read()
                _ = [insts[i].c[k] for k in range(len(insts[i].c))]
        res.count("percpu_instance_reads", len(insts))
        absorb(mon, res, "percpu-instances")
        for ld in lds:
            ld.close()


def unsupported_use_workload(res, rng):
    """uses the library does not support today but must never turn into
    short buffers: a hash-map variable wider than 8 bytes (read / written
    from Python, defaults written at load), and a Python-side assignment to
    a per-CPU variable of a loaded program"""
    from ebpfcat.hashmap import HashMap
    with kern.session() as sess:
        h = HashMap()
        wf = rng.choice(["4I", "2Q", "16B", "3I"])
        ns = {"license": "GPL", "hm": h, "hv_n": h.globalVar("I"),
              "hv_wide": h.globalVar(wf)}

        def program(self):
            self.r0 = 2
            self.exit()
        ns["program"] = program
        with sysmon.Monitor(sess) as mon:
            try:
                e = type("VfWide", (XDP,), ns)()
                ld = prog.Loaded(e, sess)
                ld.load()
                for op in (lambda: e.hv_wide, lambda: e.hv_n,
                           lambda: setattr(e, "hv_n", 7),
                           lambda: setattr(e, "hv_wide", 5)):
                    try:
                        op()
                    except sysmon.Refused:
                        break
                    except Exception:
                        res.count("unsupported_uses_refused_by_the_library")
            except sysmon.Refused:
                pass
            except Exception:
                res.count("unsupported_uses_refused_by_the_library")
        res.count("wide_hash_variable_workloads")
        absorb(mon, res, "wide-hash-variable")
    with kern.session() as sess:
        pm = PerCPUArrayMap()
        ns = {"license": "GPL", "pm": pm,
              "cnt": pm.globalVar(rng.choice("IQHB"))}

        def program2(self):
            self.cnt += 1
            self.r0 = 2
            self.exit()
        ns["program"] = program2
        with sysmon.Monitor(sess) as mon:
            e = type("VfPCW", (XDP,), ns)()
            ld = prog.Loaded(e, sess)
            ld.load()
            ld.run_k(bytes(64))
            try:
                e.cnt = 0          # "reset the counter"
                res.count("percpu_python_writes_accepted")
            except sysmon.Refused:
                pass
            except Exception:
                res.count("unsupported_uses_refused_by_the_library")
        res.count("percpu_python_write_workloads")
        absorb(mon, res, "percpu-python-write")
        ld.close()
    # the environment cannot tell how many CPUs there are (os.cpu_count()
    # returns None): whatever the library does then, it must not hand the
    # kernel a buffer for fewer CPUs than the kernel keeps values for
    # (patched where the library looks it up: its own imported name if it
    # has one, and os.cpu_count itself)
    import os as _os
    import ebpfcat.arraymap as am
    NONE = object()
    old_cc = getattr(am, "cpu_count", NONE)
    old_os = _os.cpu_count
    if old_cc is not NONE:
        am.cpu_count = lambda: None
    _os.cpu_count = lambda: None
    try:
        with kern.session() as sess:
            pm = PerCPUArrayMap()
            ns = {"license": "GPL", "pm": pm, "cnt": pm.globalVar("Q")}
            ns["program"] = program2
            with sysmon.Monitor(sess) as mon:
                try:
                    e = type("VfPCN", (XDP,), ns)()
                    ld = prog.Loaded(e, sess)
                    ld.load()
                    ld.run_k(bytes(64))
                    e.pm.read()
                    _ = list(e.cnt)
                except sysmon.Refused:
                    pass
                except Exception:
                    res.count("unsupported_uses_refused_by_the_library")
            res.count("percpu_workloads_without_a_cpu_count")
            absorb(mon, res, "percpu-no-cpu-count")
    finally:
        _os.cpu_count = old_os
        if old_cc is not NONE:
            am.cpu_count = old_cc


def format_lookup_workload(res, rng):
    """the map calls by struct format string (lookup_elem(fd, key, '<I') as
    FastEtherCat.register_sync_group uses it to probe a program-table slot,
    lookup_and_delete_elem, get_next_key) on keys that exist"""
    from ebpfcat import bpf as B
    from ebpfcat.bpf import MapType
    with kern.session() as sess:
        with sysmon.Monitor(sess) as mon:
            for vfmt, vsize in (("<I", 4), ("Q", 8), ("<HH", 4), ("8s", 8),
                                ("<q", 8)):
                fd = sess.create_map(MapType.HASH, 4, vsize, 4)
                key = struct.pack("<I", rng.randrange(1000))
                B.update_elem(fd, key, bytes(range(1, vsize + 1)))
                for fn in (B.lookup_elem, B.lookup_and_delete_elem):
                    try:
                        fn(fd, key, vfmt)
                    except sysmon.Refused:
                        raise
                    except Exception:
                        res.count("format_lookups_failed")
                    B.update_elem(fd, key, bytes(vsize))
                try:
                    B.lookup_elem(fd, key, vsize)
                    list(_keys(B, fd, 4))
                except sysmon.Refused:
                    raise
                except Exception:
                    res.count("format_lookups_failed")
        res.count("format_lookup_workloads")
        absorb(mon, res, "format-lookup")


def _keys(B, fd, ksize):
    """iterate the keys the way TheDict does: first by size, then by key"""
    key = ksize
    for _ in range(16):
        try:
            key = B.get_next_key(fd, key)
        except (KeyError, StopIteration):
            return
        yield key


def closed_program_workload(res, rng):
    """a program with a per-CPU map is loaded, run and closed (as XDP.run()
    and register_sync_group do right after attaching); another program with
    a larger per-CPU map is created afterwards; then the first program's
    map is read again - with the buffer of its own map"""
    with kern.session() as sess:
        def make(nvars, tag):
            pm = PerCPUArrayMap()
            ns = {"license": "GPL", "pm": pm, "c": pm.globalVar("I")}
            for i in range(nvars):
                ns[f"v{i}"] = pm.globalVar("Q")

            def program(self):
                self.c += 1
                self.r0 = 2
                self.exit()
            ns["program"] = program
            return type("VfClosed" + tag, (XDP,), ns)()
        with sysmon.Monitor(sess) as mon:
            first = make(rng.randint(0, 2), "A")
            ld1 = prog.Loaded(first, sess)
            ld1.load()
            ld1.run_k(bytes(64))
            first.pm.read()
            before = sum(first.c)
            first.close()
            second = make(rng.randint(6, 12), "B")
            ld2 = prog.Loaded(second, sess)
            ld2.load()
            ld2.run_k(bytes(64))
            try:
                first.pm.read()
                after = sum(first.c)
            except sysmon.Refused:
                after = None
            second.pm.read()
        res.count("reads_of_a_closed_program's_map")
        absorb(mon, res, "closed-program")
        if after is not None and after != before:
            res.violation("unexplained:closed-program-map-read",
                          f"the per-CPU counter of a closed program read "
                          f"{after} (was {before}, nothing ran since)",
                          case=dict(workload="closed-program"))
        ld1.close()
        ld2.close()


def misuse_workload(res, rng):
    """calls the API may refuse but must never pass on with short buffers:
    Dict operations with objects of a base structure class instead of the
    declared Key / Value, and a HashMap with more than 255 variables"""
    from ebpfcat.ebpf import Structure
    from ebpfcat.hashmap import HashMap
    from ebpfcat.ebpf import Member
    from ebpfcat.hashmap import Dict
    KeyBase = type("KeyBase", (Structure,), {"a": Member("I")})
    Key = type("Key", (KeyBase,), {"b": Member(rng.choice("IHB"))})
    ValueBase = type("ValueBase", (Structure,), {"x": Member("Q")})
    Value = type("Value", (ValueBase,), {"y": Member("Q"),
                                          "z": Member(rng.choice("IHB"))})
    base_used = rng.random() < 0.5
    if base_used:
        # the base structures have been in use before (by another table,
        # say): objects of them exist
        KeyBase()
        ValueBase()
    with kern.session() as sess:
        ns = {"license": "GPL",
              "d": Dict(key=Key, value=Value, size=8,
                        lru=rng.random() < 0.3)}

        def dprogram(self):
            self.r0 = 2
            self.exit()
        ns["program"] = dprogram
        e = type("VfMisuse", (XDP,), ns)()
        ld = prog.Loaded(e, sess)
        with sysmon.Monitor(sess) as mon:
            try:
                ld.load()
                k = Key()
                k.a = 7
                if not base_used:
                    k.b = 9          # (else only inherited members are set)
                e.d[k] = Value()
                for what in ("get", "set-key", "set-value", "pop", "del"):
                    for wrong in (Structure, KeyBase, ValueBase):
                        try:
                            if what == "get":
                                e.d[wrong()]
                            elif what == "set-key":
                                e.d[wrong()] = Value()
                            elif what == "set-value":
                                e.d[k] = wrong()
                            elif what == "pop":
                                e.d.pop(wrong(), None)
                            else:
                                del e.d[wrong()]
                            res.count("misuse_accepted[" + what + "]")
                        except Exception:
                            res.count("misuse_refused[" + what + "]")
            except OSError:
                res.count("misuse_dict_load_failed")
        absorb(mon, res, "misuse-dict")
        ld.close()
    with kern.session() as sess:
        h = HashMap()
        ns = {"license": "GPL", "h": h}
        nvars = rng.choice([256, 257, 300])
        for i in range(nvars):
            ns[f"v{i}"] = h.globalVar(rng.choice("BHIQ"), i & 0xff)

        def program(self):
            self.r0 = 2
            self.exit()
        ns["program"] = program
        with sysmon.Monitor(sess) as mon:
            try:
                e = type("VfBigHash", (XDP,), ns)()
                ld = prog.Loaded(e, sess)
                ld.load()
                for i in (1, 2, 255, nvars - 1):
                    setattr(e, f"v{i}", 5)
                    getattr(e, f"v{i}")
                res.count("big_hashmap_accepted")
                ld.close()
            except Exception as ex:
                res.count("big_hashmap_refused[" + type(ex).__name__ + "]")
        absorb(mon, res, "misuse-big-hashmap")


def bytes_member_workload(res, rng):
    """Dict keys and values with byte-string members (interface names,
    addresses): Python assigns byte strings shorter than, as long as and
    (refused) longer than the member, then uses the structures in every Dict
    operation"""
    from ebpfcat.ebpf import Member, Structure
    from ebpfcat.hashmap import Dict
    # (structures must be packed: every member at a multiple of its size)
    kl, vl = rng.choice([4, 8, 16]), rng.choice([8, 16, 32])
    Key = type("Key", (Structure,), {"name": Member(f"{kl}s"),
                                     "no": Member("I")})
    Value = type("Value", (Structure,), {"tag": Member(f"{vl}s"),
                                         "count": Member("Q")})
    with kern.session() as sess:
        ns = {"license": "GPL", "d": Dict(key=Key, value=Value, size=16)}

        def dprogram(self):
            self.r0 = 2
            self.exit()
        ns["program"] = dprogram
        e = type("VfBytes", (XDP,), ns)()
        ld = prog.Loaded(e, sess)
        with sysmon.Monitor(sess) as mon:
            try:
                ld.load()
                keys = []
                for n in (0, 1, kl // 2, kl - 1, kl, kl + 3):
                    k = Key()
                    try:
                        k.name = bytes(rng.randrange(1, 256)
                                       for _ in range(n))
                        k.no = n
                    except Exception:
                        res.count("byte_string_assignments_refused")
                        continue
                    v = Value()
                    try:
                        v.count = n
                        v.tag = bytes(rng.randrange(1, 256) for _ in range(
                            rng.choice([0, 1, vl - 1, vl, vl + 1])))
                    except Exception:
                        res.count("byte_string_assignments_refused")
                    res.count("structures_with_byte_string_members")
                    try:
                        e.d[k] = v
                        keys.append(k)
                        _ = e.d[k].count
                        _ = list(e.d)
                        _ = list(e.d.items())
                    except sysmon.Refused:
                        pass
                    except (KeyError, struct.error, ValueError):
                        res.count("dict_operations_that_raised")
                for k in keys[::2]:
                    try:
                        e.d.pop(k, None)
                    except sysmon.Refused:
                        pass
                for k in keys[1::2]:
                    try:
                        del e.d[k]
                    except (KeyError, sysmon.Refused):
                        pass
            except OSError:
                res.count("bytes_dict_load_failed")
        absorb(mon, res, "byte-string-members")
        ld.close()


def mapping_api_workload(res, rng):
    """everything a Python mapping offers, on a Dict with present and absent
    keys (membership tests, get, setdefault, keys / items / values views and
    containment in them, comparison, popitem, update from a dict, clear),
    and hash-map variables of every format - the fixed-point one too - read
    and written from Python"""
    from ebpfcat.ebpf import Member, Structure
    from ebpfcat.hashmap import Dict, HashMap
    Key = type("Key", (Structure,), {"no": Member("I")})
    Value = type("Value", (Structure,),
                 {"count": Member("Q"), "stamp": Member("Q"),
                  "state": Member(rng.choice("IHB"))})
    with kern.session() as sess:
        h = HashMap()
        ns = {"license": "GPL", "d": Dict(key=Key, value=Value, size=16),
              "h": h}
        fmts = list("bBhHiIqQx")
        for i, f in enumerate(fmts):
            ns[f"hv{i}"] = h.globalVar(f, 0)

        def dprogram(self):
            self.r0 = 2
            self.exit()
        ns["program"] = dprogram
        e = type("VfMapping", (XDP,), ns)()
        ld = prog.Loaded(e, sess)

        def key(n):
            k = Key()
            k.no = n
            return k

        def val(n):
            v = Value()
            v.count, v.stamp, v.state = n, n * 3, n & 0x7f
            return v
        with sysmon.Monitor(sess) as mon:
            try:
                ld.load()
            except OSError:
                res.count("mapping_api_load_failed")
            else:
                steps = [
                    lambda: [e.d.__setitem__(key(n), val(n))
                             for n in (1, 2, 3, 500)],
                    lambda: [key(n) in e.d for n in (1, 2, 77, 500, 0)],
                    lambda: [e.d.get(key(n)) for n in (1, 77)],
                    lambda: e.d.setdefault(key(9), val(9)),
                    lambda: e.d.setdefault(key(1), val(11)),
                    lambda: [key(n) in e.d.keys() for n in (2, 78)],
                    lambda: list(e.d.keys()),
                    lambda: [v.count for v in e.d.values()],
                    lambda: [(k.no, v.stamp) for k, v in e.d.items()],
                    lambda: (key(3), val(3)) in e.d.items(),
                    lambda: e.d == {},
                    lambda: e.d.update({key(20): val(20)}),
                    lambda: e.d.popitem(),
                    lambda: e.d.pop(key(2)),
                    lambda: e.d.pop(key(2), None),
                    lambda: e.d.clear(),
                    lambda: key(1) in e.d,
                ]
                for i, f in enumerate(fmts):
                    v = 1.25 if f == "x" else 5
                    steps.append(lambda i=i: getattr(e, f"hv{i}"))
                    steps.append(lambda i=i, v=v: setattr(e, f"hv{i}", v))
                    steps.append(lambda i=i: getattr(e, f"hv{i}"))
                for st in steps:
                    res.count("mapping_api_steps")
                    try:
                        st()
                    except sysmon.Refused:
                        pass
                    except Exception:
                        # (what the operation answers is C09's business)
                        res.count("mapping_api_steps_that_raised")
        absorb(mon, res, "mapping-api")
        ld.close()


def other_kernels_workload(res, rng):
    """the same Dict operations on a kernel that lacks
    BPF_MAP_LOOKUP_AND_DELETE_ELEM for hash maps (before Linux 5.14: the
    command fails with EINVAL / ENOTSUPP), and - if the library offers them
    (Dict(..., percpu=True), as the project's own test declares one) - on
    per-CPU Dicts, whose values the kernel rounds up to 8 bytes per CPU"""
    from ebpfcat.ebpf import Member, Structure
    from ebpfcat.hashmap import Dict
    for variant in ("old-kernel", "old-kernel", "percpu", "percpu-lru"):
        Key = type("Key", (Structure,), {"no": Member("I"),
                                         "tag": Member("B")})
        vfm = rng.choice([["Q", "I", "B"], ["Q", "Q"], ["I", "B"],
                          ["Q", "H", "B"]])
        Value = type("Value", (Structure,),
                     {f"v{i}": Member(f) for i, f in enumerate(vfm)})
        kw = {}
        if variant.startswith("percpu"):
            kw["percpu"] = True
            if variant == "percpu-lru":
                kw["lru"] = True
        try:
            d_ = Dict(key=Key, value=Value, size=8, **kw)
        except TypeError:
            res.count("per_cpu_dicts_not_offered_by_the_library")
            continue
        with kern.session() as sess:
            ns = {"license": "GPL", "d": d_}

            def dprogram(self):
                self.r0 = 2
                self.exit()
            ns["program"] = dprogram
            try:
                e = type("VfOther", (XDP,), ns)()
                ld = prog.Loaded(e, sess)
            except Exception:
                res.count("other_kernels_workloads_not_built")
                continue
            with sysmon.Monitor(sess) as mon:
                if variant == "old-kernel":
                    mon.deny = {21: rng.choice([22, 524])}
                try:
                    ld.load()
                except OSError:
                    res.count("other_kernels_load_failed")
                else:
                    def key(n):
                        k = Key()
                        k.no, k.tag = n, n & 0xff
                        return k

                    def val(n):
                        v = Value()
                        for i in range(len(vfm)):
                            setattr(v, f"v{i}", (n + i) & 0xff)
                        return v
                    steps = [lambda n=n: e.d.__setitem__(key(n), val(n))
                             for n in (1, 2, 3)]
                    steps += [lambda: e.d[key(1)], lambda: e.d.pop(key(1)),
                              lambda: e.d.pop(key(2), None),
                              lambda: e.d.pop(key(77), None),
                              lambda: e.d.pop(key(3)),
                              lambda: list(e.d.items())]
                    for st in steps:
                        res.count(f"other_kernels_steps[{variant}]")
                        try:
                            st()
                        except sysmon.Refused:
                            pass
                        except Exception:
                            res.count("other_kernels_steps_that_raised")
            res.count("calls_denied_as_on_an_old_kernel",
                      getattr(mon, "denied", 0))
            absorb(mon, res, "other-kernels")
            ld.close()


def run_shard(params):
    res = Result()
    if params.get("valgrind"):
        valgrind_leg(res)
        return res
    rng = random.Random(params["seed"] * 100129 + params["shard"])
    scratch = Result()
    def monitored(fn, case, what):
        sysmon.Monitor.current = None
        try:
            absorb(fn(case, scratch, monitor=True), res, what)
        except (struct.error, ValueError, TypeError, KeyError) as ex:
            # the code under test failed in Python before / between map
            # calls (C09 judges that); what the monitor saw still counts
            mon = sysmon.Monitor.current
            res.count("workloads_ended_by_a_python_error (C09's business)")
            if mon is not None:
                mon.__exit__()
                absorb(mon, res, what)
        except OSError as ex:
            # a call the monitor refused (or another failure of the code
            # under test): report what the monitor saw until then
            mon = sysmon.Monitor.current
            if mon is None or not mon.violations:
                # the workload failed for a reason that is not a buffer
                # matter (C09 judges the workload itself)
                res.count("workloads_ended_by_an_os_error (C09's business)")
                if mon is not None:
                    mon.__exit__()
                    absorb(mon, res, what)
                return
            mon.__exit__()
            res.count("workloads_ended_by_a_refused_call")
            absorb(mon, res, what)
    for i in range(params["nh"]):
        monitored(c09.check_hash, c09.gen_hash_case(rng), "hash")
    for i in range(params["nd"]):
        monitored(c09.check_dict, c09.gen_dict_case(rng), "dict")
    def guarded(fn, what):
        # a call the monitor refused ends the workload; what it saw until
        # then is the result
        sysmon.Monitor.current = None
        try:
            fn(res, rng)
        except sysmon.Refused:
            mon = sysmon.Monitor.current
            res.count("workloads_ended_by_a_refused_call")
            if mon is not None:
                mon.__exit__()
                absorb(mon, res, what)
    guarded(percpu_workload, "percpu")
    for _ in range(3):
        guarded(percpu_instances_workload, "percpu-instances")
    guarded(misuse_workload, "misuse")
    guarded(bytes_member_workload, "byte-string-members")
    guarded(format_lookup_workload, "format-lookup")
    guarded(mapping_api_workload, "mapping-api")
    guarded(other_kernels_workload, "other-kernels")
    for _ in range(3):
        guarded(closed_program_workload, "closed-program")
        guarded(unsupported_use_workload, "unsupported-use")
    res.count("workload_model_mismatches (C09's business)",
              len(scratch.violations))
    return res


VG_SCRIPT = r'''
import sys, random
sys.path.insert(0, %(verif)r)
from vf import use_repo; use_repo()
from vf.checks import c09
from vf.core import Result
rng = random.Random(7)
r = Result()
for i in range(3):
    c09.check_hash(c09.gen_hash_case(rng), r)
for i in range(4):
    c09.check_dict(c09.gen_dict_case(rng), r)
print("workload done", r.evaluations)
'''


def valgrind_leg(res):
    script = VG_SCRIPT % dict(verif=VERIF_ROOT)
    env = dict(os.environ, PYTHONMALLOC="malloc", EBPFCAT_REPO=REPO,
               PYTHONHASHSEED="0", PYTHONDONTWRITEBYTECODE="1")
    try:
        p = subprocess.run(
            ["valgrind", "--tool=memcheck", "--error-limit=no",
             "--num-callers=12", PYTHON, "-c", script],
            capture_output=True, timeout=1500, env=env)
    except subprocess.TimeoutExpired:
        res.inconc("valgrind leg timed out")
        return
    err = p.stderr.decode(errors="replace")
    if "workload done" not in p.stdout.decode(errors="replace"):
        res.inconc("valgrind workload did not finish: " + err[-500:])
        return
    reports = []
    for block in err.split("Syscall param ")[1:]:
        mm = re.match(r"bpf\(attr->(\w+)\) points to (unaddressable|"
                      r"uninitialised) byte", block)
        if not mm:
            continue
        # a NULL key is the legal "first key" request of GET_NEXT_KEY
        null = "Address 0x0 is not stack'd" in block.split("==\n==")[0] \
            or re.search(r"Address 0x0 is not", block[:3000]) is not None
        reports.append((mm.group(1), mm.group(2), null))
    rel = [r for r in reports if r[0] in ("key", "value", "next_key")
           and r[1] == "unaddressable" and not r[2]]
    res.count("valgrind_reports_total", len(reports))
    res.count("valgrind_reports_key_value", len(rel))
    res.case(["valgrind", len(reports)])
    res.case(["valgrind-relevant", len(rel)])
    if rel:
        i = err.find("Syscall param bpf(attr->" + rel[0][0])
        res.violation("hash-variable-read-buffer-sized-by-format"
                      if rel[0][0] == "value" else
                      "unexplained:valgrind " + rel[0][0],
                      f"memcheck: {len(rel)} reports of the kernel touching "
                      f"unaddressable bytes behind attr->{rel[0][0]}",
                      witness=err[i:i + 1500])


def finalize(res, tier, seed):
    c = res.counters
    tot = res.evaluations
    if tot and c.get("unknown_provenance", 0) > 0.01 * tot:
        res.inconc(f"{c.get('unknown_provenance')} of {tot} syscalls had "
                   "unknown pointer provenance")
    need = ["LOOKUP/HASH", "UPDATE/HASH", "DELETE/HASH", "GET_NEXT_KEY/HASH",
            "LOOKUP_AND_DELETE/HASH", "LOOKUP/PERCPU_ARRAY",
            "LOOKUP/LRU_HASH"]
    missing = [n for n in need if not c.get(f"syscall[{n}]")]
    res.info["syscall_kinds_never_seen"] = missing
    if missing:
        res.inconc(f"syscall kinds never seen: {missing}")
