"""evaluate a seeded breaking change (from /verif/seeded/<id>/ or any directory
holding patch.diff + demo*.py + meta.json):

  1. scratch git worktree of /repo's HEAD outside /repo and /verif
  2. demonstration on the unchanged worktree must pass
  3. apply the patch; pinned suite must still show the 44 baseline passes
  4. demonstration must fail with the patch
  5. run the given checks (default: the property's quick check) with
     EBPFCAT_REPO pointing at the patched worktree: exit 1 = caught
  6. remove the worktree

usage: tools_seeded.py <dir> [--checks C01 C04 ...] [--tier quick] [--seeds 0]
       tools_seeded.py --all [--tier quick] [--fast] [--part i/n]
prints one JSON line per change; never touches /repo's working tree.
"""
import argparse
import glob
import json
import os
import shutil
import subprocess
import sys
import tempfile
import xml.etree.ElementTree as ET

ROOT = os.path.dirname(os.path.abspath(__file__))
PY = "/venv/bin/python"
BASE = json.load(open("/root/.vp/BASELINE.json"))


def sh(cmd, cwd=None, env=None, timeout=1800):
    try:
        p = subprocess.run(cmd, cwd=cwd, env=env, capture_output=True,
                           timeout=timeout)
        return p.returncode, (p.stdout + p.stderr).decode(errors="replace")
    except subprocess.TimeoutExpired:
        return 124, "timeout"


def suite(wt):
    x = os.path.join(wt, ".junit.xml")
    sh([PY, "-m", "pytest", "-q", "-p", "no:cacheprovider", "--timeout=900",
        "--continue-on-collection-errors", f"--junitxml={x}"], cwd=wt,
       env=dict(os.environ, PYTHONPATH=wt))
    passed = set()
    try:
        for tc in ET.parse(x).getroot().iter("testcase"):
            if not list(tc):
                passed.add(f"{tc.get('classname')}::{tc.get('name')}")
    finally:
        if os.path.exists(x):
            os.remove(x)
    missing = sorted(set(BASE["stable_pass"]) - passed)
    return missing


def demo(wt, d):
    demos = sorted(glob.glob(os.path.join(d, "demo*.py")))
    if not demos:
        return None, "no demo"
    f = os.path.join(wt, "_seed_demo.py")
    shutil.copy(demos[0], f)
    try:
        if os.path.basename(demos[0]).endswith("_test.py"):
            cmd = [PY, "-m", "pytest", "-q", "-p", "no:cacheprovider", f]
        else:
            cmd = [PY, f]
        rc, out = sh(cmd, cwd=wt, env=dict(os.environ, PYTHONPATH=wt),
                     timeout=600)
    finally:
        os.remove(f)
    return rc, out[-600:]


def evaluate(d, checks=None, tier="quick", seeds=(0,), keep=False,
             fast=False):
    d = os.path.abspath(d)
    meta = {}
    mf = os.path.join(d, "meta.json")
    if os.path.exists(mf):
        meta = json.load(open(mf))
    prop = meta.get("property") or os.path.basename(d.rstrip("/"))[:3]
    checks = checks or meta.get("caught_by_checks") or [prop]
    wt = tempfile.mkdtemp(prefix="vf-seed-")
    os.rmdir(wt)
    out = dict(dir=d, property=prop)
    rc, o = sh(["git", "-C", "/repo", "worktree", "add", "--detach", wt,
                "HEAD"])
    if rc:
        out["error"] = o
        return out
    try:
        if not fast:
            rc0, o0 = demo(wt, d)
            out["demo_unchanged_rc"] = rc0
        rc, o = sh(["git", "-C", wt, "apply", os.path.join(d, "patch.diff")])
        if rc:
            out["error"] = "patch does not apply: " + o[-300:]
            return out
        if not fast:
            # (fast: regression of the checks only; suite and demonstration
            # were confirmed when the change was collected)
            out["suite_missing"] = suite(wt)
            rc1, o1 = demo(wt, d)
            out["demo_patched_rc"] = rc1
            if rc0 != 0:
                out["demo_unchanged_tail"] = o0
            if rc1 == 0:
                out["demo_patched_tail"] = o1
        res = {}
        for c in checks:
            for s in seeds:
                env = dict(os.environ, EBPFCAT_REPO=wt, VERIF_SEED=str(s))
                rc, o = sh([os.path.join(ROOT, "check"), c, "--tier", tier],
                           env=env, timeout=7200)
                lines = [l for l in o.splitlines()
                         if l.startswith(("VIOLATION", "  key=",
                                          "INCONCLUSIVE"))]
                res[f"{c}@{s}"] = dict(rc=rc, lines=lines[:6])
        out["checks"] = res
        out["caught"] = any(v["rc"] == 1 for v in res.values())
    finally:
        if not keep:
            sh(["git", "-C", "/repo", "worktree", "remove", "--force", wt])
            shutil.rmtree(wt, ignore_errors=True)
            sh(["git", "-C", "/repo", "worktree", "prune"])
    return out


def main():
    ap = argparse.ArgumentParser()
    ap.add_argument("dir", nargs="?")
    ap.add_argument("--all", action="store_true")
    ap.add_argument("--checks", nargs="*")
    ap.add_argument("--tier", default="quick")
    ap.add_argument("--seeds", nargs="*", type=int, default=[0])
    ap.add_argument("--fast", action="store_true",
                    help="apply the patch and run the checks only")
    ap.add_argument("--part", default="0/1",
                    help="with --all: i/n = every n-th change from the i-th")
    a = ap.parse_args()
    dirs = sorted(glob.glob(os.path.join(ROOT, "seeded", "*"))) if a.all \
        else [a.dir]
    if a.all:
        i, n = map(int, a.part.split("/"))
        dirs = dirs[i::n]
    bad = 0
    for d in dirs:
        if not os.path.exists(os.path.join(d, "patch.diff")):
            continue
        r = evaluate(d, a.checks, a.tier, a.seeds, fast=a.fast)
        print(json.dumps(r))
        sys.stdout.flush()
        ok = r.get("caught") and not r.get("error") and (a.fast or (
            not r.get("suite_missing")
            and r.get("demo_unchanged_rc") == 0
            and r.get("demo_patched_rc") not in (0, None)))
        bad += not ok
    return 1 if bad else 0


if __name__ == "__main__":
    sys.exit(main())
