"""run one ebpfcat program object in K (kernel) and V (reference machine)"""
import mmap as _mmap

from . import use_repo
use_repo()

from ebpfcat.bpf import MapType, ProgType  # noqa: E402
from . import kern, ebpfvm  # noqa: E402

MT = {MapType.ARRAY: "array", MapType.PERCPU_ARRAY: "percpu_array",
      MapType.HASH: "hash", MapType.LRU_HASH: "lru_hash",
      MapType.PROG_ARRAY: "prog"}


class Loaded:
    """an assembled ebpfcat program, loadable in K and runnable in V"""

    def __init__(self, ebpf, sess):
        self.ebpf = ebpf
        self.sess = sess
        self.code = ebpf.assemble()
        ebpf.assemble = lambda: self.code     # assemble() is not idempotent
        self.fd = None
        self.log = None
        self._mem = None
        self._mmaps = []

    # K -----------------------------------------------------------------
    def load(self, log_level=1):
        """BPF_PROG_LOAD through the library's own load() so that
        Map.load hooks (hash-map defaults) run as in production"""
        self.log = self.ebpf.load(log_level=log_level, log_size=1 << 18)
        self.fd = self.ebpf.file_descriptor
        return self.log

    def run_k(self, packet, repeat=1):
        return kern.test_run(self.fd, packet, repeat=repeat)

    # V -----------------------------------------------------------------
    def memory(self, fresh=False):
        if self._mem is not None and not fresh:
            return self._mem
        mem = ebpfvm.Memory()
        for fd, m in self.sess.maps.items():
            t = MT.get(m["type"])
            if t == "array":
                mm = _mmap.mmap(fd, (m["value_size"] * m["max_entries"]))
                self._mmaps.append(mm)
                mem.add_map(fd, t, m["key_size"], m["value_size"],
                            m["max_entries"], backing=mm)
            elif t is not None:
                vm = mem.add_map(fd, t, m["key_size"], m["value_size"],
                                 m["max_entries"])
                if t in ("hash", "lru_hash"):
                    for k, v in kern.map_dump(fd, m["key_size"],
                                              m["value_size"]).items():
                        mem.hash_insert(vm, k, v)
        self._mem = mem
        return mem

    def run_v(self, packet, trace=False, hooks=(), clock=None, rng=None,
              max_steps=200000, fresh_hash=False):
        mem = self.memory(fresh=fresh_hash)
        mem.hooks = list(hooks)
        vm = ebpfvm.VM(mem, ebpfvm.Program(self.code, "main"), packet,
                       trace=trace, clock=clock, rng=rng)
        try:
            ret = vm.run(max_steps)
            out = vm.out_packet()
        finally:
            vm.release()
            mem.hooks = []
        return ret, out, vm

    def close(self):
        for mm in self._mmaps:
            try:
                mm.close()
            except Exception:
                pass
        self._mmaps = []
        self._mem = None


def verifier_tail(log, n=25):
    return "\n".join((log or "").strip().splitlines()[-n:])
