"""C29 process-based sync groups share device variables correctly"""
import random
import struct

from .. import procchild, use_repo
from ..core import Result
use_repo()

from ebpfcat.ebpfcat import ParallelEtherCat, ProcessSyncGroup  # noqa: E402

PROPERTY = "C29"
LEVEL = "exploration"
RULE = ("device classes with 1-6 DeviceVars of every format incl. x with "
        "either sign, formats whose native size exceeds the packed one "
        "(l, L, HI, Bq, hq, bI) and classes derived from other device "
        "classes that re-declare inherited variables with another format "
        "(generated "
        "deterministically in an importable module so that a spawned child "
        "rebuilds them), 1-4 device instances per real ProcessSyncGroup; the "
        "parent writes distinct random values, a real multiprocessing "
        "'spawn' child (given the pickled sync group, as the library does) "
        "reads them and writes others, the parent reads back; two rounds; "
        "then the same device objects join a second group with new devices "
        "in another order and the exchange is repeated. "
        "Oracle: every value read equals the last value written by the other "
        "side; the byte ranges of all variables of all devices in the shared "
        "array are pairwise disjoint. a case = one configuration; "
        "non-trivial = >= 2 variables in total")
ASSUMPTIONS = ["the child is started with the sync group's own spawn "
               "context and receives the pickled group like subprocess_run "
               "does"]
MIN_EVALUATIONS = {"quick": 12, "thorough": 200}
SHARD_TIMEOUT = {"quick": 200, "thorough": 3000}


def plan(tier, seed):
    n = 4 if tier == "quick" else 30
    return [dict(seed=seed, shard=i, n=n) for i in range(8)]


def rand_value(rng, fmt):
    if fmt[-1] in "sp" or fmt == "c":
        n = 1 if fmt == "c" else int(fmt[:-1])
        if fmt[-1] == "p":
            n = rng.randint(0, n - 1)       # length byte + at most n-1
        v = bytes(rng.getrandbits(8) for _ in range(n))
        if n and rng.random() < 0.5:
            # ends in zero bytes that belong to the value
            z = rng.randint(1, n)
            v = v[:n - z] + bytes(z)
        return v
    if len(fmt) > 1 and fmt.endswith("x") and len(fmt.rstrip("x")) == 1:
        return rand_value(rng, fmt.rstrip("x"))   # one value, then padding
    if fmt == "x":
        # a decimal with five fractional digits, either sign
        return rng.choice([1, -1]) * rng.randint(0, 10 ** 10) / 100000
    if len(fmt) == 2 and fmt[0] in "<>=!":
        return rand_value(rng, fmt[1])       # one value with a byte order
    if len(fmt) > 1:
        # multi-element formats are tuples
        n = int(fmt[0]) if fmt[0].isdigit() else None
        letters = fmt[1] * n if n else fmt
        return tuple(rand_value(rng, ch) for ch in letters)
    size = struct.calcsize(fmt)
    v = rng.getrandbits(8 * size)
    if fmt.islower() and v >> (8 * size - 1):
        v -= 1 << (8 * size)
    return v


def same(fmt, a, b):
    if fmt[-1] in "sp" or fmt == "c":
        return type(a) is type(b) and a == b
    if len(fmt) > 1 and fmt.endswith("x") and len(fmt.rstrip("x")) == 1:
        return type(a) is type(b) and a == b
    if fmt == "x":
        return round(a * 100000) == round(b * 100000)
    if len(fmt) == 2 and fmt[0] in "<>=!":
        return type(a) is type(b) and a == b
    if len(fmt) > 1:
        return tuple(a) == tuple(b)
    return a == b


def rows_equal(devs, names, got, want):
    return all(same(type(d).c29_vars[n], g, w)
               for d, ns, grow, wrow in zip(devs, names, got, want)
               for n, g, w in zip(ns, grow, wrow))


def check_case(rng, res):
    classes = procchild.c29_classes()
    ks = [rng.randrange(len(classes)) for _ in range(rng.randint(1, 4))]
    desc = dict(devices=ks, formats=[procchild._c29_formats(k) for k in ks])
    nvars = sum(len(f) for f in desc["formats"])
    res.case([desc, rng.getrandbits(30)], nontrivial=nvars >= 2)
    if any(k >= procchild.C29_PLAIN for k in ks):
        res.count("configurations_with_a_derived_device_class")
    if any(struct.calcsize(f) != struct.calcsize("=" + f)
           for fs in desc["formats"] for f in fs
           if f != "x" and f[0] not in "<>=!"):
        res.count("configurations_with_a_natively_padded_format")
    devs = [classes[k]() for k in ks]
    if rng.random() < 0.3:
        # some of the devices have served in a plain slow group before (a
        # controller that was first tried out in the main process)
        from ebpfcat.ebpfcat import SimpleEtherCat, SyncGroup
        old = [d for d in devs if rng.random() < 0.6] or devs[:1]
        SyncGroup(SimpleEtherCat("vf"), old)
        for d in old:
            for n in sorted(type(d).c29_vars):
                setattr(d, n, rand_value(rng, type(d).c29_vars[n]))
        desc = dict(desc, served_in_a_slow_group_before=len(old))
        res.count("devices_that_served_in_a_slow_group_before", len(old))
    if not exchange(rng, res, devs, desc):
        return
    # the same device objects join a second group (a restarted or
    # regrouped controller) together with new ones, in another order
    k2 = [rng.randrange(len(classes)) for _ in range(rng.randint(1, 2))]
    devs2 = devs + [classes[k]() for k in k2]
    rng.shuffle(devs2)
    if rng.random() < 0.5 and len(devs2) > 2:
        devs2.pop(rng.randrange(len(devs2)))
    res.count("second_groups")
    if not exchange(rng, res, devs2, dict(
        desc, second_group=[type(d).__name__ + ("(reused)" if d in devs
                                                else "") for d in devs2])):
        return
    # two independent groups of the same classes alive at the same time
    res.count("twin_groups")
    exchange(rng, res, [classes[k]() for k in ks],
             dict(desc, twin_group_of_the_same_classes=True),
             twin=[classes[k]() for k in ks])


def exchange(rng, res, devs, desc, twin=None):
    """twin: devices of a second, independent group of the same controlling
    process that is alive at the same time (same classes, hence the same
    map size): nothing written here may show up there"""
    try:
        sg = ProcessSyncGroup(ParallelEtherCat("vf"), devs)
        if twin is not None:
            sgt = ProcessSyncGroup(ParallelEtherCat("vf"), twin)
    except Exception as ex:
        res.violation("unexplained:construct",
                      f"{type(ex).__name__}: {ex}", case=desc)
        return False
    tvals = None
    if twin is not None:
        tnames = [sorted(type(d).c29_vars) for d in twin]
        tvals = [[rand_value(rng, type(d).c29_vars[n]) for n in ns]
                 for d, ns in zip(twin, tnames)]
        for d, ns, row in zip(twin, tnames, tvals):
            for n, v in zip(ns, row):
                setattr(d, n, v)

    def twin_intact(when):
        if twin is None:
            return True
        got = [[getattr(d, n) for n in ns] for d, ns in zip(twin, tnames)]
        res.count("twin_group_variables_checked",
                  sum(len(r) for r in got))
        if not rows_equal(twin, tnames, got, tvals):
            res.violation("unexplained:groups-share-storage",
                          f"{when}: the variables of an independent second "
                          f"group of the same process changed from {tvals} "
                          f"to {got}", case=desc)
            return False
        return True
    names = [sorted(type(d).c29_vars) for d in devs]
    # layout
    ranges = []
    try:
        for d, ns, fm in zip(devs, names, desc["formats"]):
            for n in ns:
                fmt = type(d).c29_vars[n]
                pos = d.__dict__[n]
                ranges.append((pos, pos + (8 if fmt == 'x' else
                                           struct.calcsize(fmt)), id(d), n))
    except KeyError as ex:
        res.violation("device-variables-not-in-the-process-group-map",
                      f"DeviceVar {ex} of a device in a ProcessSyncGroup has "
                      "no slot in the group's shared array (DeviceVar is "
                      "bound to FastSyncGroup.properties, which a "
                      "ProcessSyncGroup does not collect)", case=desc)
        return False
    ranges.sort()
    for a, b in zip(ranges, ranges[1:]):
        if b[0] < a[1]:
            res.violation("unexplained:ranges-overlap", f"{a} {b}", case=desc)
            return False
    res.count("variables", len(ranges))
    parent, child = sg.ctx.Pipe()
    p = sg.ctx.Process(target=procchild.c29_child, args=(sg, child))
    p.start()
    try:
        for rnd in range(2):
            vals = [[rand_value(rng, type(d).c29_vars[n]) for n in ns]
                    for d, ns in zip(devs, names)]
            for d, ns, row in zip(devs, names, vals):
                for n, v in zip(ns, row):
                    setattr(d, n, v)
            # assignments the library rejects (value outside the format)
            # must leave what the other process sees untouched
            for d, ns in zip(devs, names):
                for n in ns:
                    f = type(d).c29_vars[n]
                    if len(f) != 1 or f == "x":
                        continue
                    try:
                        setattr(d, n, 1 << (8 * struct.calcsize(f)))
                    except (struct.error, OverflowError, ValueError):
                        res.count("rejected_parent_writes")
            parent.send(("read",))
            if not parent.poll(60):
                res.inconc("child did not answer")
                return False
            msg = parent.recv()
            if msg[0] == "error":
                res.violation("unexplained:child-error", msg[1], case=desc,
                              witness=msg[2])
                return False
            res.count("child_reads", sum(len(r) for r in vals))
            if not twin_intact("after the parent wrote this group"):
                return False
            if not rows_equal(devs, names, msg[1], vals):
                res.violation("unexplained:child-sees-other-values",
                              f"parent wrote {vals}, child read {msg[1]}",
                              case=desc)
                return False
            back = [[rand_value(rng, type(d).c29_vars[n]) for n in ns]
                    for d, ns in zip(devs, names)]
            parent.send(("write", back))
            if not parent.poll(60):
                res.inconc("child did not answer")
                return False
            msg = parent.recv()
            if msg[0] == "error":
                res.violation("unexplained:child-error", msg[1], case=desc,
                              witness=msg[2])
                return False
            got = [[getattr(d, n) for n in ns] for d, ns in zip(devs, names)]
            if not twin_intact("after the child wrote this group"):
                return False
            res.count("parent_reads", sum(len(r) for r in back))
            if not rows_equal(devs, names, got, back):
                res.violation("unexplained:parent-sees-other-values",
                              f"child wrote {back}, parent read {got}",
                              case=desc)
                return False
            # the parent writes the very same values again: the child's
            # write in between must not make this write a no-op
            for d, ns, row in zip(devs, names, vals):
                for n, v in zip(ns, row):
                    setattr(d, n, v)
            parent.send(("read",))
            if not parent.poll(60):
                res.inconc("child did not answer")
                return False
            msg = parent.recv()
            if msg[0] == "error":
                res.violation("unexplained:child-error", msg[1], case=desc,
                              witness=msg[2])
                return False
            res.count("rewrites_of_the_same_value",
                      sum(len(r) for r in vals))
            if not rows_equal(devs, names, msg[1], vals):
                res.violation("unexplained:rewrite-of-same-value-lost",
                              f"parent wrote {vals} again after the child "
                              f"had written {back}; child reads {msg[1]}",
                              case=desc)
                return False
        if len(res.samples) < 2:
            res.sample(dict(desc, ranges=[(a, b, n) for a, b, _, n in ranges]))
        return True
    finally:
        try:
            parent.send(("quit",))
        except Exception:
            pass
        p.join(20)
        if p.is_alive():
            p.kill()


def run_shard(params):
    res = Result()
    rng = random.Random(params["seed"] * 100391 + params["shard"])
    for i in range(params["n"]):
        try:
            check_case(rng, res)
        except (ValueError, TypeError, KeyError, IndexError,
                struct.error, AttributeError) as ex:
            import traceback
            tb = traceback.format_exc()
            if "/ebpfcat/" not in tb.split("check_case")[-1]:
                raise          # the harness's own fault
            res.violation("unexplained:variable-access-raised",
                          f"reading / writing a device variable of a "
                          f"process-based group raised "
                          f"{type(ex).__name__}: {ex}",
                          witness=tb[-1200:])
    return res


def finalize(res, tier, seed):
    c = res.counters
    if not c.get("child_reads") or not c.get("parent_reads"):
        res.inconc("no value crossed the process boundary")


def replay(v):
    return Result()
