"""exploration engine for the dispatcher + fast group programs (C21, C22)

Every transition executes the real bytecode of EtherXDP and of a
FastSyncGroup (assembled by the library) in the reference machine with a
PROG_ARRAY model for the tail call; a sample is replayed in the kernel.
"""
import struct
from collections import deque

from . import ecat, ebpfvm, kern, prog, use_repo
use_repo()

from ebpfcat.ebpfcat import (  # noqa: E402
    Device, DeviceVar, EtherXDP, FastSyncGroup, PacketVar, SyncManager,
    TerminalVar)

ETH = bytes.fromhex("ffffffffffff" "020000000001" "88a4")
USER_ETHERTYPE = 0x4567
TX, PASS = 3, 2


class CountDev(Device):
    runs = DeviceVar("I")
    a = TerminalVar()
    b = TerminalVar()

    def __init__(self, a, b):
        self.a = a
        if b is not None:
            self.b = b

    def program(self):
        self.runs += 1


class World:
    """dispatcher + one fast group with `nwriters` writer datagrams"""

    def __init__(self, sess, layout, registered=True, index=5, decoy=None):
        self.sess = sess
        self.layout = layout
        self.index = index
        self.registered = registered
        self.ec = ecat.OfflineFastEtherCat(sess)
        self.disp = EtherXDP()
        self.disp.programs = self.ec.programs
        if decoy:
            # an earlier fast group of the same master (other terminals,
            # another layout): nothing of it may leak into this group
            dd = []
            for k, kind in enumerate(decoy):
                t, v = ecat.make_terminal(
                    self.ec, 40 + k, [("I",)], [("H",)],
                    use_fmmu=(kind == "f"))
                dd.append(CountDev(v[SyncManager.IN, 0],
                                   v[SyncManager.OUT, 0]
                                   if kind in "wf" else None))
            self.decoy = FastSyncGroup(self.ec, dd)
            self.decoy.allocate()
        devs = []
        pos = 1
        # 'r' direct read-only, 'w' direct rw, 'f' fmmu rw, 'g' fmmu
        # read-only (inputs mapped, outputs not: the LRD and the LWR then
        # expect different working counters)
        for kind in layout:
            t, v = ecat.make_terminal(
                self.ec, pos, [("H",)], [("H",)], use_fmmu=(kind in "fg"))
            devs.append(CountDev(v[SyncManager.IN, 0],
                                 v[SyncManager.OUT, 0]
                                 if kind in "wf" else None))
            pos += 1
        self.devs = devs
        self.sg = FastSyncGroup(self.ec, devs)
        self.sg.allocate()
        self.gl = prog.Loaded(self.sg, sess)
        self.gl.load()
        self.dl = prog.Loaded(self.disp, sess)
        self.dl.load()
        # an identifier beyond the program table whose low 16 bits name a
        # slot that IS in use (by this very program): it is still foreign
        self.alias = index >= 64 and (index & 0xffff) < 64
        if self.alias:
            kern.map_update(self.ec.programs,
                            struct.pack("<I", index & 0xffff),
                            struct.pack("<I", self.gl.fd))
        if registered and index < 64:
            kern.map_update(self.ec.programs, struct.pack("<I", index),
                            struct.pack("<I", self.gl.fd))
        self.sterile = bytes(self.sg.packet.sterile(index, USER_ETHERTYPE))
        # the write datagrams of the cyclic frame, found by parsing the
        # assembled (active) frame independently - not from the packet's
        # own bookkeeping of what it disabled; expected working counters:
        # one terminal per direct write, all FMMU terminals for the LWR
        from . import frames as _frames
        act = bytes(self.sg.packet.assemble(index, USER_ETHERTYPE))
        dgs = _frames.parse(act)[2]
        self.writers = []
        for d in dgs[1:]:
            if d.cmd in (2, 5, 8, 11):      # APWR FPWR BWR LWR
                exp = layout.count("f") if d.cmd == 11 else 1
                self.writers.append((d.hdr_pos + 14, d.wkc_pos + 14, d.cmd,
                                     exp))
        own = sorted((start + 14, stop + 14 - 2, cmd.value,
                      self.sg.packet.counters[stop - 2])
                     for start, stop, cmd in self.sg.packet.on_the_fly)
        self.writers_differ = None if own == sorted(self.writers) else \
            dict(parsed=sorted(self.writers), packet_says=own)
        # V world
        self.mem = self.dl.memory()
        pm = self.mem.maps[self.ec.programs]
        if registered and index < 64:
            pm.progs[index] = ebpfvm.Program(self.gl.code, "group")
        if self.alias:
            pm.progs[index & 0xffff] = ebpfvm.Program(self.gl.code, "group")
        self.dprog = ebpfvm.Program(self.dl.code, "dispatcher")
        self.vars = self.disp.__dict__["variables"]
        self.cpos = self.disp.__dict__["counters"]
        self.props = self.sg.__dict__["properties"]
        self.wpos = self.sg.__dict__["wkc_errors"]

    def close(self):
        self.gl.close()
        self.dl.close()

    # -- concrete frames -----------------------------------------------
    unpadded = False

    def frame(self, fs):
        index0, enabled, wk = fs
        f = bytearray(ETH + self.sterile)
        if self.unpadded:
            # as a sender that does not pad to the Ethernet minimum (a
            # virtual link) puts it on the wire
            ln, = struct.unpack_from("<H", f, 14)
            del f[16 + (ln & 0x7ff):]
        f[17] = index0
        for (cpos, wpos, cmd, exp), en, w in zip(self.writers, enabled, wk):
            f[cpos] = cmd if en else 0
            val = {"0": 0, "ok": exp, "bad": exp + 1,
                   "big": 0x1200 + exp}[w]
            struct.pack_into("<H", f, wpos, val)
        return bytes(f)

    def abstract(self, frame):
        enabled, wk = [], []
        for cpos, wpos, cmd, exp in self.writers:
            enabled.append(frame[cpos] != 0)
            v, = struct.unpack_from("<H", frame, wpos)
            wk.append("0" if v == 0 else "ok" if v == exp else
                      "big" if v >= 256 else "bad")
        return (frame[17], tuple(enabled), tuple(wk))

    def set_state(self, c, wkc_err):
        slot = self.cpos + 4 * self.index if self.index < 64 else None
        self.vars[self.cpos:self.cpos + 256] = bytes(256)
        if slot is not None:
            self.vars[slot:slot + 4] = struct.pack("<I", c)
        self.props[self.wpos:self.wpos + 4] = struct.pack("<I", wkc_err)
        for d in self.devs:
            p = d.__dict__["runs"]
            self.props[p:p + 4] = bytes(4)

    def get_state(self):
        c = 0
        if self.index < 64:
            slot = self.cpos + 4 * self.index
            c, = struct.unpack_from("<I", self.vars, slot)
        w, = struct.unpack_from("<I", self.props, self.wpos)
        return c, w

    def step_v(self, frame, trace=False, rand=None):
        vm = ebpfvm.VM(self.mem, self.dprog, frame, trace=trace,
                       rng=(lambda: rand) if rand is not None else None)
        try:
            ret = vm.run(20000)
            out = vm.out_packet()
        finally:
            vm.release()
        return ret, out, "group" in vm.programs_run

    def step_k(self, frame):
        ret, out, _ = self.dl.run_k(frame)
        return ret, out


def explore(world, starts, depth, res, on_step, max_states=200000,
            k_every=50, maxinflight=3):
    """breadth-first over (c, frames, wkc_err, run, srun): run counts the
    consecutive frames sent back to the bus without the group program,
    srun every consecutive frame the dispatcher handled without it"""
    seen = set()
    parents = {}
    world.parents = parents
    q = deque()
    nwr = len(world.writers)
    fresh = (0, (False,) * nwr, ("ok",) * nwr)
    for c in starts:
        for w in (0, 5):
            s = (c & 0xff, (), 1 if w else 0, 0, 0)
            seen.add(s)
            q.append((s, 0))
    ntrans = 0
    while q:
        s, d = q.popleft()
        if d >= depth:
            continue
        c, frames_, w, run, srun = s
        succ = []
        # inject
        if len(frames_) < maxinflight:
            succ.append(((c, tuple(sorted(frames_ + (fresh,))), w, run,
                          srun), "inject"))
        # user space switches the outputs of the group on (wkc_errors = 1
        # once the terminals are operational) or off (wkc_errors = 0 when
        # the group is restarted) while frames are in flight
        succ.append(((c, frames_, 0 if w else 1, run, srun),
                     "outputs " + ("off" if w else "on")))
        for i, fs in enumerate(frames_):
            rest = frames_[:i] + frames_[i + 1:]
            # lose
            succ.append(((c, rest, w, run, srun), ("lose", fs)))
            # deliver
            world.set_state(c, 5 if w else 0)
            frame = world.frame(fs)
            ret, out, ran = world.step_v(frame)
            c2, w2 = world.get_state()
            ntrans += 1
            touched = world.index >= 64 and any(
                world.vars[world.cpos:world.cpos + 256])
            rec = dict(counters_touched=touched, state=s, frame=fs, action=ret, ran=ran,
                       out=world.abstract(out) if len(out) == len(frame)
                       else None, out_frame=out, in_frame=frame,
                       c_before=c, c_after=c2 & 0xff, w_before=5 if w else 0,
                       w_after=w2, run_before=run, srun_before=srun,
                       inflight=len(frames_))
            if ntrans % 7 == 0:
                # with the loss simulator off (rate 0) the outcome must not
                # depend on the kernel's random number: boundary values
                for rv in (0, 0x10000, 0xffff0000, 0xffffffff):
                    world.set_state(c, 5 if w else 0)
                    r2, o2, ran2 = world.step_v(frame, rand=rv)
                    if (r2, o2) != (ret, out):
                        rec["random_dependence"] = (rv, r2)
                        break
                world.set_state(c, 5 if w else 0)
                world.step_v(frame)
            if ntrans % 11 == 0:
                # a group that has been running for a while: the 32-bit
                # counter is beyond 255 (and wraps at 2^32); the frames carry
                # its low byte only, so must the outcome
                for hi in (0x100, 0x7f00, 0xffffff00):
                    world.set_state(c | hi, 5 if w else 0)
                    r3, o3, ran3 = world.step_v(frame)
                    c3, w3 = world.get_state()
                    if (r3, o3, ran3, c3 & 0xff, w3) != \
                            (ret, out, ran, c2 & 0xff, w2):
                        rec["counter_dependence"] = (c | hi, r3, ran3,
                                                     c3)
                        break
                world.set_state(c, 5 if w else 0)
                world.step_v(frame)
            if ntrans % k_every == 0:
                world.set_state(c, 5 if w else 0)
                rk, ok = world.step_k(frame)
                ck, wk = world.get_state()
                rec["k_agrees"] = (rk, ok, ck, wk) == (ret, out, c2, w2)
                if not rec["k_agrees"]:
                    rec["k_result"] = (rk, ok.hex()[:80], ck, wk)
            on_step(rec)
            # frames handed to user space are superfluous ones and do not
            # count; the run is the number of consecutive frames sent back
            # to the bus without the group program
            run2 = 0 if ran else (min(run + 1, 3) if ret == TX else run)
            srun2 = 0 if ran else min(srun + 1, 4)
            if ret == TX and rec["out"] is not None:
                idx0, en, wk_ = rec["out"]
                # the bus executes enabled writers: counters become
                # expected (ok) or wrong (bad); one faulty variant
                variants = {tuple("ok" if e and x == "0" else
                                  ("bad" if e else x)
                                  for e, x in zip(en, wk_))}
                if any(en):
                    bad = list(next(iter(variants)))
                    k = en.index(True)
                    bad[k] = "bad"
                    variants.add(tuple(bad))
                    # a corrupted reply: a counter beyond one byte
                    big = list(bad)
                    big[k] = "big"
                    variants.add(tuple(big))
                for v in variants:
                    nf = (idx0, en, v)
                    succ.append(((c2 & 0xff, tuple(sorted(rest + (nf,))),
                                  1 if w2 else 0, run2, srun2),
                                 ("deliver", fs, "TX", "ran" if ran else "-")))
            else:
                succ.append(((c2 & 0xff, rest, 1 if w2 else 0, run2, srun2),
                             ("deliver", fs, "PASS" if ret == PASS else ret,
                              "ran" if ran else "-")))
        for s2, how in succ:
            if s2 not in seen and len(seen) < max_states:
                seen.add(s2)
                parents[s2] = (s, how)
                q.append((s2, d + 1))
    return len(seen), ntrans


def path_to(world, state):
    """the shortest explored history leading to `state`"""
    out = []
    while state in world.parents:
        prev, how = world.parents[state]
        out.append((how, state))
        state = prev
    out.append(("start", state))
    return out[::-1]
