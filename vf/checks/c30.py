"""C30 slow sync groups exchange process data and check working counters"""
import asyncio
import logging
import random
import struct

from .. import aio, bus, frames, simgroup, use_repo
from ..core import Result
use_repo()

from ebpfcat.ebpfcat import (  # noqa: E402
    Device, PacketVar, SimpleEtherCat, SyncGroup, SyncManager, TerminalVar)

PROPERTY = "C30"
LEVEL = "exploration"
RULE = ("the real SyncGroup.start()/run() on the virtual loop over random "
        "terminal sets (1-5 terminals, FMMU and direct, read-only and "
        "read-write) with recording devices (update() notes the input it "
        "sees and drives a fresh unique output; a second device on some "
        "terminals drives two bit outputs with truthy / falsy values of any "
        "kind and reads a bit input; a third kind of device gets its "
        "output commanded from outside update() while the group sleeps "
        "between two cycles); the bus model fills the "
        "input RAM with a cycle-dependent pattern before every cyclic frame "
        "and, per datagram and cycle, returns a correct or a wrong working "
        "counter; 8-30 cycles; some frames are lost (time-out path). History "
        "checker over frames sent, responses, device-visible inputs and "
        "wkc_errors: inputs of update n == data of response n; outputs set "
        "in cycle n appear in frame n+1; every counter field of every frame "
        "sent after the first response is 0; from the second cycle on the "
        "error count grows exactly by the number of datagrams whose returned "
        "counter differs from the expected one; a device whose output "
        "(1 byte, or 4 bytes declared with the letter 'l') is commanded "
        "between two cycles: the next frame carries it in its own bytes and "
        "keeps its length. a case = one run; "
        "non-trivial = >= 5 cycles with at least one wrong counter or lost "
        "frame")
ASSUMPTIONS = ["the very first frame carries the presets append() stores; "
               "the statement starts at the second cycle"]
MIN_EVALUATIONS = {"quick": 100, "thorough": 3000}


BIT_VALUES = [0, 1, True, False, 2, 4, 3, 0x40, 255, 0, 1]


class BitDevice(Device):
    """drives two bit outputs (third output byte) with truthy / falsy values
    of any kind and records the bit input it sees"""
    b0 = TerminalVar()
    b1 = TerminalVar()
    bi = TerminalVar()

    def __init__(self, t, bits, seed):
        self.b0 = PacketVar(t, SyncManager.OUT, 2, bits[0])
        self.b1 = PacketVar(t, SyncManager.OUT, 2, bits[1])
        self.bi = PacketVar(t, SyncManager.IN, 1, bits[2])
        self.bits = bits
        self.rng = random.Random(seed)
        self.seen = []
        self.sent = []

    def update(self):
        self.seen.append(self.bi)
        v0 = self.rng.choice(BIT_VALUES)
        v1 = self.rng.choice(BIT_VALUES)
        self.b0 = v0
        self.b1 = v1
        self.sent.append((v0, v1))

    def program(self):
        pass


class SByteDevice(Device):
    """reads one input byte declared as a signed 8-bit integer"""
    sb = TerminalVar()

    def __init__(self, t):
        self.sb = PacketVar(t, SyncManager.IN, 1, "b")
        self.seen = []

    def update(self):
        self.seen.append(self.sb)

    def program(self):
        pass


class FaultyDevice(Device):
    """a device whose update() raises in one cycle (a division by an input
    that is 0, a value that does not fit its variable); it runs after the
    other devices of the group"""
    sb = TerminalVar()

    def __init__(self, t, at):
        self.sb = PacketVar(t, SyncManager.IN, 0, "B")
        self.at = at
        self.n = 0

    def update(self):
        self.n += 1
        if self.n == self.at:
            return 1 // 0

    def program(self):
        pass


class CmdDevice(Device):
    """an output that is not driven from update() but commanded from
    outside (another task, a GUI) between two cycles"""
    out = TerminalVar()

    def __init__(self, t, wide):
        # (wide: a 4-byte value declared with the C type letter 'l', whose
        # native size on this machine is 8)
        self.wide = wide
        self.out = PacketVar(t, SyncManager.OUT, 4 if wide else 3,
                             "l" if wide else "B")

    def update(self):
        pass

    def program(self):
        pass


def plan(tier, seed):
    n = 40 if tier == "quick" else 300
    return [dict(seed=seed, shard=i, n=n) for i in range(16)]


def gen_case(rng):
    terms = simgroup.gen_terms(rng)
    for d in terms:
        # a second device with bit-sized variables on the same terminal
        if d["rw"] and d["osz"] >= 4 and rng.random() < 0.6:
            b0 = rng.randrange(8)
            d["bits"] = [b0, rng.choice([b for b in range(8) if b != b0]),
                         rng.randrange(8)]
    ncyc = rng.randint(8, 30)
    return dict(terms=terms, cycles=ncyc,
                wrong=[[rng.random() < 0.15 for _ in range(8)]
                       for _ in range(ncyc + 4)],
                lost=[rng.random() < 0.07 for _ in range(ncyc + 4)],
                # what a wrong counter looks like: one too many, nobody at
                # all (terminals off, cable pulled), or (rarely) off by a
                # whole byte
                wrong_how=[rng.choice(["+1", "+1", "zero", "zero", "-1",
                                       "+256"]) for _ in range(ncyc + 4)],
                restart=rng.random() < 0.35,
                regroup=rng.random() < 0.5,
                # a device whose update raises in that cycle
                faulty=rng.choice([None] * 6 + [2, 3, 5]),
                sidekick=rng.random() < 0.3,
                rseed=rng.getrandbits(32))


def run_case(case):
    random.seed(case["rseed"])
    sims = simgroup.make_sims(case["terms"])
    # a second slow group of the same master runs next to the one under
    # observation: a subclass of SyncGroup (its own name and cycle time)
    # over a terminal of its own, started first
    sk_terms = [dict(pos=60, isz=2, osz=2, fmmu=False, rw=True)] \
        if case.get("sidekick") else []
    b = bus.Bus(sims + simgroup.make_sims(sk_terms))
    hist = dict(cyc=[], updates=[], errors=[], logs=[])
    hists = [hist]
    state = dict(k=0, index=None)

    class H(logging.Handler):
        def emit(self, record):
            hist["logs"].append(record.getMessage()[:90])
    h = H()
    root = logging.getLogger()
    old = (root.handlers[:], root.level)
    root.handlers = [h]
    root.setLevel(logging.WARNING)

    async def main(loop):
        ec = SimpleEtherCat("vf")
        ts, devs = simgroup.make_rig(case["terms"], ec)
        bitdevs = [(ti, BitDevice(t, d["bits"], case["rseed"] + ti))
                   for ti, (t, d) in enumerate(zip(ts, case["terms"]))
                   if d.get("bits")]

        def policy(nf, data):
            idx, = struct.unpack_from("<I", data, 4)
            if state["index"] is None or idx != state["index"]:
                return [(0.0001, b.process(data))]
            k = state["k"]
            state["k"] += 1
            # cycle-dependent input pattern
            for s, d in zip(sims, case["terms"]):
                s.mem[0x1100:0x1100 + d["isz"]] = bytes(
                    (d["pos"] * 17 + k * 29 + j * 3) & 0xff
                    for j in range(d["isz"]))
            length, typ, dgs, pad = frames.parse(data)
            wrong = case["wrong"][k % len(case["wrong"])]

            true_wkc = {}

            def ov(fno, dno, wkc):
                # wkc = the number the slaves on the ring really produce
                true_wkc[dno] = wkc
                if not (dno > 0 and wrong[(dno - 1) % 8]):
                    return wkc
                how = case.get("wrong_how", ["+1"])
                how = how[k % len(how)]
                hist.setdefault("how", []).append(how)
                if how == "zero" and wkc:
                    return 0
                if how == "-1" and wkc > 1:
                    return wkc - 1
                if how == "+256":
                    return wkc + 256
                return wkc + 1
            b.wkc_override = ov
            resp = b.process(data)
            b.wkc_override = None
            rdgs = frames.parse(resp)[2]
            lost = case["lost"][k % len(case["lost"])]
            hists[-1]["cyc"].append(dict(
                k=k, sent=data, resp=resp, lost=lost, t=loop.time(),
                true_wkc=[true_wkc.get(i + 1) for i in range(len(dgs) - 1)],
                sent_wkc=[g.wkc for g in dgs[1:]],
                resp_wkc=[g.wkc for g in rdgs[1:]],
                outram=[bytes(s.mem[0x1000:0x1000 + d["osz"]])
                        for s, d in zip(sims, case["terms"])]))
            return [] if lost else [(0.0002, resp)]
        bus.attach(ec, loop, b, policy)
        cmddevs = [(ti, CmdDevice(t, d["osz"] >= 8))
                   for ti, (t, d) in enumerate(zip(ts, case["terms"]))
                   if d["rw"] and d["osz"] >= 4][:1]
        sbdevs = [(ti, SByteDevice(t))
                  for ti, (t, d) in enumerate(zip(ts, case["terms"]))
                  if d["isz"] >= 2][:2]
        faulty = []
        if case.get("faulty"):
            ti_f = [ti for ti, d in enumerate(case["terms"]) if d["isz"]][:1]
            faulty = [FaultyDevice(ts[ti], case["faulty"]) for ti in ti_f]
        sg = SyncGroup(ec, devs + [bd for _, bd in bitdevs]
                       + [cd for _, cd in cmddevs]
                       + [sd for _, sd in sbdevs] + faulty)
        orig = sg.update_devices

        def command(ti, cd, value):
            if sg.task is None or sg.task.done():
                return
            if cd.wide:
                value = value * 65537 - 70000
            cd.out = value
            hists[-1].setdefault("commands", []).append(
                dict(t=loop.time(), term=ti, value=value, wide=cd.wide))

        def upd(data):
            before = sg.wkc_errors
            r = orig(data)
            n_ = len(hists[-1]["updates"])
            if cmddevs and n_ % 3 == 1:
                # while the group sleeps until its next cycle
                ti_, cd_ = cmddevs[0]
                loop.call_later(0.004, command, ti_, cd_,
                                (n_ * 7 + 11) & 0xff or 5)
            hists[-1]["updates"].append(dict(
                data=bytes(data), errors=sg.wkc_errors - before,
                seen=[d.seen[-1] for d in devs],
                sent=[d.sent[-1] if d.sent else None for d in devs],
                bits=[(ti, bd.bits, bd.seen[-1], bd.sent[-1])
                      for ti, bd in bitdevs],
                sbytes=[(ti, sd.seen[-1]) for ti, sd in sbdevs]))
            return r
        sg.update_devices = upd
        side_task = None
        if sk_terms:
            class SideGroup(SyncGroup):
                name = "side"
                cycletime = 0.013
            _ts2, devs2 = simgroup.make_rig(sk_terms, ec)
            side = SideGroup(ec, devs2)
            side_task = side.start()
        for seg in range(2 if case.get("restart") else 1):
            if seg:
                hists.append(dict(cyc=[], updates=[], errors=[],
                                  logs=hist["logs"]))
                if case.get("regroup"):
                    # the same devices are handed to a new sync group
                    # object (a re-configuration) once the first has ended
                    sg = SyncGroup(ec, devs + [bd for _, bd in bitdevs]
                                   + [cd for _, cd in cmddevs]
                                   + [sd for _, sd in sbdevs] + faulty)
                    orig = sg.update_devices
                    sg.update_devices = upd
            h_ = hists[-1]
            task = sg.start()
            state["index"] = sg.packet_index
            h_["sg"] = sg
            h_["ts"] = ts
            ncyc = case["cycles"] if seg == 0 else max(4, case["cycles"] // 2)
            while len(h_["updates"]) < ncyc and not task.done():
                await asyncio.sleep(0.005)
            if task.done() and not task.cancelled():
                h_["task_error"] = repr(task.exception())
            task.cancel()
            try:
                await task
            except asyncio.CancelledError:
                pass
            except Exception as ex:
                h_["task_error"] = repr(ex)
            # the layout of this run (start() allocates anew)
            h_["counters"] = sorted(sg.packet.counters.items())
            h_["assign"] = {t: dict(sg.pdo_assign[t]) for t in ts}
            await asyncio.sleep(0.05)
        if side_task is not None:
            if side_task.done() and not side_task.cancelled():
                hists[0]["task_error"] = "the group next to it: " + repr(
                    side_task.exception())
            side_task.cancel()
            await asyncio.gather(side_task, return_exceptions=True)
    try:
        aio.run(main, wall_limit=40)
    finally:
        root.handlers, root.level = old[0], old[1]
        root.setLevel(old[1])
    return hists


def check_case(case, res):
    try:
        hists = run_case(case)
    except aio.WallClock:
        res.inconc("wall-clock watchdog")
        return
    res.case(case, nontrivial=len(hists[0]["updates"]) >= 5)
    for seg, hist in enumerate(hists):
        if seg:
            res.count("restarted_runs")
            if case.get("regroup"):
                res.count("runs_of_the_devices_in_a_new_group_object")
        if check_run(case, hist, res, seg) is False:
            return


def check_run(case, hist, res, seg):
    res.count("cycles", len(hist["updates"]))
    if case.get("faulty") and "ZeroDivisionError" in hist.get(
            "task_error", ""):
        # the device's failure ended the run; whatever was sent until then
        # went out with cleared counters
        res.count("runs_ended_by_a_failing_device")
        first_done = None
        for c in hist["cyc"]:
            if not c["lost"]:
                first_done = c["k"]
                break
        for c in hist["cyc"]:
            if first_done is None or c["k"] <= first_done:
                continue
            res.count("frames_counter_checked")
            if any(c["sent_wkc"]):
                res.violation("unexplained:counters-not-cleared",
                              f"frame {c['k']} was sent with counters "
                              f"{c['sent_wkc']} (a device's update had "
                              f"raised)", case=case)
                return False
        return None
    if "task_error" in hist:
        res.violation("unexplained:run-failed", hist["task_error"],
                      case=case, witness=hist["logs"][:5])
        return False
    sg, ts = hist["sg"], hist["ts"]
    counters = hist["counters"]
    assign = hist["assign"]
    tag = " (after a restart of the group)" if seg else ""
    delivered = [c for c in hist["cyc"] if not c["lost"]]
    res.count("frames_lost", sum(1 for c in hist["cyc"] if c["lost"]))
    # pair update n with delivered response n
    for n, (u, c) in enumerate(zip(hist["updates"], delivered)):
        if u["data"] != c["resp"]:
            res.violation("unexplained:update-data",
                          f"update {n} did not receive response {c['k']}",
                          case=case)
            return False
        # inputs seen == data of that response
        for ti, (t, d) in enumerate(zip(ts, case["terms"])):
            st = assign[t][SyncManager.IN]
            want, = struct.unpack_from("<H", c["resp"], st)
            res.count("inputs_compared")
            if u["seen"][ti] != want:
                res.violation("unexplained:input-data",
                              f"cycle {n}: device of {t.name} saw "
                              f"{u['seen'][ti]:#x}, response holds "
                              f"{want:#x}", case=case)
                return False
        for ti, seen in u.get("sbytes", []):
            st = assign[ts[ti]][SyncManager.IN]
            want, = struct.unpack_from("<b", c["resp"], st + 1)
            res.count("signed_byte_inputs_compared")
            if want < 0:
                res.count("signed_byte_inputs_that_were_negative")
            if seen != want:
                res.violation("unexplained:input-data",
                              f"cycle {n}: the signed byte of "
                              f"{ts[ti].name} was seen as {seen}, the "
                              f"response holds {want}", case=case)
                return False
        for ti, bits, seen, _ in u["bits"]:
            st = assign[ts[ti]][SyncManager.IN]
            want = (c["resp"][st + 1] >> bits[2]) & 1
            res.count("bit_inputs_compared")
            if bool(seen) != bool(want) or seen not in (0, 1):
                res.violation("unexplained:input-data",
                              f"cycle {n}: bit {bits[2]} of {ts[ti].name} "
                              f"seen as {seen!r}, response holds {want}",
                              case=case)
                return False
        # error accounting (from the second cycle on)
        # expected = the number of terminals that really process the
        # datagram (what the ring produced before the injected error), not
        # the preset the packet itself carries
        wrongs = sum(1 for rw, tw in zip(c["resp_wkc"], c["true_wkc"])
                     if tw is not None and rw != tw)
        if n >= 1:
            res.count("cycles_with_wrong_counter" if wrongs
                      else "cycles_all_correct")
            if u["errors"] != wrongs:
                res.violation(
                    "unexplained:error-accounting",
                    f"cycle {n}{tag}: {wrongs} datagrams came back with a "
                    f"counter {c['resp_wkc']} different from the number of "
                    f"terminals processing them {c['true_wkc']} (packet "
                    f"presets {[x for _, x in counters]}) but {u['errors']} "
                    f"errors were counted", case=case)
                return False
    # frames sent after the first response was processed
    first_done = None
    for c in hist["cyc"]:
        if not c["lost"]:
            first_done = c["k"]
            break
    for c in hist["cyc"]:
        if first_done is not None and c["k"] > first_done:
            res.count("frames_counter_checked")
            if any(c["sent_wkc"]):
                res.violation("unexplained:counters-not-cleared",
                              f"frame {c['k']} was sent with counters "
                              f"{c['sent_wkc']}", case=case)
                return False
    # outputs of cycle n are in the next frame sent
    for n, u in enumerate(hist["updates"]):
        resp_k = delivered[n]["k"]
        nxt = [c for c in hist["cyc"] if c["k"] > resp_k]
        if not nxt:
            continue
        f = nxt[0]
        for ti, (t, d) in enumerate(zip(ts, case["terms"])):
            if u["sent"][ti] is None:
                continue
            st = assign[t][SyncManager.OUT]
            got, = struct.unpack_from("<H", f["sent"], st)
            res.count("outputs_compared")
            if got != u["sent"][ti]:
                res.violation("unexplained:output-data",
                              f"cycle {n}{tag}: output {u['sent'][ti]:#x} of "
                              f"{t.name} is not in the next frame "
                              f"({got:#x})", case=case)
                return False
        for ti, bits, _, vals in u["bits"]:
            st = assign[ts[ti]][SyncManager.OUT]
            byte = f["sent"][st + 2]
            want = 0
            for b, v in zip(bits, vals):
                if v:
                    want |= 1 << b
            res.count("bit_outputs_compared", 2)
            if any(v not in (0, 1) for v in vals):
                res.count("bit_outputs_set_with_other_truthy_values")
            if byte != want:
                res.violation(
                    "unexplained:output-data",
                    f"cycle {n}{tag}: bits {bits[:2]} of {ts[ti].name} set "
                    f"to {vals!r}: the next frame carries {byte:#010b} in "
                    f"that byte, not {want:#010b}", case=case)
                return False
    # outputs commanded from outside update(), while the group sleeps
    # between two cycles: the next frame sent carries them
    for cmd in hist.get("commands", []):
        later = [c for c in hist["cyc"] if c["t"] > cmd["t"]]
        if not later:
            continue
        f = later[0]
        st = assign[ts[cmd["term"]]][SyncManager.OUT]
        res.count("commanded_outputs_checked")
        if cmd.get("wide"):
            res.count("commanded_outputs_of_format_l")
            if len(f["sent"]) != len(hist["cyc"][0]["sent"]):
                res.violation(
                    "unexplained:frame-length-changed",
                    f"cyclic frames changed their length from "
                    f"{len(hist['cyc'][0]['sent'])} to {len(f['sent'])} "
                    f"bytes", case=case)
                return False
            got4, = struct.unpack_from("<l", f["sent"], st + 4)
            if got4 != cmd["value"]:
                res.violation(
                    "unexplained:output-data",
                    f"{ts[cmd['term']].name}{tag}: a 4-byte output ('l') "
                    f"commanded to {cmd['value']} is {got4} in the next "
                    f"frame", case=case)
                return False
            continue
        if f["sent"][st + 3] != cmd["value"]:
            res.violation(
                "unexplained:output-data",
                f"{ts[cmd['term']].name}{tag}: an output commanded between "
                f"two cycles ({cmd['value']:#x} at t={cmd['t']:.4f}) is not "
                f"in the next frame sent (t={f['t']:.4f} carries "
                f"{f['sent'][st + 3]:#x})", case=case)
            return False
    if len(res.samples) < 2:
        res.sample(dict(terms=case["terms"], cycles=len(hist["updates"]),
                        counters=[c for _, c in counters],
                        first_resp_wkc=delivered[0]["resp_wkc"]
                        if delivered else None,
                        errors_per_cycle=[u["errors"] for u in
                                          hist["updates"]][:12]))


def run_shard(params):
    res = Result()
    rng = random.Random(params["seed"] * 100333 + params["shard"])
    for i in range(params["n"]):
        check_case(gen_case(rng), res)
    return res


def finalize(res, tier, seed):
    c = res.counters
    for k in ("inputs_compared", "outputs_compared",
              "cycles_with_wrong_counter", "cycles_all_correct",
              "frames_counter_checked", "frames_lost"):
        if not c.get(k):
            res.inconc(f"{k}: never observed")


def replay(v):
    res = Result()
    check_case(v["case"], res)
    return res
