"""print the DESIGN.md section 10 table from seeded/*/meta.json"""
import glob
import json
import os
import re

ROOT = os.path.dirname(os.path.abspath(__file__))


def short(s, n):
    s = re.sub(r"\s+", " ", s).strip()
    return s if len(s) <= n else s[:n - 1].rsplit(" ", 1)[0] + " …"


STR = json.load(open(os.path.join(ROOT, "tools_strengthening.json")))
rows = []
for d in sorted(glob.glob(os.path.join(ROOT, "seeded", "*"))):
    m = json.load(open(os.path.join(d, "meta.json")))
    v = m.get("verified", {})
    keys = []
    for ck, r in v.get("checks", {}).items():
        for l in r.get("first_lines", []):
            mm = re.match(r"\s*key=([^:]+(?::[a-z-]+)?)", l)
            if mm:
                keys.append(f"{ck.split('@')[0]}: `{short(mm.group(1), 60)}`")
    rows.append((os.path.basename(d), short(m.get("summary", ""), 150),
                 short(m.get("needs_to_manifest", ""), 130),
                 "; ".join(keys[:1]) or ("caught" if v.get("caught")
                                         else "MISSED"),
                 STR.get(os.path.basename(d), "yes (see the property's other "
                         "entries)")
                 if v.get("missed_by_the_first_version_of_the_check")
                 or os.path.basename(d) in STR else ""))
out = ["| change | what was changed | needs, to manifest | caught by (first "
       "violation key) | missed at first; what was added to the check |",
       "|---|---|---|---|---|"]
for r in rows:
    out.append("| " + " | ".join(x.replace("|", "\\|") for x in r) + " |")
p = os.path.join(ROOT, "DESIGN.md")
s = open(p).read()
pat = re.compile(r"(<!-- gen:seeded -->\n).*?(<!-- /gen:seeded -->)", re.S)
assert pat.search(s)
s = pat.sub(lambda m: m.group(1) + "\n".join(out) + "\n" + m.group(2), s)
open(p, "w").write(s)
print(len(rows), "rows")
