"""C18 sync groups give each terminal disjoint, exactly-sized process data"""
import asyncio
import random
import struct

from .. import aio, bus, ecat, frames, kern, use_repo
from ..core import Result
use_repo()

from ebpfcat.ebpfcat import (  # noqa: E402
    Device, FastSyncGroup, PacketVar, SimpleEtherCat, SyncGroup, SyncManager,
    TerminalVar)
from ebpfcat.ethercat import EtherCat, Packet  # noqa: E402
from ebpfcat.terminals import AerotechBase  # noqa: E402

PROPERTY = "C18"
LEVEL = "exploration"
RULE = ("seeded random terminal sets (1-12 terminals; input/output sizes "
        "0..max incl. sets exceeding one frame; read-only and read-write use; "
        "FMMU and direct addressing; Aerotech-style terminals with declared "
        "in_size/out_size) in 1-4 sync groups (slow and fast) of one master; "
        "static leg: after the real allocate() the cyclic frame is parsed "
        "independently and every terminal's IN/OUT region is checked for "
        "exact size, containment in a datagram that transports it (FPRD/FPWR "
        "to its address and PDO offset, or LRD/LWR), pairwise disjointness, "
        "fmmu_maps == datagram logical base + offset, disjoint logical "
        "windows across groups, and rejection of oversized groups; dynamic "
        "leg: the real map_fmmu programs the FMMU registers of terminal "
        "models on the simulated bus, every input RAM holds a unique "
        "pattern, one cycle is exchanged and patterns must land exactly in "
        "their regions / output RAM; session leg: a master initialises "
        "the terminals (real Terminal.initialize from SII images), maps a "
        "group and is torn down in operation, a second master initialises "
        "them again, optionally connects a second time, and runs 1-2 groups "
        "over other subsets: outputs of every terminal on the segment hold "
        "exactly what its group sent and nothing if nobody writes them; "
        "long-run leg: a simple and a parallel (FMMULock) master keep one "
        "group allocated while another is allocated 1100 (thorough 5000) "
        "times, every new window must be disjoint from the live group's. "
        "a case = one master configuration; "
        "non-trivial = >= 2 terminals with process data")
ASSUMPTIONS = ["any disjoint placement inside the transporting datagram is "
               "accepted, not the particular offsets today's allocator picks"]
MIN_EVALUATIONS = {"quick": 300, "thorough": 8000}


class Dev(Device):
    a = TerminalVar()
    b = TerminalVar()

    def __init__(self, a=None, b=None):
        if a is not None:
            self.a = a
        if b is not None:
            self.b = b

    def program(self):
        pass


class SpanDev(Device):
    """a device over two terminals: it writes one and only reads the other;
    the output variable comes first in the attribute order"""
    out = TerminalVar()
    inp = TerminalVar()

    def __init__(self, out, inp):
        self.out = out
        self.inp = inp

    def program(self):
        pass


class Aero(AerotechBase):
    pass


def plan(tier, seed):
    n = 120 if tier == "quick" else 600
    return [dict(seed=seed, shard=i, n=n) for i in range(16)]


def gen_boundary_case(rng):
    """one group whose cyclic frame needs exactly MAXSIZE + delta bytes"""
    target = Packet.MAXSIZE + rng.choice([-2, -1, 0, 0, 1, 1, 2, 2, 3])
    fmmu = rng.random() < 0.5
    nt = rng.randint(1, 4)
    terms = []
    need = 16 + (12 if fmmu else 0)
    for i in range(nt):
        per = 0 if fmmu else 12
        room = target - need - per * (nt - i)
        if i == nt - 1:
            isz = room
        else:
            isz = rng.randint(1, max(1, room // (nt - i)))
        need += per + isz
        terms.append(dict(pos=10 + i, isz=isz, osz=0, fmmu=fmmu, rw=False,
                          aero=False, decl_in=None, decl_out=None))
    return dict(terms=terms, groups=[list(range(nt))],
                fast=[rng.random() < 0.3], boundary=target)


def gen_one_direction_case(rng):
    """several groups of one master whose FMMU terminals all have outputs
    only (digital output terminals), or inputs only, next to a mixed one"""
    terms, groups = [], []
    for g in range(rng.randint(2, 4)):
        kind = rng.choice(["out", "out", "in", "mixed"])
        members = []
        for _ in range(rng.randint(1, 3)):
            i = len(terms)
            isz = 0 if kind == "out" else rng.choice([1, 2, 6])
            osz = 0 if kind == "in" else rng.choice([1, 2, 4])
            terms.append(dict(pos=10 + i, isz=isz, osz=osz, fmmu=True,
                              rw=kind != "in", sharers=[],
                              sharers_first=False, aero=False,
                              decl_in=None, decl_out=None))
            members.append(i)
        groups.append(members)
    return dict(terms=terms, groups=groups,
                fast=[rng.random() < 0.3 for _ in groups], span=False,
                logical_base=rng.choice([0, 0, 7, 0x800]))


def gen_case(rng):
    if rng.random() < 0.15:
        return gen_boundary_case(rng)
    if rng.random() < 0.1:
        return gen_one_direction_case(rng)
    nt = rng.randint(1, 12)
    big = rng.random() < 0.12
    terms = []
    for i in range(nt):
        isz = rng.choice([0, 1, 2, 4, 6, 8, 16, 48, rng.randint(0, 120)])
        osz = rng.choice([0, 0, 1, 2, 4, 8, 12, 48, rng.randint(0, 120)])
        if big:
            isz = rng.choice([200, 400, 700])
        aero = rng.random() < 0.1
        if aero and rng.random() < 0.5:
            # the controller's whole PDO is large, the declared part small
            isz = rng.choice([rng.randint(41, 120), 600, 1400])
            osz = rng.choice([rng.randint(41, 120), 600, 1400])
        terms.append(dict(pos=10 + i, isz=isz, osz=osz,
                          fmmu=rng.random() < 0.6, rw=rng.random() < 0.6,
                          sharers=[rng.choice("rw") for _ in range(
                              rng.choice([0, 0, 0, 1, 2]))],
                          sharers_first=rng.random() < 0.5,
                          aero=aero,
                          # (a declared size of 0: nothing of that
                          # direction is transferred)
                          decl_in=rng.choice([0, rng.randint(1, 40),
                                              rng.randint(1, 40)])
                          if aero else None,
                          decl_out=rng.choice([0, rng.randint(1, 40),
                                               rng.randint(1, 40)])
                          if aero else None))
    ng = rng.randint(1, 4)
    groups = [[] for _ in range(ng)]
    for i in range(nt):
        groups[rng.randrange(ng)].append(i)
    groups = [g for g in groups if g]
    return dict(terms=terms, groups=groups,
                fast=[rng.random() < 0.3 for _ in groups],
                span=rng.random() < 0.4,
                # where the master's logical address counter stands before
                # the groups are allocated (the project's own test presets
                # it to 7)
                logical_base=rng.choice([0, 0, 0, 7, 0x123, 0x800, 0xffd,
                                         0x12345]))


def build(case, ec):
    ts = []
    for d in case["terms"]:
        cls = Aero if d["aero"] else ecat.OfflineTerminal
        t = cls(ec)
        t.position = d["pos"]
        t.name = f"T{d['pos']}"
        t.use_fmmu = d["fmmu"]
        t.pdos = {}
        t.pdo_in_sz, t.pdo_in_off = d["isz"], 0x1100
        t.pdo_out_sz, t.pdo_out_off = d["osz"], 0x1000
        if d["aero"]:
            t.in_size, t.out_size = d["decl_in"], d["decl_out"]
        t.fmmu_used = [None] * 4
        ts.append(t)
    return ts


def expected_sizes(d, rw):
    """(in size or None, out size or None) reserved in the frame"""
    if d["aero"]:
        return (d["decl_in"] if d["isz"] else None,
                d["decl_out"] if rw and d["osz"] else None)
    return (d["isz"] or None, d["osz"] if rw and d["osz"] else None)


def check_case(case, res, sess):
    ec = ecat.OfflineFastEtherCat(sess)
    if case.get("logical_base"):
        ec.next_logical_addr = case["logical_base"]
        res.count("masters_with_an_unaligned_logical_base")
    ts = build(case, ec)
    windows = []
    nwith = sum(1 for d in case["terms"] if d["isz"] or d["osz"])
    res.case(case, nontrivial=nwith >= 2)
    groups = []
    for gi, (members, fast) in enumerate(zip(case["groups"], case["fast"])):
        devs = []
        for i in members:
            d = case["terms"][i]
            a = PacketVar(ts[i], SyncManager.IN, 0, "B")
            b = PacketVar(ts[i], SyncManager.OUT, 0, "B") if d["rw"] else None
            devs.append(Dev(a, b))
            # further devices sharing the terminal, some only reading it:
            # the terminal is written if ANY of its devices writes
            for extra in d.get("sharers", []):
                a2 = PacketVar(ts[i], SyncManager.IN, 0, "B")
                b2 = PacketVar(ts[i], SyncManager.OUT, 0, "B") \
                    if extra == "w" and d["rw"] else None
                if d.get("sharers_first"):
                    devs.insert(len(devs) - 1, Dev(a2, b2))
                else:
                    devs.append(Dev(a2, b2))
                res.count("devices_sharing_a_terminal")
        # a device that spans two terminals of the group: it writes one
        # (which is written anyway) and only reads one that nobody writes
        writers = [i for i in members if case["terms"][i]["rw"]
                   and case["terms"][i]["osz"] and not case["terms"][i]["aero"]]
        readers = [i for i in members if not case["terms"][i]["rw"]
                   and case["terms"][i]["isz"] and case["terms"][i]["osz"]
                   and not case["terms"][i]["aero"]]
        if case.get("span") and writers and readers:
            devs.append(SpanDev(
                PacketVar(ts[writers[0]], SyncManager.OUT, 0, "B"),
                PacketVar(ts[readers[0]], SyncManager.IN, 0, "B")))
            res.count("devices_spanning_a_written_and_a_read_only_terminal")
        total = 16
        try:
            sg = (FastSyncGroup if fast else SyncGroup)(ec, devs)
            sg.allocate()
            ok = True
        except OverflowError:
            ok = False
        except Exception as ex:
            res.violation("unexplained:allocate-raised",
                          f"group {members}: {type(ex).__name__}: {ex}",
                          case=case)
            return None
        res.count("groups_allocated" if ok else "groups_rejected")
        # would it fit?  (independent size arithmetic)
        need = 16
        fi = fo = 0
        ndg = 0
        for i in members:
            d = case["terms"][i]
            si, so = expected_sizes(d, d["rw"])
            if d["aero"]:
                if si is not None:
                    fi += si
                    need += 12 + 1
                    ndg += 1
                if so is not None:
                    need += 12 + so + 12 + 1
                    ndg += 2
            elif d["fmmu"]:
                fi += si or 0
                fo += so or 0
            else:
                if si:
                    need += 12 + si
                    ndg += 1
                if so:
                    need += 12 + so
                    ndg += 1
        if fi:
            need += 12 + fi
            ndg += 1
        if fo:
            need += 12 + fo
            ndg += 1
        fits = need <= Packet.MAXSIZE and ndg <= 15
        if abs(need - Packet.MAXSIZE) <= 3:
            res.count(f"frame_size_boundary[{need - Packet.MAXSIZE:+d}]")
        if ok and not fits:
            res.violation("unexplained:oversized-group-accepted",
                          f"group needs {need} bytes / {ndg} datagrams but "
                          f"was accepted", case=case)
            return None
        if not ok:
            if fits:
                res.violation("unexplained:fitting-group-rejected",
                              f"group needs {need} bytes / {ndg} datagrams "
                              f"but raised OverflowError", case=case)
                return None
            continue
        if not sg.packet.data:
            res.count("groups_without_process_data")
            continue       # zero-datagram frame: outside the statement
        frame = sg.packet.assemble(77)
        try:
            length, typ, dgs, pad = frames.parse(frame)
        except frames.FrameError as ex:
            res.violation("unexplained:malformed-cyclic-frame", str(ex),
                          case=case)
            return None
        regions = []
        for i in members:
            d = case["terms"][i]
            t = ts[i]
            si, so = expected_sizes(d, d["rw"])
            for sm, size in ((SyncManager.IN, si), (SyncManager.OUT, so)):
                has = sm in sg.pdo_assign.get(t, {})
                if size == 0:
                    # nothing to reserve: an empty region lies anywhere
                    res.count("declared_sizes_of_zero")
                    continue
                if (size is not None) != has:
                    res.violation(
                        "unexplained:region-presence",
                        f"{t.name} {sm.name}: size {size}, assigned {has}",
                        case=case)
                    return None
                if size is None:
                    continue
                start = sg.pdo_assign[t][sm]
                regions.append((start, start + size, t.name, sm.name))
                # the datagram that transports it
                host = [g for g in dgs if g.data_pos <= start and
                        start + size <= g.wkc_pos]
                if not host:
                    res.violation(
                        "unexplained:region-outside-datagram",
                        f"{t.name} {sm.name} region [{start},{start + size}) "
                        f"is not inside any datagram's data "
                        f"{[(g.data_pos, g.wkc_pos) for g in dgs]}",
                        case=case)
                    return None
                g = host[0]
                fm = sg.fmmu_maps.get(t, {}).get(sm)
                logical = g.cmd in (10, 11, 12)
                if logical:
                    want_cmd = 10 if sm is SyncManager.IN else 11
                    if g.cmd != want_cmd:
                        res.violation("unexplained:wrong-logical-command",
                                      f"{t.name} {sm.name} in cmd {g.cmd}",
                                      case=case)
                        return None
                    la = g.addr[0] + (start - g.data_pos)
                    if fm != la:
                        res.violation(
                            "unexplained:fmmu-address",
                            f"{t.name} {sm.name}: fmmu_maps says "
                            f"{fm}, region is at logical {la:#x}",
                            case=case)
                        return None
                else:
                    want = (4, t.position, t.pdo_in_off) \
                        if sm is SyncManager.IN else \
                        (5, t.position, t.pdo_out_off)
                    if (g.cmd, g.addr[0], g.addr[1]) != want or \
                            g.data_pos != start:
                        res.violation(
                            "unexplained:direct-datagram",
                            f"{t.name} {sm.name}: datagram "
                            f"{(g.cmd, g.addr)} at {g.data_pos}, expected "
                            f"{want} at {start}", case=case)
                        return None
                    if fm is not None:
                        res.violation("unexplained:fmmu-for-direct",
                                      f"{t.name} has an fmmu map", case=case)
                        return None
        regions.sort()
        for x in range(1, len(regions)):
            if regions[x][0] < regions[x - 1][1]:
                res.violation("unexplained:regions-overlap",
                              f"{regions[x - 1]} and {regions[x]}",
                              case=case)
                return None
        res.count("regions_checked", len(regions))
        for g in dgs:
            if g.cmd in (10, 11, 12):
                windows.append((g.addr[0], g.addr[0] + g.length, gi))
        groups.append((sg, members))
    windows.sort()
    for x in range(1, len(windows)):
        if windows[x][0] < windows[x - 1][1]:
            res.violation("unexplained:logical-windows-overlap",
                          f"{windows[x - 1]} and {windows[x]}", case=case)
            return None
    res.count("logical_windows", len(windows))
    return groups, ts


def dynamic(case, res):
    """real map_fmmu over the simulated bus, one cycle of data"""
    sims = []
    for d in case["terms"]:
        s = bus.SimTerminal(f"T{d['pos']}", station=d["pos"])
        pat = bytes(((d["pos"] * 37 + k * 11) & 0xff) or 1
                    for k in range(max(d["isz"], 1)))
        s.mem[0x1100:0x1100 + d["isz"]] = pat[:d["isz"]]
        sims.append(s)
    b = bus.Bus(sims)
    out = {}

    async def main(loop):
        ec = SimpleEtherCat("vf")
        bus.attach(ec, loop, b)
        ts = build(case, ec)
        for gi, members in enumerate(case["groups"]):
            if any(case["terms"][i]["aero"] for i in members):
                continue
            devs = []
            for i in members:
                d = case["terms"][i]
                a = PacketVar(ts[i], SyncManager.IN, 0, "B")
                bb = PacketVar(ts[i], SyncManager.OUT, 0, "B") \
                    if d["rw"] else None
                devs.append(Dev(a, bb))
            sg = SyncGroup(ec, devs)
            restart = (case["terms"][members[0]]["pos"] + gi) % 3 == 0
            if restart:
                # the group ran before with another configuration of one of
                # its terminals (process data size changed in between, e.g.
                # another PDO assignment) and is started again: the layout
                # must follow the terminals as they are now
                old_sz = ts[members[0]].pdo_in_sz
                ts[members[0]].pdo_in_sz = old_sz + 4
                try:
                    sg.allocate()
                except OverflowError:
                    pass
                ts[members[0]].pdo_in_sz = old_sz
                out.setdefault("restarted", []).append(gi)
            try:
                sg.allocate()
            except OverflowError:
                continue
            if not sg.packet.data:
                continue
            frame = bytearray(sg.packet.assemble(99))
            # unique output pattern per terminal
            for i in members:
                d = case["terms"][i]
                t = ts[i]
                if SyncManager.OUT in sg.pdo_assign[t]:
                    st = sg.pdo_assign[t][SyncManager.OUT]
                    frame[st:st + d["osz"]] = bytes(
                        ((d["pos"] * 53 + k * 7) & 0xff) or 2
                        for k in range(d["osz"]))
            async with sg.map_fmmu():
                resp = b.process(bytes(frame))
            out[gi] = (sg, members, ts, bytes(frame), resp)
    aio.run(main)
    res.count("groups_allocated_again_after_a_size_change",
              len(out.pop("restarted", [])))
    for gi, (sg, members, ts, frame, resp) in out.items():
        for i in members:
            d = case["terms"][i]
            t = ts[i]
            sim = sims[i]
            if SyncManager.IN in sg.pdo_assign[t] and d["isz"]:
                st = sg.pdo_assign[t][SyncManager.IN]
                want = bytes(sim.mem[0x1100:0x1100 + d["isz"]])
                res.count("dynamic_input_regions")
                if resp[st:st + d["isz"]] != want:
                    res.violation(
                        "unexplained:dynamic-input",
                        f"{t.name}: input RAM pattern {want[:8].hex()} did "
                        f"not land in its region (found "
                        f"{resp[st:st + d['isz']][:8].hex()})", case=case)
                    return
            if SyncManager.OUT in sg.pdo_assign[t] and d["osz"]:
                st = sg.pdo_assign[t][SyncManager.OUT]
                want = frame[st:st + d["osz"]]
                res.count("dynamic_output_regions")
                if bytes(sim.mem[0x1000:0x1000 + d["osz"]]) != want:
                    res.violation(
                        "unexplained:dynamic-output",
                        f"{t.name}: output region {want[:8].hex()} did not "
                        f"reach its output RAM "
                        f"({bytes(sim.mem[0x1000:0x1008]).hex()})",
                        case=case)
                    return


def sii_image(isz, osz):
    """a minimal SII image whose sync-manager category declares process
    data outputs (SM2) and inputs (SM3)"""
    img = bytearray(b"\0" * 16) + struct.pack("<IIII", 2, 0x4321, 1, 7)
    img += bytes(128 - len(img))
    sm = struct.pack("<HHBBBB", 0x1000, osz, 0x24, 0, 1, 3) + \
        struct.pack("<HHBBBB", 0x1100, isz, 0x20, 0, 1, 4)
    img += struct.pack("<HH", 41, len(sm) // 2) + sm
    img += b"\xff" * 24
    return bytes(img)


def session_leg(res, rng):
    """two sessions on one segment. Session 1: a master initialises all
    terminals (the real Terminal.initialize), maps a group and is torn down
    in the middle of operation (mappings ended by an exception: nothing
    switches the FMMUs off). Session 2: a new master initialises the
    terminals again, possibly connects a second time, runs one or two groups
    over other subsets; one cycle is exchanged per group. Oracle: inputs
    land in their regions, output RAM of every terminal holds exactly what
    the group that writes it sent - and nothing at all if nobody writes it."""
    from ebpfcat.ebpfcat import EBPFTerminal
    from ebpfcat.ethercat import Terminal

    class SessTerminal(EBPFTerminal):
        """process data sizes come from the SII sync managers alone (the
        terminal models have no CoE dictionary)"""
        async def apply_eeprom(self):
            await Terminal.apply_eeprom(self)
    n = rng.randint(2, 4)
    geo = [dict(pos=30 + i, isz=rng.choice([2, 4, 6]),
                osz=rng.choice([2, 4, 8])) for i in range(n)]
    sims = [bus.SimTerminal(f"T{g['pos']}", station=0,
                            eeprom=sii_image(g["isz"], g["osz"]))
            for g in geo]
    b = bus.Bus(sims)
    first = sorted(rng.sample(range(n), rng.randint(1, n)))
    rest = [sorted(rng.sample(range(n), rng.randint(1, n)))]
    if rng.random() < 0.5:
        rest.append(sorted(rng.sample(range(n), rng.randint(1, n))))
    rw2 = [{i: rng.random() < 0.6 for i in g} for g in rest]
    reconnect = rng.random() < 0.5
    desc = dict(session=True, terminals=geo, first_group=first,
                second_session_groups=rest,
                written=[sorted(k for k, v in r.items() if v) for r in rw2],
                reconnect_before_last_group=reconnect)
    log = []

    class Boom(Exception):
        pass

    async def connect(ec, loop):
        async def cde(factory, **kw):
            proto = factory()
            tr = bus.FakeTransport(loop, b, proto)
            proto.connection_made(tr)
            return tr, proto
        loop.create_datagram_endpoint = cde
        await ec.connect()

    async def init_all(ec):
        ts = []
        for i, g in enumerate(geo):
            t = SessTerminal(ec)
            t.name = f"T{g['pos']}"
            t.use_fmmu = True
            t.pdos = {}
            await t.initialize(-i, g["pos"])
            ts.append(t)
        return ts

    def group(ec, ts, members, rw):
        devs = []
        for i in members:
            a = PacketVar(ts[i], SyncManager.IN, 0, "B")
            bb = PacketVar(ts[i], SyncManager.OUT, 0, "B") \
                if rw.get(i) else None
            devs.append(Dev(a, bb))
        sg = SyncGroup(ec, devs)
        sg.allocate()
        return sg

    async def main(loop):
        ec1 = SimpleEtherCat("vf")
        await connect(ec1, loop)
        ts1 = await init_all(ec1)
        sg1 = group(ec1, ts1, first, {i: True for i in first})
        try:
            async with sg1.map_fmmu():
                b.process(bytes(sg1.packet.assemble(5)))
                raise Boom()
        except Boom:
            pass
        # ---- a new program takes over the segment
        ec2 = SimpleEtherCat("vf")
        await connect(ec2, loop)
        ts2 = await init_all(ec2)
        sgs = []
        async with AsyncExitStack() as stack:
            for k, (members, rw) in enumerate(zip(rest, rw2)):
                if reconnect and k == len(rest) - 1:
                    await connect(ec2, loop)
                sg = group(ec2, ts2, members, rw)
                await stack.enter_async_context(sg.map_fmmu())
                sgs.append((sg, members, rw))
            for s_ in sims:
                s_.mem[0x1000:0x1010] = bytes(16)
            for k, (sg, members, rw) in enumerate(sgs):
                frame = bytearray(sg.packet.assemble(7))
                sent = {}
                for i in members:
                    if rw.get(i):
                        st = sg.pdo_assign[ts2[i]][SyncManager.OUT]
                        pat = bytes(((geo[i]["pos"] * 53 + k * 29 + j * 7)
                                     & 0xff) or 3
                                    for j in range(geo[i]["osz"]))
                        frame[st:st + len(pat)] = pat
                        sent[i] = pat
                for i in members:
                    sims[i].mem[0x1100:0x1100 + geo[i]["isz"]] = bytes(
                        ((geo[i]["pos"] * 37 + k * 5 + j * 11) & 0xff) or 1
                        for j in range(geo[i]["isz"]))
                resp = b.process(bytes(frame))
                outram = [bytes(s_.mem[0x1000:0x1000 + g["osz"]])
                          for s_, g in zip(sims, geo)]
                inreg = {i: (bytes(resp[sg.pdo_assign[ts2[i]][SyncManager.IN]:
                                        sg.pdo_assign[ts2[i]][SyncManager.IN]
                                        + geo[i]["isz"]]),
                             bytes(sims[i].mem[0x1100:0x1100
                                               + geo[i]["isz"]]))
                         for i in members}
                log.append(dict(k=k, sent=sent, outram=outram, inreg=inreg,
                                windows=[dict(v) for v in
                                         sg.fmmu_maps.values()]))
                for s_ in sims:
                    s_.mem[0x1000:0x1010] = bytes(16)
    from contextlib import AsyncExitStack
    try:
        aio.run(main, max_iterations=400000)
    except aio.WallClock:
        res.inconc("session leg: wall-clock watchdog")
        return
    except Exception as ex:
        res.violation("unexplained:session-raised",
                      f"{type(ex).__name__}: {str(ex)[:200]}", case=desc)
        return
    res.case(desc, nontrivial=True)
    res.count("sessions")
    for rec in log:
        res.count("session_cycles")
        for i, g in enumerate(geo):
            want = rec["sent"].get(i, bytes(g["osz"]))
            res.count("session_output_rams_checked")
            if rec["outram"][i] != want:
                res.violation(
                    "unexplained:session-output",
                    f"group {rec['k']} of the second session: the outputs of "
                    f"{sims[i].name} hold {rec['outram'][i].hex()}, "
                    + (f"the group sent it {want.hex()}" if i in rec["sent"]
                       else "although this group does not write them")
                    + f" (logical windows {rec['windows']})", case=desc)
                return
        for i, (got, ram) in rec["inreg"].items():
            res.count("session_input_regions_checked")
            if got != ram:
                res.violation(
                    "unexplained:session-input",
                    f"group {rec['k']}: input RAM {ram.hex()} of "
                    f"{sims[i].name} did not land in its region "
                    f"({got.hex()})", case=desc)
                return


def group_windows(sg):
    length, typ, dgs, pad = frames.parse(sg.packet.assemble(77))
    return [(g.addr[0], g.addr[0] + g.length) for g in dgs
            if g.cmd in (10, 11, 12)]


def longrun_leg(res, rseed, n, master):
    """a master that lives long: one group stays allocated while another is
    allocated again and again (every start draws a new window); however
    many windows the master has handed out, the new one is disjoint from
    those of the group that is still there"""
    import shutil
    import tempfile
    from ebpfcat.ebpfcat import ParallelEtherCat
    from ebpfcat.lock import FMMULock
    tmpdir = tempfile.mkdtemp(prefix="vf-c18-")
    rng = random.Random(rseed)
    try:
        if master == "parallel":
            ec = ParallelEtherCat("vf")
            ec.fmmu_lock_file = FMMULock(tmpdir + "/vf.fmmu")
        else:
            ec = SimpleEtherCat("vf")
        case = dict(terms=[dict(pos=p_, isz=rng.randint(1, 30),
                                osz=rng.randint(1, 30), rw=True, fmmu=True,
                                aero=False) for p_ in (3, 4, 5)],
                    master=master, allocations=n, rseed=rseed)
        ts = build(case, ec)
        sgs = [SyncGroup(ec, [Dev(PacketVar(t, SyncManager.IN, 0, "B"),
                                  PacketVar(t, SyncManager.OUT, 0, "B"))])
               for t in ts]
        early = rng.randint(0, 5)
        for _ in range(early):
            sgs[2].allocate()
        sgs[0].allocate()
        live = group_windows(sgs[0])
        res.case(case)
        for k in range(n):
            sg = sgs[1 + (k % 2 if k < 20 else 0)]
            sg.allocate()
            res.count("windows_drawn_by_a_long_lived_master")
            if k + early + 1 >= 1023:
                res.count("windows_drawn_beyond_the_1023rd")
            for lo, hi in group_windows(sg):
                for llo, lhi in live:
                    if lo < lhi and llo < hi:
                        res.violation(
                            "unexplained:logical-windows-overlap-long-run",
                            f"{master} master: window [{lo:#x}, {hi:#x}) of "
                            f"allocation {k + early + 2} overlaps "
                            f"[{llo:#x}, {lhi:#x}) of the first group, "
                            f"which is still allocated", case=case)
                        return
        if master == "parallel":
            ec.fmmu_lock_file.remove()
    finally:
        shutil.rmtree(tmpdir, ignore_errors=True)


def run_shard(params):
    res = Result()
    rng = random.Random(params["seed"] * 100313 + params["shard"])
    if params["shard"] in (0, 1):
        longrun_leg(res, rng.getrandbits(32), 1100 if params["n"] <= 150 else 5000,
                    ["parallel", "simple"][params["shard"]])
    for _ in range(6 if params["n"] <= 150 else 40):
        session_leg(res, rng)
    for i in range(params["n"]):
        case = gen_case(rng)
        with kern.session() as sess:
            r = check_case(case, res, sess)
        if r is not None and i % 2 == 0:
            try:
                dynamic(case, res)
            except aio.WallClock:
                res.inconc("dynamic leg watchdog")
            except Exception as ex:
                res.violation("unexplained:dynamic-raised",
                              f"{type(ex).__name__}: {str(ex)[:200]}",
                              case=case)
        if r is not None and len(res.samples) < 2:
            res.sample(dict(terms=case["terms"][:4], groups=case["groups"]))
    return res


def finalize(res, tier, seed):
    c = res.counters
    for k in ("groups_allocated", "groups_rejected", "regions_checked",
              "dynamic_input_regions", "dynamic_output_regions",
              "logical_windows", "frame_size_boundary[+0]",
              "frame_size_boundary[+1]", "frame_size_boundary[+2]",
              "frame_size_boundary[-1]"):
        if not c.get(k):
            res.inconc(f"{k}: never observed")


def replay(v):
    res = Result()
    if "master" in v["case"]:
        longrun_leg(res, v["case"]["rseed"], v["case"]["allocations"],
                    v["case"]["master"])
        return res
    with kern.session() as sess:
        check_case(v["case"], res, sess)
    return res
