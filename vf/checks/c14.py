"""C14 state changes walk the EtherCAT state machine in order"""
import asyncio
import itertools

from .. import aio, bus, use_repo
from ..core import Result
use_repo()

from ebpfcat.ethercat import (  # noqa: E402
    EtherCat, EtherCatError, MachineState, Terminal)

PROPERTY = "C14"
LEVEL = "exploration"
RULE = ("ALL terminal behaviours within the bound: start state in {INIT, "
        "PRE-OP, SAFE-OP, OP} x error flag x target in {PRE-OP, SAFE-OP, OP} x "
        "latency of each upward transition and of the acknowledge step in "
        "0..k polls (k=1 quick, 2 thorough) x an error appearing at status "
        "poll j (j = 2..7) or never x other bits of the status word set "
        "(0x20, 0xff20), driven through the full real stack "
        "(Terminal.to_operational -> roundtrip -> sendloop -> simulated bus); "
        "plus 3..31 terminals with random behaviours brought up concurrently "
        "through one master; plus single transitions that take 999, 1000, "
        "1001, 2500 (thorough: up to 65537) status polls; the ordered AL-control writes and AL-status reads seen by the "
        "terminal model and the call's outcome are checked by a trace "
        "automaton of the statement. a case = one behaviour; non-trivial = "
        "at least one state request or an error")
ASSUMPTIONS = ["the terminal model refuses skipped states like a conformant "
               "slave (error flag, status code 0x11)",
               "the wait-for-report rule is applied between the requested "
               "states above the start state, not to the acknowledge step"]
MIN_EVALUATIONS = {"quick": 1000, "thorough": 5000}
NAMES = {1: "INIT", 2: "PREOP", 4: "SAFEOP", 8: "OP"}


def plan(tier, seed):
    k = 1 if tier == "quick" else 2
    shards = []
    for start in (1, 2, 4, 8):
        for err in (False, True):
            for target in (2, 4, 8):
                shards.append(dict(start=start, err=err, target=target, k=k))
                if err:
                    # the error present at the start carries the status code
                    # that a later error will carry again
                    shards.append(dict(start=start, err=err, target=target,
                                       k=min(k, 1), code0=0x1b))
    # the status word's other bits (0x20 device identification loaded,
    # reserved upper bits) set, no error
    for start in (1, 2, 4, 8):
        for target in (2, 4, 8):
            for extra in (0x20, 0xff20):
                shards.append(dict(start=start, err=False, target=target,
                                   k=min(k, 1), extra=extra))
    # one transition that takes a thousand polls and more: however long the
    # terminal takes, the next state is requested only after it reported
    for target in (2, 4, 8):
        shards.append(dict(slow=True, target=target,
                           polls=[999, 1000, 1001, 2500] if tier == "quick"
                           else [999, 1000, 1001, 2500, 4096, 10001, 65537]))
    for i in range(4):
        shards.append(dict(many=True, seed=seed * 16 + i,
                           count=6 if tier == "quick" else 60))
    return shards


def run_one(start, err, target, lats, acklat, errpoll, extra=0,
            timeout=50, code0=0):
    """returns (events, outcome) outcome = ('ret', value) | ('exc', repr)"""
    t = bus.SimTerminal("T", station=77)
    t.al_extra = extra
    t.al_state = start
    t.al_error = err
    if err:
        t.al_code = code0
    latmap = {(1, 2): lats[0], (2, 4): lats[1], (4, 8): lats[2]}
    t.al_latency = lambda frm, to: latmap.get((frm, to),
                                              acklat if to == 1 else 0)
    t.al_error_at_poll = errpoll
    b = bus.Bus([t])

    async def main(loop):
        ec = EtherCat("vf")
        bus.attach(ec, loop, b)
        term = Terminal(ec)
        term.position = 77
        try:
            r = await asyncio.wait_for(
                term.to_operational(MachineState(target)), timeout)
            return ("ret", repr(r))
        except EtherCatError as ex:
            return ("raised", str(ex)[:80])
        except asyncio.TimeoutError:
            return ("timeout", "")
    out = aio.run(main)
    evs = [e for e in t.events if e[0] in ("al_control", "al_status_read",
                                           "al_refused")]
    return evs, out, t


def automaton(evs, out, target):
    """None if the trace satisfies the statement, else a description"""
    ORDER = [1, 2, 4, 8]
    if not evs or evs[0][0] != "al_status_read":
        return "no initial status read"
    v0 = evs[0][1]
    start = v0 & 0xf
    i = 1
    acked = False
    if v0 & 0x10:
        if len(evs) < 2 or evs[1] != ("al_control", 0x11):
            return f"error reported but first write is {evs[1:2]}"
        start = 1
        acked = True
        i = 2
    if start not in ORDER:
        return None
    expected = [s for s in ORDER
                if ORDER.index(s) > ORDER.index(start)
                and ORDER.index(s) <= ORDER.index(target)]
    reported = start
    for req in expected:
        if i >= len(evs):
            return f"state {NAMES[req]} was never requested"
        if evs[i][0] == "al_status_read":
            # reads while nothing is pending are harmless
            while i < len(evs) and evs[i][0] == "al_status_read":
                if evs[i][1] & 0x10:
                    return None if out[0] == "raised" else \
                        "error reported but no EtherCatError"
                i += 1
            if i >= len(evs):
                return f"state {NAMES[req]} was never requested"
        if evs[i][0] == "al_refused":
            return f"terminal refused a request: {evs[i]}"
        if evs[i] != ("al_control", req):
            return (f"expected request of {NAMES[req]}, saw {evs[i]} "
                    f"(last reported {NAMES.get(reported, reported)})")
        i += 1
        got = False
        while i < len(evs):
            e = evs[i]
            if e[0] == "al_refused":
                return f"terminal refused a request: {e}"
            if e[0] == "al_control":
                return (f"request {e[1]:#x} written before "
                        f"{NAMES[req]} was reported")
            i += 1
            if e[1] & 0x10:
                if out[0] != "raised":
                    return ("terminal reported an error while changing "
                            f"state but the call {out}")
                if i != len(evs):
                    return "activity after the error was reported"
                return None
            if e[1] & 0xf == req:
                got = True
                reported = req
                break
        if not got:
            return f"returned before {NAMES[req]} was reported ({out})"
    for e in evs[i:]:
        if e[0] == "al_control":
            return f"extra request {e[1]:#x} after reaching the target"
        if e[0] == "al_refused":
            return f"terminal refused a request: {e}"
    if out[0] != "ret":
        return f"conformant walk but the call {out}"
    return None


def run_many(rng, n):
    """n terminals brought up concurrently through one master (as a sync
    group with many terminals does): each terminal's own trace must satisfy
    the automaton whatever the others do"""
    import random as _r
    ts = []
    for i in range(n):
        t = bus.SimTerminal(f"T{i}", station=1000 + i)
        t.al_state = rng.choice([1, 1, 2, 4, 8])
        t.al_error = rng.random() < 0.15
        lat = {(1, 2): rng.randint(0, 3), (2, 4): rng.randint(0, 3),
               (4, 8): rng.randint(0, 3)}
        ack = rng.randint(0, 2)
        t.al_latency = (lambda lat, ack: lambda frm, to: lat.get(
            (frm, to), ack if to == 1 else 0))(lat, ack)
        ts.append(t)
    targets = [rng.choice([2, 4, 8, 8]) for _ in range(n)]
    b = bus.Bus(ts)

    async def main(loop):
        ec = EtherCat("vf")
        bus.attach(ec, loop, b)

        async def up(i):
            term = Terminal(ec)
            term.position = 1000 + i
            try:
                r = await asyncio.wait_for(
                    term.to_operational(MachineState(targets[i])), 50)
                return ("ret", repr(r))
            except EtherCatError as ex:
                return ("raised", str(ex)[:80])
            except asyncio.TimeoutError:
                return ("timeout", "")
        return await asyncio.gather(*[up(i) for i in range(n)])
    outs = aio.run(main)
    return ts, targets, outs


def many_leg(params, res):
    import random
    rng = random.Random(params["seed"] * 7 + 3)
    for _ in range(params["count"]):
        n = rng.choice([3, 14, 15, 16, 17, 20, 31])
        ts, targets, outs = run_many(rng, n)
        res.count("concurrent_bring_ups")
        res.count("concurrent_terminals", n)
        for i, (t, target, out) in enumerate(zip(ts, targets, outs)):
            evs = [e for e in t.events
                   if e[0] in ("al_control", "al_status_read", "al_refused")]
            desc = dict(concurrent_terminals=n, terminal=i,
                        target=NAMES[target])
            res.case([desc, len(evs), params["seed"], _],
                     nontrivial=True)
            res.count("outcome:" + out[0])
            why = automaton(evs, out, target)
            if why:
                res.violation("unexplained:concurrent-" + why.split(" ")[0],
                              f"{why} [{desc}]", case=desc,
                              witness=dict(events=evs[:30], outcome=out))
                return


def overlap_leg(params, res):
    """two callers on ONE Terminal object at the same time, with different
    targets (a service task wants PRE-OP while a sync group that contains
    the terminal starts and wants OP), and two masters (two EtherCAT loops)
    in one process whose terminals have the same station addresses.  Every
    call returns only once its terminal has reported a state at or above
    the call's target; nothing above the highest target is requested; the
    terminals of the other loop see nothing of it."""
    import random
    rng = random.Random(params["seed"] * 11 + 5)
    for _ in range(params["count"] * 4):
        two_loops = rng.random() < 0.4
        nterm = 2 if two_loops else 1
        ts = []
        for i in range(nterm):
            t = bus.SimTerminal(f"T{i}", station=77)
            t.al_state = rng.choice([1, 1, 1, 2])
            lat = {(1, 2): rng.randint(0, 4), (2, 4): rng.randint(0, 4),
                   (4, 8): rng.randint(0, 4)}
            t.al_latency = (lambda lat: lambda frm, to: lat.get(
                (frm, to), 0))(lat)
            ts.append(t)
        buses = [bus.Bus([t]) for t in ts]
        calls = []
        for i in range(2):
            calls.append(dict(term=i % nterm,
                              target=rng.choice([2, 4, 8]),
                              after=rng.randint(0, 8)))
        if not two_loops:
            calls.sort(key=lambda c: c["after"])
        desc = dict(two_loops=two_loops, calls=calls,
                    start=[t.al_state for t in ts])
        returned = {}

        async def main(loop):
            ecs = []
            for b in buses:
                ec = EtherCat("vf")
                await bus.connect(ec, loop, b)
                ecs.append(ec)
            terms = []
            for i in range(nterm):
                term = Terminal(ecs[i])
                term.position = 77
                terms.append(term)

            async def call(k, c):
                for _ in range(c["after"]):
                    await asyncio.sleep(0)
                try:
                    await asyncio.wait_for(terms[c["term"]].to_operational(
                        MachineState(c["target"])), 50)
                    returned[k] = ("ret", len(ts[c["term"]].events))
                except EtherCatError as ex:
                    returned[k] = ("raised " + str(ex)[:60],
                                   len(ts[c["term"]].events))
                except asyncio.TimeoutError:
                    returned[k] = ("timeout", len(ts[c["term"]].events))
            await asyncio.gather(*[call(k, c) for k, c in enumerate(calls)])
        try:
            aio.run(main)
        except aio.WallClock:
            res.inconc("overlap leg: watchdog")
            continue
        except Exception as ex:
            res.case([desc, "raised"], nontrivial=True)
            res.violation("unexplained:overlapping-calls-raised",
                          f"{type(ex).__name__}: {str(ex)[:200]}", case=desc)
            return
        res.case([desc], nontrivial=True)
        res.count("overlapping_call_pairs[" + (
            "two loops" if two_loops else "one terminal") + "]")
        why = None
        for k, c in enumerate(calls):
            out, n = returned.get(k, ("never returned", 0))
            evs = ts[c["term"]].events[:n]
            reads = [e[1] for e in evs if e[0] == "al_status_read"]
            if out != "ret":
                why = f"call {k} (target {NAMES[c['target']]}) {out}"
            elif not reads or reads[-1] & 0xf < c["target"]:
                why = (f"call {k} returned when the terminal had last "
                       f"reported {NAMES.get(reads[-1] & 0xf) if reads else None}"
                       f", target {NAMES[c['target']]}")
            if why:
                break
        if not why:
            for i, t in enumerate(ts):
                top = max(c["target"] for c in calls if c["term"] == i)
                reqs = [e[1] for e in t.events if e[0] == "al_control"]
                if any(r & 0xf > top for r in reqs):
                    why = (f"terminal {i}: requests {reqs}, highest target "
                           f"{NAMES[top]}")
                if any(e[0] == "al_refused" for e in t.events):
                    why = f"terminal {i} refused a request"
        if why:
            res.violation("unexplained:overlapping-calls", f"{why} [{desc}]",
                          case=desc, witness=dict(
                              events=[t.events[:40] for t in ts]))
            return


def slow_leg(params, res):
    target = params["target"]
    ORDER = [1, 2, 4, 8]
    for start in ORDER:
        if ORDER.index(start) >= ORDER.index(target):
            continue
        steps = [i for i in range(3)
                 if ORDER.index(start) <= i < ORDER.index(target)]
        for which in steps:
            for n in params["polls"]:
                lats = [0, 0, 0]
                lats[which] = n
                evs, out, t = run_one(start, False, target, lats, 0, None,
                                      timeout=1e7)
                desc = dict(start=NAMES[start], target=NAMES[target],
                            latencies=lats, slow=True)
                res.case(desc)
                res.count("al_events", len(evs))
                res.count("outcome:" + out[0])
                res.count("behaviours_with_a_transition_of_1000_polls_or_more"
                          if n >= 1000 else
                          "behaviours_with_a_transition_of_999_polls")
                why = automaton(evs, out, target)
                if why:
                    short = [e for j, e in enumerate(evs)
                             if e[0] != "al_status_read" or j < 3
                             or evs[j - 1][0] != "al_status_read"
                             or j + 1 == len(evs)
                             or evs[j + 1][0] != "al_status_read"]
                    res.violation(
                        "unexplained:" + why.split(" ")[0] + "-slow",
                        why + f" [{desc}]", case=desc,
                        witness=dict(events_without_repeated_reads=short,
                                     outcome=out))


def run_shard(params):
    res = Result()
    if params.get("many"):
        many_leg(params, res)
        overlap_leg(params, res)
        return res
    if params.get("slow"):
        slow_leg(params, res)
        return res
    k = params["k"]
    start, err, target = params["start"], params["err"], params["target"]
    for lats in itertools.product(range(k + 1), repeat=3):
        for acklat in (range(k + 2) if err else [0]):
            for errpoll in [None, 2, 3, 4, 5, 6, 7]:
                evs, out, t = run_one(start, err, target, lats, acklat,
                                      errpoll, params.get("extra", 0),
                                      code0=params.get("code0", 0))
                if params.get("code0"):
                    res.count("behaviours_whose_errors_carry_the_same_code")
                if params.get("extra"):
                    res.count("behaviours_with_other_status_bits_set")
                desc = dict(start=NAMES[start], error=err,
                            other_status_bits=params.get("extra", 0),
                            first_error_code=params.get("code0", 0),
                            target=NAMES[target], latencies=lats,
                            ack_latency=acklat, error_at_poll=errpoll)
                nreq = sum(1 for e in evs if e[0] == "al_control")
                res.case(desc, nontrivial=nreq > 0 or out[0] != "ret")
                res.count("al_events", len(evs))
                res.count("outcome:" + out[0])
                why = automaton(evs, out, target)
                if why:
                    res.violation(
                        "unexplained:" + why.split(" ")[0] + "-" +
                        ("err" if err else "ok"), why + f" [{desc}]",
                        case=desc, witness=dict(events=evs, outcome=out))
                elif len(res.samples) < 2 and nreq >= 2:
                    res.sample(dict(desc, events=evs, outcome=out))
    res.info["exhaustive"] = True
    return res


def finalize(res, tier, seed):
    c = res.counters
    if not c.get("outcome:raised") or not c.get("outcome:ret"):
        res.inconc("one of the outcomes (return / EtherCatError) never seen")
    if c.get("outcome:timeout"):
        res.inconc(f"{c['outcome:timeout']} behaviours hit the virtual "
                   "timeout")


def replay(v):
    return Result()
