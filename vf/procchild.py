"""importable targets for spawned child processes"""
import time


def obedient_child(running, log_path=None):
    """stands in for ProcessSyncGroup.subprocess_run: cycles until the
    parent clears the shared running flag"""
    n = 0
    while running.value:
        time.sleep(0.002)
        n += 1
        if n > 5000:      # 10 s: the parent forgot us
            break
    if log_path:
        with open(log_path, "w") as f:
            f.write(f"stopped after {n} cycles running={running.value}\n")


# ---------------------------------------------------------------------------
# C29: device classes that a spawned child can re-import by name
# ---------------------------------------------------------------------------
C29_FORMATS = ["B", "H", "I", "Q", "b", "h", "i", "q", "x", "x", "IH", "QB",
               "HB", "3H"]


def _c29_formats(k):
    import random
    rng = random.Random(1000 + k)
    return [rng.choice(C29_FORMATS) for _ in range(rng.randint(1, 6))]


def _make_c29_classes():
    import sys
    sys.path.insert(0, __import__("os").environ.get("EBPFCAT_REPO", "/repo"))
    from ebpfcat.ebpfcat import Device, DeviceVar
    out = []
    for k in range(6):
        ns = {f"v{j}": DeviceVar(f, write=True)
              for j, f in enumerate(_c29_formats(k))}
        ns["__module__"] = __name__
        ns["__qualname__"] = f"C29Dev{k}"
        cls = type(f"C29Dev{k}", (Device,), ns)
        out.append(cls)
        globals()[f"C29Dev{k}"] = cls
    return out


C29_CLASSES = None


def c29_classes():
    global C29_CLASSES
    if C29_CLASSES is None:
        C29_CLASSES = _make_c29_classes()
    return C29_CLASSES


def __getattr__(name):
    # lets pickle resolve vf.procchild.C29DevK in a fresh child
    if name.startswith("C29Dev"):
        c29_classes()
        return globals()[name]
    if name == "SimParallelEtherCat":
        return _make_sim_parallel()
    raise AttributeError(name)


# ---------------------------------------------------------------------------
# C24 (process kind): a ParallelEtherCat whose run() attaches the simulated
# bus inside the spawned child instead of touching lock files / XDP
# ---------------------------------------------------------------------------
def _make_sim_parallel():
    import sys
    sys.path.insert(0, __import__("os").environ.get("EBPFCAT_REPO", "/repo"))
    from contextlib import asynccontextmanager
    from ebpfcat.ebpfcat import ParallelEtherCat
    from ebpfcat.lock import MailboxLock

    class SimParallelEtherCat(ParallelEtherCat):
        sim_terms = None      # description of the simulated terminals
        report = None         # file the child writes what the bus saw
        ops = None            # shared counter of frames seen by the bus
        _next = 0x01000000

        def __getstate__(self):
            return (self.addr[0], self.sim_terms, self.report, self.ops)

        def __setstate__(self, st):
            self.__init__(st[0])
            self.sim_terms, self.report, self.ops = st[1:]

        def get_mbx_lock(self, no):
            return MailboxLock()

        def get_fmmu_addr(self):
            SimParallelEtherCat._next += 0x1000
            return SimParallelEtherCat._next

        @asynccontextmanager
        async def run(self):
            import asyncio
            import json
            import os
            from vf import bus, simgroup
            sims = simgroup.make_sims(self.sim_terms)
            b = bus.Bus(sims)
            bus.attach(self, asyncio.get_event_loop(), b)
            orig = self.datagram_received
            ops = self.ops

            def received(data, addr):
                if ops is not None:
                    with ops.get_lock():
                        ops.value += 1
                return orig(data, addr)
            self.datagram_received = received
            try:
                yield
            finally:
                rep = dict(al={s.name: [e[1] for e in s.events
                                        if e[0] == "al_control"]
                               for s in sims},
                           fmmu_active={s.name: [
                               i for i in range(s.nfmmu)
                               if s.mem[0x600 + 16 * i + 12] & 1]
                               for s in sims})
                with open(self.report + ".tmp", "w") as f:
                    json.dump(rep, f)
                os.replace(self.report + ".tmp", self.report)
    SimParallelEtherCat.__module__ = __name__
    SimParallelEtherCat.__qualname__ = "SimParallelEtherCat"
    globals()["SimParallelEtherCat"] = SimParallelEtherCat
    return SimParallelEtherCat


def c29_child(sg, conn):
    """runs in the spawned process: report what is visible, then write"""
    try:
        while True:
            msg = conn.recv()
            if msg[0] == "quit":
                break
            if msg[0] == "read":
                vals = []
                for d in sg.devices:
                    cls = type(d)
                    vals.append([getattr(d, n) for n in sorted(
                        k for k in cls.__dict__ if k.startswith("v"))])
                conn.send(("values", vals))
            elif msg[0] == "write":
                for d, row in zip(sg.devices, msg[1]):
                    cls = type(d)
                    names = sorted(k for k in cls.__dict__
                                   if k.startswith("v"))
                    for n, v in zip(names, row):
                        setattr(d, n, v)
                conn.send(("done",))
    except Exception as ex:
        import traceback
        conn.send(("error", f"{type(ex).__name__}: {ex}",
                   traceback.format_exc()[-600:]))
