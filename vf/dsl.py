"""program specs -> real ebpfcat DSL programs, and their reference semantics

A *spec* is plain JSON (replayable).  `build()` replays it against the real
descriptors / registers / operators of ebpfcat; `Ref` evaluates the same spec
over exact integers and Fractions, knowing nothing about registers, opcodes or
computation widths (it implements the property statements).

places:   "r3" (register, kind fixed per program: r sr w sw x)
          "v:name" (array-map variable)   "l:name" (stack variable)
trees:    ["p", place] | ["c", int] | ["f", "decimal string"]
          ["b", op, L, R] | ["neg", T] | ["abs", T]
conds:    ["cmp", op, L, R] | ["and", A, B] | ["or", A, B] | ["not", A]
          | ["truth", T] (with T:) | ["bit", place] (bit-field variable)
stmts:    ["set", place, T] | ["aug", op, place, T]
          | ["if", cond, [stmts], [else stmts] | None]
"""
import operator
import struct
from fractions import Fraction

from . import use_repo
use_repo()

from ebpfcat.arraymap import ArrayMap  # noqa: E402
from ebpfcat.ebpf import LocalVar  # noqa: E402
from ebpfcat.xdp import XDP  # noqa: E402

FB = 100000
REGKINDS = {"r": (8, False, False), "sr": (8, True, False),
            "w": (4, False, False), "sw": (4, True, False),
            "x": (8, True, True)}
OPS = {"+": operator.add, "-": operator.sub, "*": operator.mul,
       "//": operator.floordiv, "%": operator.mod, "&": operator.and_,
       "|": operator.or_, "^": operator.xor, "<<": operator.lshift,
       ">>": operator.rshift, "/": operator.truediv}
IOPS = {"+": operator.iadd, "-": operator.isub, "*": operator.imul,
        "//": operator.ifloordiv, "%": operator.imod, "&": operator.iand,
        "|": operator.ior, "^": operator.ixor, "<<": operator.ilshift,
        ">>": operator.irshift, "/": operator.itruediv}
CMPS = {"==": operator.eq, "!=": operator.ne, "<": operator.lt,
        "<=": operator.le, ">": operator.gt, ">=": operator.ge}
RING = {"+", "-", "*", "&", "|", "^", "<<"}


def fmt_info(fmt):
    """(size, signed, fixed) of a variable format"""
    if isinstance(fmt, (list, tuple)):
        return 1, False, False
    if fmt == "x":
        return 8, True, True
    return struct.calcsize(fmt), fmt[-1].islower(), False


def big_endian(fmt):
    """is the variable stored most significant byte first?"""
    return isinstance(fmt, str) and fmt[0] in ">!"


def to_raw(fmt, size, pattern):
    """logical bit pattern of a variable <-> the little-endian integer its
    bytes form in memory (an involution)"""
    if big_endian(fmt):
        return int.from_bytes((pattern & ((1 << (8 * size)) - 1)).to_bytes(
            size, "big"), "little")
    return pattern


class Spec:
    """decoded view of a spec dict"""

    def __init__(self, d):
        self.d = d
        self.regs = {int(n): k for n, k in d.get("regs", [])}
        self.vars = {n: (tuple(f) if isinstance(f, list) else f)
                     for n, f in d.get("vars", [])}
        self.locs = {n: (tuple(f) if isinstance(f, list) else f)
                     for n, f in d.get("locs", [])}
        self.stmts = d["stmts"]

    def info(self, place):
        if place[0] == "r":
            return REGKINDS[self.regs[int(place[1:])]]
        if place[0] == "v":
            return fmt_info(self.vars[place[2:]])
        return fmt_info(self.locs[place[2:]])

    def fmt(self, place):
        if place[0] == "v":
            return self.vars[place[2:]]
        if place[0] == "l":
            return self.locs[place[2:]]
        return None

    def places(self):
        return ([f"r{n}" for n in self.regs] + [f"v:{n}" for n in self.vars]
                + [f"l:{n}" for n in self.locs])


# ---------------------------------------------------------------------------
# building the real program
# ---------------------------------------------------------------------------

def _io_fmt(size, signed, fixed, fmt=None):
    if fixed:
        return "q"
    if isinstance(fmt, tuple):
        return "B"
    return {1: "B", 2: "H", 4: "I", 8: "Q"}[size]


class Built:
    def __init__(self, spec, cls, ebpf):
        self.spec = spec
        self.cls = cls
        self.ebpf = ebpf
        self.markers = []     # marker variable names in emission order
        self.stmt_outs = []   # (stmt path, place, out var name)
        self.final_outs = {}  # place -> out var name (regs and locals)
        self.ins = {}         # place -> input var name (regs and locals)

    def pos(self, name):
        return self.ebpf.__dict__[name]

    def raw(self, name, size):
        m = self.ebpf.__dict__["m"]
        p = self.pos(name)
        return int.from_bytes(m[p:p + size], "little")

    def poke(self, name, size, value):
        m = self.ebpf.__dict__["m"]
        p = self.pos(name)
        m[p:p + size] = (value & ((1 << (8 * size)) - 1)).to_bytes(
            size, "little")


def build(specd, extra_ns=None, base=XDP, prologue=None):
    """replay the spec against the real DSL; returns a Built (not loaded)"""
    spec = Spec(specd)
    ns = {"license": "GPL", "m": ArrayMap()}
    m = ns["m"]
    b = Built(spec, None, None)
    for n, kind in spec.regs.items():
        size, signed, fixed = REGKINDS[kind]
        ns[f"in_r{n}"] = m.globalVar("Q" if size == 8 else "I")
        ns[f"fin_r{n}"] = m.globalVar("Q" if size == 8 else "I")
        b.ins[f"r{n}"] = f"in_r{n}"
        b.final_outs[f"r{n}"] = f"fin_r{n}"
    for name, fmt in spec.vars.items():
        ns[name] = m.globalVar(fmt)
    for name, fmt in spec.locs.items():
        ns[name] = LocalVar(fmt)
        size, signed, fixed = fmt_info(fmt)
        io = "B" if isinstance(fmt, tuple) else (
            "q" if fixed else {1: "B", 2: "H", 4: "I", 8: "Q"}[size])
        ns[f"in_{name}"] = m.globalVar(io)
        ns[f"fin_{name}"] = m.globalVar(io)
        b.ins[f"l:{name}"] = f"in_{name}"
        b.final_outs[f"l:{name}"] = f"fin_{name}"

    # pre-scan statements for markers and per-statement outputs
    counter = [0]

    def scan(stmts, path):
        for i, s in enumerate(stmts):
            p = path + (i,)
            if s[0] in ("set", "aug"):
                place = s[1] if s[0] == "set" else s[2]
                if True:
                    size, signed, fixed = spec.info(place)
                    name = f"so{counter[0]}"
                    counter[0] += 1
                    ns[name] = m.globalVar(
                        {1: "B", 2: "H", 4: "I", 8: "Q"}[size])
                    b.stmt_outs.append((p, place, name))
            elif s[0] == "if":
                for tag in ("T", "E", "A"):
                    if tag == "E" and not s[3]:
                        continue     # no Else, or an Else that emits nothing
                    name = f"mk{counter[0]}{tag}"
                    counter[0] += 1
                    ns[name] = m.globalVar("B")
                    b.markers.append((p, tag, name))
                scan(s[2], p + ("T",))
                if s[3] is not None:
                    scan(s[3], p + ("E",))
    scan(spec.stmts, ())
    if extra_ns:
        ns.update(extra_ns)
    cls = type("VfProg", (base,), ns)
    e = cls()
    b.cls, b.ebpf = cls, e
    souts = {p: (pl, nm) for p, pl, nm in b.stmt_outs}
    marks = {(p, t): nm for p, t, nm in b.markers}

    # prologue: move inputs into registers and locals
    if prologue:
        prologue(e)
    for n, kind in spec.regs.items():
        arr = getattr(e, "r" if REGKINDS[kind][0] == 8 else "w")
        arr[n] = getattr(e, f"in_r{n}")
    for name, fmt in spec.locs.items():
        if isinstance(fmt, tuple):
            # bit field: write the whole byte (raw), through a byte view
            from ebpfcat.ebpf import Memory
            fa = cls.__dict__[name].fmt_addr(e)[1]
            e.mB[e.r10 + fa] = getattr(e, f"in_{name}")
        elif fmt == "x":
            fa = cls.__dict__[name].fmt_addr(e)[1]
            e.mq[e.r10 + fa] = getattr(e, f"in_{name}")
        else:
            fa = cls.__dict__[name].fmt_addr(e)[1]
            mm = {1: e.mB, 2: e.mH, 4: e.mI, 8: e.mQ}[fmt_info(fmt)[0]]
            mm[e.r10 + fa] = getattr(e, f"in_{name}")

    def leaf(place):
        if place[0] == "r":
            n = int(place[1:])
            return getattr(e, spec.regs[n])[n]
        return getattr(e, place[2:])

    def tree(t):
        k = t[0]
        if k == "p":
            return leaf(t[1])
        if k == "c":
            return t[1]
        if k == "f":
            return float(t[1])
        if k == "b":
            return OPS[t[1]](tree(t[2]), tree(t[3]))
        if k == "neg":
            return -tree(t[1])
        if k == "abs":
            return abs(tree(t[1]))
        raise ValueError(t)

    def cond(c):
        k = c[0]
        if k == "cmp":
            return CMPS[c[1]](tree(c[2]), tree(c[3]))
        if k == "and":
            return cond(c[1]) & cond(c[2])
        if k == "or":
            return cond(c[1]) | cond(c[2])
        if k == "not":
            return ~cond(c[1])
        if k == "truth":
            return tree(c[1])
        if k == "bit":
            return leaf(c[1])
        raise ValueError(c)

    def assign(place, value):
        if place[0] == "r":
            n = int(place[1:])
            getattr(e, spec.regs[n])[n] = value
        else:
            setattr(e, place[2:], value)

    def raw_copy(place, outname):
        """copy the raw bits of a register / local into an output variable"""
        size, signed, fixed = spec.info(place)
        if place[0] == "r":
            n = int(place[1:])
            src = (e.r if size == 8 else e.w)[n]
            setattr(e, outname, src)
        elif place[0] == "v":
            mm = {1: e.mB, 2: e.mH, 4: e.mI, 8: e.mQ}[size]
            setattr(e, outname, mm[e.r7 + e.__dict__[place[2:]]])
        else:
            fmt = spec.fmt(place)
            fa = cls.__dict__[place[2:]].fmt_addr(e)[1]
            mm = {1: e.mB, 2: e.mH, 4: e.mI, 8: e.mQ}[size]
            setattr(e, outname, mm[e.r10 + fa])

    def emit(stmts, path):
        for i, s in enumerate(stmts):
            p = path + (i,)
            if s[0] == "set":
                assign(s[1], tree(s[2]))
                if p in souts:
                    raw_copy(*souts[p])
            elif s[0] == "aug":
                cur = leaf(s[2])
                assign(s[2], IOPS[s[1]](cur, tree(s[3])))
                if p in souts:
                    raw_copy(*souts[p])
            elif s[0] == "if":
                c = cond(s[1])
                if s[3] is None:
                    with c:
                        setattr(e, marks[p, "T"], 1)
                        emit(s[2], p + ("T",))
                elif s[3] == []:
                    with c as Else:
                        setattr(e, marks[p, "T"], 1)
                        emit(s[2], p + ("T",))
                    with Else:
                        pass          # an Else block without any code
                else:
                    with c as Else:
                        setattr(e, marks[p, "T"], 1)
                        emit(s[2], p + ("T",))
                    with Else:
                        setattr(e, marks[p, "E"], 1)
                        emit(s[3], p + ("E",))
                setattr(e, marks[p, "A"], 1)
            else:
                raise ValueError(s)

    emit(spec.stmts, ())
    for place, name in b.final_outs.items():
        raw_copy(place, name)
    e.r0 = 2
    e.exit()
    return b


# ---------------------------------------------------------------------------
# reference semantics
# ---------------------------------------------------------------------------

class Unchecked(Exception):
    """the case is outside what the statement constrains"""


def interp(bits, size, signed):
    bits &= (1 << (8 * size)) - 1
    if signed and bits >> (8 * size - 1):
        bits -= 1 << (8 * size)
    return bits


def fdiv_choices(a, b):
    """floor and truncated quotient of exact a / b (ints or Fractions)"""
    q = Fraction(a) / Fraction(b)
    fl = q.numerator // q.denominator
    tr = fl if (q >= 0 or q.denominator == 1) else fl + 1
    return {fl, tr}


def drop(fr):
    """drop a rational to k/FB: floor or truncation, as a set of raw ints"""
    return fdiv_choices(fr * FB, 1)


class Node:
    __slots__ = ("vals", "fixed", "signed", "ring", "fits")

    def __init__(self, vals, fixed, signed, ring=True, fits=True):
        self.vals = vals      # set of raw values (ints; fixed: k of k/FB)
        self.fixed = fixed
        self.signed = signed  # some signed leaf / negative constant below
        self.ring = ring      # only ring operations below
        self.fits = fits      # every value below fits the narrow reading


class Ref:
    """evaluates a spec on an input vector over exact numbers"""
    MAXSET = 16

    def __init__(self, spec, scale_guard=False):
        self.spec = spec
        self.W = None
        self.scale_guard = scale_guard   # C02: all raws * 10^10 must fit

    def width_of(self, trees, dest=None):
        """32 if any variable/register operand or the destination is at
        most 4 bytes wide, else 64"""
        W = 64
        stack = list(trees)
        while stack:
            t = stack.pop()
            if t[0] == "p":
                if self.spec.info(t[1])[0] <= 4:
                    W = 32
            elif t[0] == "b":
                stack += [t[2], t[3]]
            elif t[0] in ("neg", "abs"):
                stack.append(t[1])
        if dest is not None and self.spec.info(dest)[0] <= 4:
            W = 32
        return W

    def fit(self, v, signed, fixed=None):
        W = self.W
        if self.scale_guard and W == 32 and fixed is not None:
            # C02 with a 4-byte operand or destination: "the scaled
            # operands and intermediate results fit the narrowest width"
            s = v if fixed else v * FB
            return -(1 << 31) <= s < (1 << 31)
        if self.scale_guard:
            v = v * FB * FB
            return -(1 << (W - 1)) <= v < (1 << (W - 1))
        if signed:
            return -(1 << (W - 1)) <= v < (1 << (W - 1))
        return 0 <= v < (1 << W)

    def leafval(self, place, store):
        size, signed, fixed = self.spec.info(place)
        fmt = self.spec.fmt(place)
        if isinstance(fmt, tuple):
            pos, bits = fmt
            return (store[place] >> pos) & ((1 << bits) - 1), False, False
        return interp(store[place], size, signed), signed, fixed

    def ev(self, t, store):
        k = t[0]
        if k == "p":
            v, signed, fixed = self.leafval(t[1], store)
            return Node({v}, fixed, signed, True, self.fit(v, signed, fixed))
        if k == "c":
            return Node({t[1]}, False, t[1] < 0, True,
                        self.fit(t[1], t[1] < 0, False))
        if k == "f":
            fr = Fraction(t[1]) * FB
            if fr.denominator != 1:
                raise Unchecked("constant with more than 5 digits")
            v = fr.numerator
            return Node({v}, True, v < 0, True, self.fit(v, v < 0, True))
        if k == "neg":
            a = self.ev(t[1], store)
            vals = {-v for v in a.vals}
            return Node(vals, a.fixed, True, a.ring,
                        a.fits and all(self.fit(v, True, a.fixed) for v in vals))
        if k == "abs":
            a = self.ev(t[1], store)
            if not a.fits or not all(self.fit(v, True, a.fixed)
                                     for v in a.vals):
                # abs is a signed notion: its operand must mean the same
                # read as signed or unsigned (narrowest reading of "fits")
                raise Unchecked("abs operand outside the width")
            vals = {abs(v) for v in a.vals}
            return Node(vals, a.fixed, a.signed, False,
                        all(self.fit(v, a.signed, a.fixed) for v in vals))
        if k == "b":
            return self.binop(t[1], self.ev(t[2], store),
                              self.ev(t[3], store))
        raise ValueError(t)

    def binop(self, op, a, b):
        signed = a.signed or b.signed
        sensitive = op in ("//", "%", ">>", "/")
        if sensitive and not (a.fits and b.fits):
            raise Unchecked(f"operand of {op} outside the width")
        if op in ("<<", ">>"):
            if a.fixed or b.fixed:
                raise Unchecked("shift of fixed point")
            if any(not 0 <= s < self.W for s in b.vals):
                raise Unchecked("shift amount outside [0, W)")
        if op in ("//", "%", "/") and 0 in b.vals:
            raise Unchecked("division by zero")
        vals = set()
        fixed = False
        for x in a.vals:
            for y in b.vals:
                fx = Fraction(x, FB) if a.fixed else Fraction(x)
                fy = Fraction(y, FB) if b.fixed else Fraction(y)
                if op in ("+", "-", "*"):
                    fixed = a.fixed or b.fixed
                    r = {"+": fx + fy, "-": fx - fy, "*": fx * fy}[op]
                    vals |= drop(r) if fixed else {int(r)}
                elif op == "/":
                    fixed = True
                    vals |= drop(fx / fy)
                elif op == "//":
                    vals |= fdiv_choices(fx, fy)
                elif op == "%":
                    fixed = a.fixed or b.fixed
                    for q in fdiv_choices(fx, fy):
                        r = fx - fy * q
                        vals |= drop(r) if fixed else {int(r)}
                elif op in ("&", "|", "^"):
                    if a.fixed or b.fixed:
                        raise Unchecked("bit operation on fixed point")
                    vals.add(OPS[op](x, y))
                elif op == "<<":
                    vals.add(x << y)
                elif op == ">>":
                    vals.add(x >> y)
                else:
                    raise ValueError(op)
        if len(vals) > self.MAXSET:
            raise Unchecked("too many rounding alternatives")
        fits = a.fits and b.fits and all(self.fit(v, signed, fixed)
                                        for v in vals)
        if self.scale_guard and self.W == 32 and (
                op in ("/", "//", "%") or (op == "*" and a.fixed and b.fixed)):
            # operations that rescale (x 10^5 or x 10^10 before dividing,
            # raw x raw before dividing): their internal intermediates are
            # part of "intermediate results fit the narrowest width"
            def guard(v):
                return abs(v) * FB * FB < (1 << 31)
            fits = fits and all(guard(v) for n in (a, b) for v in n.vals) \
                and all(guard(v) for v in vals)
        return Node(vals, fixed, signed, a.ring and b.ring and op in RING,
                    fits)

    # -- statements -------------------------------------------------------
    def store_value(self, dest, node, plain=False):
        """the set of bit patterns the destination may hold afterwards, and
        the number of low bits that are constrained (0 = unchecked)"""
        size, signed, dfixed = self.spec.info(dest)
        fmt = self.spec.fmt(dest)
        vals = set()
        for v in node.vals:
            if dfixed and not node.fixed:
                vals.add(v * FB)
            elif node.fixed and not dfixed:
                vals |= fdiv_choices(v, FB)
            else:
                vals.add(v)
        bits = 8 * size
        if isinstance(fmt, tuple):
            return vals, None
        lim = 1 << (bits - 1)
        if node.fits and all(self.fit(v, node.signed, dfixed) for v in vals):
            nbits = bits
        elif plain and self.scale_guard and dfixed and \
                all(-lim <= v < lim for v in vals):
            # a constant stored as it is: scaled once at most, at compile
            # time; no arithmetic that would need the x 10^10 head room
            nbits = bits
        elif node.ring and not node.fixed and not dfixed:
            nbits = min(bits, self.W)
        else:
            nbits = 0
        return {v & ((1 << bits) - 1) for v in vals}, nbits

    def truth(self, c, store):
        """truth value of a condition; raises Unchecked outside the
        precondition (compared values must fit the narrowest width)"""
        k = c[0]
        if k == "cmp":
            a = self.ev(c[2], store)
            b = self.ev(c[3], store)
            # C02: operands that are compared as they are (places and
            # constants) are scaled at most once (integer -> fixed); the
            # x 10^10 guard is only needed below arithmetic nodes
            plain = self.scale_guard and c[2][0] in "pcf" \
                and c[3][0] in "pcf" and (a.fixed or b.fixed)
            if not plain and not (a.fits and b.fits):
                raise Unchecked("compared value outside the width")
            res = set()
            signed = a.signed or b.signed
            for x in a.vals:
                for y in b.vals:
                    fx = Fraction(x, FB) if a.fixed else Fraction(x)
                    fy = Fraction(y, FB) if b.fixed else Fraction(y)
                    if plain:
                        lim = 1 << (self.W - 1)
                        if not (-lim <= fx * FB < lim
                                and -lim <= fy * FB < lim):
                            raise Unchecked("scaled operand outside the "
                                            "width")
                    elif not (self.fit_cmp(fx, signed)
                              and self.fit_cmp(fy, signed)):
                        raise Unchecked("compared value outside the width")
                    res.add(bool(CMPS[c[1]](fx, fy)))
            if len(res) != 1:
                raise Unchecked("rounding alternative changes the result")
            return res.pop()
        if k == "and":
            return self.truth(c[1], store) & self.truth(c[2], store)
        if k == "or":
            return self.truth(c[1], store) | self.truth(c[2], store)
        if k == "not":
            return not self.truth(c[1], store)
        if k == "truth":
            a = self.ev(c[1], store)
            plain = self.scale_guard and c[1][0] == "p" and a.fixed and \
                all(-(1 << (self.W - 1)) <= v < (1 << (self.W - 1))
                    for v in a.vals)
            if not a.fits and not plain:
                raise Unchecked("tested value outside the width")
            res = {v != 0 for v in a.vals}
            if len(res) != 1:
                raise Unchecked("rounding alternative changes the result")
            return res.pop()
        if k == "bit":
            v, _, _ = self.leafval(c[1], store)
            return v != 0
        raise ValueError(c)

    def fit_cmp(self, fr, signed):
        W = self.W
        if self.scale_guard:
            fr = fr * FB * FB
        if signed:
            return -(1 << (W - 1)) <= fr < (1 << (W - 1))
        return 0 <= fr < (1 << W)

    def cond_trees(self, c):
        k = c[0]
        if k == "cmp":
            return [c[2], c[3]]
        if k in ("and", "or"):
            return self.cond_trees(c[1]) + self.cond_trees(c[2])
        if k == "not":
            return self.cond_trees(c[1])
        if k == "truth":
            return [c[1]]
        if k == "bit":
            return [["p", c[1]]]
        raise ValueError(c)


def run_ref(specd, inputs, scale_guard=False):
    """execute the spec on the reference store.

    returns dict(final=place -> (set of allowed patterns, constrained bits),
                 stmt=path -> (place, allowed, nbits), markers=..., notes)
    A place whose value became unconstrained (unchecked statement) poisons
    whatever is computed from it later."""
    spec = Spec(specd)
    ref = Ref(spec, scale_guard)
    # store: place -> either int pattern (known) or None (poisoned)
    store = dict(inputs)
    known_bits = {p: 8 * spec.info(p)[0] for p in store}
    alts = {}     # place -> set of alternative patterns (if > 1)
    out = dict(stmt={}, markers={}, notes=[], stores={})

    class Poisoned(Exception):
        pass

    def used_places(t, acc):
        if t[0] == "p":
            acc.add(t[1])
        elif t[0] == "b":
            used_places(t[2], acc)
            used_places(t[3], acc)
        elif t[0] in ("neg", "abs"):
            used_places(t[1], acc)
        return acc

    def check_inputs(trees):
        for t in trees:
            for p in used_places(t, set()):
                size = spec.info(p)[0]
                if known_bits.get(p, 0) < 8 * size or p in alts:
                    raise Poisoned(p)

    def run(stmts, path, live):
        """live: False = this block is not executed, None = unknown"""
        for i, s in enumerate(stmts):
            p = path + (i,)
            if s[0] in ("set", "aug"):
                if s[0] == "set":
                    dest, t = s[1], s[2]
                else:
                    dest, t = s[2], ["b", s[1], ["p", s[2]], s[3]]
                if live is False:
                    continue
                size = spec.info(dest)[0]
                out["stores"][p] = dict(store)
                try:
                    if live is None:
                        raise Poisoned("control flow unknown")
                    check_inputs([t])
                    ref.W = ref.width_of([t], dest)
                    node = ref.ev(t, store)
                    vals, nbits = ref.store_value(dest, node,
                                                  plain=t[0] in "cf")
                except (Unchecked, Poisoned) as ex:
                    out["notes"].append((p, str(ex)))
                    known_bits[dest] = 0
                    alts.pop(dest, None)
                    out["stmt"][p] = (dest, None, 0)
                    continue
                fmt = spec.fmt(dest)
                if isinstance(fmt, tuple):
                    pos, bits = fmt
                    old = store[dest]
                    if known_bits.get(dest, 0) < 8:
                        out["stmt"][p] = (dest, None, 0)
                        continue
                    mask = ((1 << bits) - 1) << pos
                    if bits == 1:
                        new = {(old | mask) if v else (old & ~mask)
                               for v in vals}
                    else:
                        new = {(old & ~mask) | ((v << pos) & mask)
                               for v in vals}
                    vals, nbits = {v & 0xff for v in new}, 8
                out["stmt"][p] = (dest, vals, nbits)
                alts.pop(dest, None)
                if len(vals) == 1 and nbits == 8 * size:
                    store[dest] = next(iter(vals))
                    known_bits[dest] = nbits
                    alts.pop(dest, None)
                else:
                    store[dest] = min(vals)
                    known_bits[dest] = nbits if len(vals) == 1 else 0
                    if len(vals) > 1:
                        alts[dest] = vals
            elif s[0] == "if":
                if live is False:
                    out["markers"][p] = dict(T=0, E=0, A=0)
                    continue
                try:
                    if live is None:
                        raise Poisoned("control flow unknown")
                    trees = ref.cond_trees(s[1])
                    check_inputs(trees)
                    ref.W = ref.width_of(trees)
                    tv = ref.truth(s[1], store)
                except (Unchecked, Poisoned) as ex:
                    out["notes"].append((p, str(ex)))
                    out["markers"][p] = dict(T=None, E=None, A=None)
                    # both branches may or may not run: poison their dests
                    run(s[2], p + ("T",), None)
                    if s[3] is not None:
                        run(s[3], p + ("E",), None)
                    continue
                out["markers"][p] = dict(T=int(tv), E=int(not tv), A=1)
                run(s[2], p + ("T",), True if tv else False)
                if s[3] is not None:
                    run(s[3], p + ("E",), False if tv else True)

    run(spec.stmts, (), True)
    out["final"] = {p: (alts.get(p, {store[p]}), known_bits.get(p, 0))
                    for p in store}
    return out
