"""C21 fast-group frames only write outputs computed in the same pass"""
import struct

from .. import dispatch, kern, use_repo
from ..core import Result
from . import c22
use_repo()

from ebpfcat.ebpfcat import SterilePacket  # noqa: E402
from ebpfcat.ethercat import ECCmd  # noqa: E402

PROPERTY = "C21"
LEVEL = "model_checking"
RULE = ("the frame histories explored by the dispatcher engine of C22 "
        "(breadth-first over loop counter, <= 3 in-flight frames with index "
        "byte, writer commands and counter classes correct/wrong/zero, "
        "output-enabled flag switched on and off by user space at any "
        "time) for registered groups with 0-3 writer "
        "datagrams (direct FPWR and FMMU LWR), alone and after an earlier "
        "group of the same master with another layout was allocated; every "
        "transition executes the "
        "real dispatcher and group bytecode. Per transition: frames built by "
        "SterilePacket.sterile have all writer commands NOP; a pass that ran "
        "the group program with outputs enabled leaves exactly the writer "
        "datagrams with their original commands, their counters 0 and the "
        "error count increased by the number of writers whose incoming "
        "counter differed from the expected one; with outputs disabled "
        "nothing is enabled; a pass that did not run the group program "
        "changes nothing but the index byte; no frame goes back to the bus "
        "with an enabled writer unless the group program ran on it in that "
        "pass")
ASSUMPTIONS = c22.ASSUMPTIONS
MIN_EVALUATIONS = {"quick": 1, "thorough": 1}


def plan(tier, seed):
    depth = 11 if tier == "quick" else 16
    return [dict(seed=seed, layout=lay, reg="registered", depth=depth,
                 tier=tier) for lay in c22.LAYOUTS] + \
        [dict(seed=seed, layout=lay, reg="registered", depth=depth - 2,
              tier=tier, decoy=dec)
         for lay, dec in (("w", "w"), ("rw", "wf"), ("wf", "rw"),
                          ("r", "ww"))] + \
        [dict(seed=seed, layout=lay, reg="registered", depth=depth - 3,
              tier=tier) for lay in ("ggf", "gf", "gff", "ggw")] + \
        [dict(seed=seed, sterile=True),
         dict(seed=seed, userspace=True,
              count=12 if tier == "quick" else 150)]


def monitor21(w, rec, res, params):
    desc = dict(layout=params["layout"], state=rec["state"],
                frame=rec["frame"])
    fin, fout = rec["in_frame"], rec["out_frame"]
    idx_in, en_in, wk_in = rec["frame"]
    if rec["out"] is None:
        res.violation("unexplained:frame-length-changed", "", case=desc)
        return
    idx_out, en_out, wk_out = rec["out"]
    nwr = len(w.writers)
    # bytes outside index0, ethertype and the writers' command / counters
    skip = {17, 12, 13}
    for cpos, wpos, cmd, exp in w.writers:
        skip |= {cpos, wpos, wpos + 1}
    other = [i for i in range(len(fin)) if i not in skip and
             fin[i] != fout[i]]
    if other:
        res.violation("unexplained:other-bytes-changed",
                      f"bytes {other[:6]} changed in the pass", case=desc)
        return
    if rec["ran"] and rec["w_before"]:
        res.count("active_passes")
        if not all(en_out):
            res.violation("unexplained:writer-not-enabled",
                          f"active pass left writers {en_out}", case=desc)
        for (cpos, wpos, cmd, exp), e in zip(w.writers, en_out):
            if e and fout[cpos] != cmd:
                res.violation("unexplained:writer-command",
                              f"writer at {cpos} got command {fout[cpos]}, "
                              f"original {cmd}", case=desc)
        if any(x != "0" for x in wk_out):
            res.violation("unexplained:counter-not-cleared",
                          f"active pass left counters {wk_out}", case=desc)
        wrong = sum(1 for x in wk_in if x != "ok")
        if rec["w_after"] - rec["w_before"] != wrong:
            res.violation("unexplained:error-count",
                          f"{wrong} writers came in with a wrong counter "
                          f"{wk_in} but the error count went "
                          f"{rec['w_before']} -> {rec['w_after']}",
                          case=desc)
        if wrong:
            res.count("passes_counting_errors")
    elif rec["ran"]:
        res.count("disabled_passes")
        if (en_out, wk_out) != (en_in, wk_in) or rec["w_after"] != 0:
            res.violation("unexplained:disabled-pass-changed-writers",
                          f"outputs disabled but writers {en_in}->{en_out} "
                          f"{wk_in}->{wk_out}", case=desc)
    else:
        res.count("passive_passes")
        if (en_out, wk_out) != (en_in, wk_in) or \
                rec["w_after"] != rec["w_before"]:
            res.violation("unexplained:passive-pass-changed-writers",
                          "a pass without the group program changed writer "
                          "datagrams", case=desc)
    if rec["action"] == dispatch.TX and any(en_out) and not rec["ran"]:
        res.count("tx_with_enabled_writers_without_program")
        res.violation("enabled-writers-forwarded-without-group-program",
                      f"frame sent back to the bus with enabled writers "
                      f"{en_out} although the group program did not process "
                      f"it in this pass (counter {rec['c_before']} -> "
                      f"{rec['c_after']}, frame index {idx_in})", case=desc)


def sterile_leg(res):
    import random
    rng = random.Random(5)
    for i in range(300):
        p = SterilePacket()
        kinds = []
        for j in range(rng.randint(1, 8)):
            data = bytes(rng.randint(0, 20))
            if rng.random() < 0.5:
                p.append_writer(ECCmd.FPWR, data, 0, j + 1, 0x1000)
                kinds.append(True)
            else:
                p.append(ECCmd.FPRD, data, 0, j + 1, 0x1100)
                kinds.append(False)
        st = p.sterile(9)
        from .. import frames
        dgs = frames.parse(bytes(st))[2][1:]
        res.case(["sterile", kinds])
        res.count("sterile_packets")
        for g, wri in zip(dgs, kinds):
            if wri and g.cmd != 0:
                res.violation("unexplained:sterile-writer-enabled",
                              f"writer datagram left user space with "
                              f"command {g.cmd}", case=dict(kinds=kinds))
            if not wri and g.cmd != 4:
                res.violation("unexplained:sterile-reader-changed",
                              f"reader datagram has command {g.cmd}",
                              case=dict(kinds=kinds))


def outage_leg(res):
    """a long outage: tens of thousands of passes in which every write
    datagram comes back with a wrong working counter (a terminal switched
    off for minutes).  Every such pass counts one error per write datagram -
    the 65535th and the 65537th like the first - and goes on re-enabling
    the write datagrams; the real group program runs in the kernel
    (BPF_PROG_TEST_RUN with a repeat count)"""
    for layout in ("w", "ww", "wf"):
        with kern.session() as sess:
            w = dispatch.World(sess, layout)
            try:
                nwr = len(w.writers)
                bad = w.frame((1, (False,) * nwr, ("bad",) * nwr))
                total = 1
                w.set_state(0, 1)
                for n in (254, 65534 // nwr - 300, 200, 200, 65536 // nwr,
                          3, 70000):
                    kern.test_run(w.gl.fd, bad, repeat=n)
                    total += n * nwr
                    got = w.get_state()[1]
                    res.case(["outage", layout, total], nontrivial=True)
                    res.count("outage_passes", n)
                    if got != total & 0xffffffff:
                        res.violation(
                            "unexplained:error-count-after-a-long-outage",
                            f"layout {layout}: after {total - 1} write "
                            f"datagrams with a wrong working counter "
                            f"(starting from 1) the error counter reads "
                            f"{got}, expected {total}",
                            case=dict(layout=layout, errors=total - 1))
                        break
                    ret, out, _ = kern.test_run(w.gl.fd, bad)
                    total += nwr
                    idx, en, wk = w.abstract(out)
                    if not all(en):
                        res.violation(
                            "unexplained:writers-not-enabled-after-a-long-"
                            "outage",
                            f"layout {layout}: after {total - 1} counted "
                            f"errors a pass of the group program leaves the "
                            f"write datagrams {en}",
                            case=dict(layout=layout, errors=total - 1))
                        break
            finally:
                w.close()


def userspace_leg(params, res):
    """the user-space half of a fast group: the real FastSyncGroup.start /
    run / roundtrip_packet over the simulated bus; the responses handed back
    to user space look like frames the kernel side has activated (odd index,
    writer commands enabled) and some responses are lost (20 ms time-outs).
    Every cyclic frame user space sends must have all writer datagrams
    NOP'ed"""
    import asyncio
    import random
    from .. import aio, bus, ecat, simgroup
    from ebpfcat.ebpfcat import FastSyncGroup
    rng = random.Random(params["seed"] * 17 + 3)
    for round_ in range(params["count"]):
        terms = simgroup.gen_terms(rng, nmax=3)
        terms[0]["rw"] = True
        sims = simgroup.make_sims(terms)
        b = bus.Bus(sims)
        lost = [rng.random() < 0.25 for _ in range(64)]
        passive = [rng.random() < 0.4 for _ in range(61)]
        passive[0] = rng.random() < 0.6   # often the very first one
        seen = dict(frames=0, bad=None, timeouts=0)
        with kern.session() as sess:
            async def main(loop):
                ec = ecat.OfflineFastEtherCat(sess)
                ts, devs = simgroup.make_rig(terms, ec)
                sg = FastSyncGroup(ec, devs)
                state = dict(k=0)

                def policy(nf, data):
                    idx, = struct.unpack_from("<I", data, 4)
                    if getattr(sg, "packet_index", None) is None or \
                            idx != sg.packet_index or len(data) < 30:
                        return [(0.0001, b.process(data))]
                    writers = [(pos, cmd.value) for pos, _, cmd
                               in sg.packet.on_the_fly]
                    seen["frames"] += 1
                    en = [pos for pos, cmd in writers if data[pos] != 0]
                    if en and seen["bad"] is None:
                        seen["bad"] = (seen["frames"], en, data[3] & 0xff)
                    if data[3] != 0 and seen.get("stale") is None:
                        # a frame user space injects is a fresh one: loop
                        # counter byte 0 (the dispatcher takes anything else
                        # for a frame that has been round the bus)
                        seen["stale"] = (seen["frames"], data[3])
                    k = state["k"]
                    state["k"] += 1
                    resp = bytearray(b.process(data))
                    # what the dispatcher hands back to user space: frames
                    # the group program has activated (odd counter, writers
                    # enabled) or passive ones (even counter, writers off)
                    if passive[k % len(passive)]:
                        resp[3] = (k * 2 + 2) & 0xff or 2
                    else:
                        resp[3] = (k * 2 + 1) & 0xff
                        for pos, cmd in writers:
                            resp[pos] = cmd
                    if lost[k % len(lost)]:
                        seen["timeouts"] += 1
                        return []
                    return [(0.0002, bytes(resp))]
                bus.attach(ec, loop, b, policy)
                task = sg.start()
                for _ in range(400):
                    await asyncio.sleep(0.005)
                    if seen["frames"] >= 25 or task.done():
                        break
                task.cancel()
                await asyncio.gather(task, return_exceptions=True)
                await asyncio.sleep(0.05)
            try:
                aio.run(main, wall_limit=40)
            except (aio.WallClock, aio.Idle):
                res.inconc("user-space leg: watchdog")
                continue
        desc = dict(terms=terms, lost=lost[:24])
        res.case(["userspace", round_, desc])
        res.count("userspace_frames", seen["frames"])
        res.count("userspace_timeouts", seen["timeouts"])
        if seen.get("stale"):
            res.violation(
                "unexplained:user-space-injects-a-stale-frame",
                f"cyclic frame #{seen['stale'][0]} sent by user space "
                f"carries loop counter byte {seen['stale'][1]} instead of 0",
                case=desc)
        if seen["bad"]:
            res.violation(
                "unexplained:frame-left-user-space-with-enabled-writers",
                f"cyclic frame #{seen['bad'][0]} was sent by user space "
                f"with enabled write datagrams at {seen['bad'][1]} (index "
                f"byte {seen['bad'][2]})", case=desc)


def run_shard(params):
    res = Result()
    if params.get("userspace"):
        userspace_leg(params, res)
    elif params.get("sterile"):
        sterile_leg(res)
        outage_leg(res)
    else:
        c22.run_world(params, res, monitor21)
    return res


def finalize(res, tier, seed):
    c = res.counters
    res.info["states"] = c.get("states", 0)
    res.info["transitions"] = c.get("transitions", 0)
    res.info["traces_validated_against_impl"] = c.get("k_replays", 0)
    for k in ("active_passes", "disabled_passes", "passive_passes",
              "passes_counting_errors", "sterile_packets",
              "userspace_frames", "userspace_timeouts"):
        if not c.get(k):
            res.inconc(f"{k}: never observed")


def replay(v):
    return Result()
