"""C06 in-place addition on 4/8-byte variables never loses updates"""
import itertools
import random
import struct
import threading

from .. import ebpfvm, kern, prog
from ..core import Result
from .. import use_repo
use_repo()

from ebpfcat.arraymap import ArrayMap, PerCPUArrayMap  # noqa: E402
from ebpfcat.ebpf import LocalVar, Member, Structure  # noqa: E402
from ebpfcat.hashmap import Dict  # noqa: E402
from ebpfcat.xdp import XDP  # noqa: E402

PROPERTY = "C06"
LEVEL = "exploration"
RULE = ("for every fmt in i I q Q x, memory kind in {array-map variable, "
        "Dict value member, per-CPU variable as seen by the instances on "
        "one CPU (shared); stack variable (private)} and amount in {constant, negative constant via -=, "
        "register, expression, fixed constant} the single statement is "
        "compiled by the real generator. Leg 1: 2 instances over ALL "
        "interleavings of the statement's instructions and 3 instances over "
        "all interleavings when <= 40000 else a seeded sample, in the "
        "reference machine, from random and boundary initial values; a case "
        "= one schedule; conservation final = initial + sum(amounts) mod "
        "2^bits. Leg 2: 8 threads x BPF_PROG_TEST_RUN(repeat=N) of the loaded "
        "program on the shared cell in the kernel. Leg 3: whole programs with "
        "several counters and in-place additions of equal and different "
        "constants in a row, inside and after conditional blocks, run in "
        "the kernel for every combination of the conditions and by two "
        "threads in parallel. non-trivial = a schedule "
        "in which the instances' accesses to the cell really interleave")
ASSUMPTIONS = ["instruction granularity: an eBPF instruction (incl. the "
               "atomic add) is executed atomically with respect to others",
               "amounts are read from shared inputs that do not change "
               "during the run"]
MIN_EVALUATIONS = {"quick": 500, "thorough": 20000}
FMTS = ["i", "I", "q", "Q", "x"]
AMOUNTS = ["const", "negconst", "isub", "reg", "expr", "fixedconst",
           "isubreg", "isubexpr", "var_i", "isubvar_i", "var_I", "regw",
           "isubregw", "isubfixedconst", "var_q", "local_i",
           "var_x", "isubvar_x", "isubxexpr",
           "zero_then_const", "mm_same", "named_diff", "isubreg_twice",
           "stack_value", "const_after_fixed", "after_table"]
FIXED_ONLY = ("fixedconst", "isubfixedconst", "var_x", "isubvar_x",
              "isubxexpr")
# ptrN: the cell of an array map addressed through a pointer the program
# keeps in the callee-saved register rN (e.mI[e.r9 + off] += ...)
# (r8 carries the amounts, r7 is the library's map pointer)
KINDS = ["array", "dict", "local", "percpu", "ptr6", "ptr9"]


def plan(tier, seed):
    combos = [(f, k, a) for f in FMTS for k in KINDS for a in AMOUNTS
              if not (a in FIXED_ONLY and f != "x")
              and not (a == "mm_same" and f == "x")
              and not (k.startswith("ptr") and a == "mm_same")
              and not (a == "stack_value" and k != "dict")]
    n = 16
    shards = [dict(seed=seed, shard=i, combos=combos[i::n], tier=tier)
              for i in range(n)]
    shards.append(dict(seed=seed, shard=99, stress=True, tier=tier))
    for i in range(4):
        shards.append(dict(seed=seed, shard=200 + i, context=True, tier=tier,
                           n=60 if tier == "quick" else 1500))
    return shards


class Val(Structure):
    pad = Member("Q")
    cnt4 = Member("I")
    cnt8 = None


def build(fmt, kind, amount, amount_value):
    """returns (ebpf, (start, stop) opcode range of the statement, info)"""
    size = 8 if fmt in "qQx" else 4
    ns = {"license": "GPL", "m": ArrayMap()}
    m = ns["m"]
    ns["amt"] = m.globalVar("q")
    ns["amt_i"] = m.globalVar("i")
    ns["amt_I"] = m.globalVar("I")
    ns["amt_x"] = m.globalVar("x")
    if amount == "local_i":
        ns["lamt"] = LocalVar("i")
    ns["out"] = m.globalVar("Q")
    ns["aux"] = m.globalVar("q")
    ns["auxx"] = m.globalVar("x")
    if amount == "after_table":
        ns["tab"] = m.globalVar("8Q")
        ns["tidx"] = m.globalVar("I")
    ns["cellinit"] = m.globalVar("Q")
    if kind == "array" or kind.startswith("ptr"):
        ns["cell"] = m.globalVar(fmt)
    elif kind == "percpu":
        ns["pm"] = PerCPUArrayMap()
        ns["cell"] = ns["pm"].globalVar(fmt)
    elif kind == "local":
        ns["cell"] = LocalVar(fmt)
    elif kind == "dict":
        class Key(Structure):
            k = Member("I")

        class Value(Structure):
            pad = Member("Q")
            c = Member(fmt if fmt != "x" else "x")
        ns["d"] = Dict(key=Key, value=Value, size=4)
        ns["Key"], ns["Value"] = Key, Value
    rng = {}

    def program(self):
        e = self
        if amount in ("reg", "expr", "isubreg", "isubexpr", "isubreg_twice"):
            e.sr8 = e.amt
        if amount in ("regw", "isubregw"):
            e.w8 = e.amt_I
        if amount == "local_i":
            e.lamt = e.amt_i
        target = None
        if kind == "dict":
            e.d.key.k = 7
            if amount == "stack_value":
                # merge-or-insert: the amount is prepared in the Dict's own
                # stack-side value structure
                e.d.value.c = e.amt_x if fmt == "x" else \
                    e.amt if size == 8 else e.amt_I
            ctx = e.d.lookup()
            value, Else = ctx.__enter__()
        if kind == "local":
            e.cell = e.cellinit if fmt != "x" else 0
            if fmt == "x":
                e.mq[e.r10 + type(e).__dict__["cell"].fmt_addr(e)[1]] = \
                    e.cellinit
        rng["start"] = len(e.opcodes)

        def do(obj, name):
            cur = getattr(obj, name)
            if amount == "const":
                cur += amount_value
            elif amount == "negconst":
                cur += -amount_value
            elif amount == "isub":
                cur -= amount_value
            elif amount == "reg":
                cur += e.sr8
            elif amount == "expr":
                cur += e.sr8 * 3 + 1
            elif amount == "fixedconst":
                cur += 1.5
            elif amount == "isubfixedconst":
                cur -= 1.5
            elif amount == "isubreg":
                cur -= e.sr8
            elif amount == "isubexpr":
                cur -= e.sr8 * 3 + 1
            elif amount == "var_i":
                cur += e.amt_i
            elif amount == "isubvar_i":
                cur -= e.amt_i
            elif amount == "var_I":
                cur += e.amt_I
            elif amount == "var_q":
                cur += e.amt
            elif amount == "regw":
                cur += e.w8
            elif amount == "isubregw":
                cur -= e.w8
            elif amount == "local_i":
                cur += e.lamt
            elif amount == "var_x":
                cur += e.amt_x
            elif amount == "isubvar_x":
                cur -= e.amt_x
            elif amount == "isubxexpr":
                cur -= e.amt_x * 2
            elif amount == "named_diff":
                # a difference with a name, subtracted from two variables
                # one after the other (d = target - position; a -= d;
                # b -= d): the cell is the second
                d_ = e.amt - 3
                aux = e.aux
                aux -= d_
                e.aux = aux
                cur -= d_
            elif amount == "const_after_fixed":
                # the same integer constant added to a fixed-point variable
                # first, to the cell afterwards
                ax = e.auxx
                ax += amount_value
                e.auxx = ax
                cur += amount_value
            elif amount == "after_table":
                # the dispatcher's idiom first: take the address of a table
                # in the map, move the pointer, count through it
                with e.tab.get_address(None, False, False) as (dst_, _):
                    e.r[dst_] += 8 * (e.tidx & 7)
                    e.mQ[e.r[dst_]] += 1
                cur += amount_value
            elif amount == "isubreg_twice":
                # the same register subtracted from two variables one after
                # the other: the cell is the second
                aux = e.aux
                aux -= e.sr8
                e.aux = aux
                cur -= e.sr8
            elif amount == "stack_value" and kind == "dict":
                cur += e.d.value.c
            elif amount == "stack_value":
                cur += e.amt_x if fmt == "x" else \
                    e.amt if size == 8 else e.amt_I
            elif amount == "zero_then_const":
                # an addition of nothing followed by a real one: between
                # the two another instance's addition must not get lost
                cur += 0
                setattr(obj, name, cur)
                cur = getattr(obj, name)
                cur += amount_value
            elif amount == "mm_same" and kind == "array":
                # target and amount both addressed through the same
                # memory-map view (e.mQ[...] += e.mQ[...])
                mm = e.mQ if size == 8 else e.mI
                mm[e.r7 + e.__dict__["cell"]] += \
                    mm[e.r7 + e.__dict__["amt" if size == 8 else "amt_I"]]
                return
            elif amount == "mm_same":
                cur += e.amt if size == 8 else e.amt_I
            setattr(obj, name, cur)
        if kind == "dict":
            do(value, "c")
        elif kind.startswith("ptr"):
            no = int(kind[3:])
            e.r[no] = e.r7
            mm_ = {"I": e.mI, "i": e.mi, "Q": e.mQ, "q": e.mq,
                   "x": e.mx}[fmt]
            off = e.__dict__["cell"]

            class Through:
                def __getattr__(self, name):
                    return mm_[e.r[no] + off]

                def __setattr__(self, name, v):
                    mm_[e.r[no] + off] = v
            rng["start"] = len(e.opcodes)
            do(Through(), "c")
        else:
            do(e, "cell")
        rng["stop"] = len(e.opcodes)
        if kind == "local":
            fa = type(e).__dict__["cell"].fmt_addr(e)[1]
            mm = e.mQ if size == 8 else e.mI
            e.out = mm[e.r10 + fa]
        if kind == "dict":
            ctx.__exit__(None, None, None)
        e.r0 = 2
        e.exit()
    ns["program"] = program
    cls = type("VfAdd", (XDP,), ns)
    e = cls()
    return e, rng, size


def amount_raw(fmt, amount, amount_value, amt_in):
    """the change one execution makes to the raw cell"""
    FB = 100000
    if amount == "const":
        d = amount_value
    elif amount in ("negconst", "isub"):
        d = -amount_value
    elif amount == "reg":
        d = amt_in
    elif amount == "expr":
        d = amt_in * 3 + 1
    elif amount == "fixedconst":
        return 150000
    elif amount == "isubfixedconst":
        return -150000
    elif amount in ("isubreg", "isubreg_twice"):
        d = -amt_in
    elif amount == "stack_value":
        if fmt == "x":
            return amt_in
        return amt_in if fmt in "qQ" else amt_in & 0xffffffff
    elif amount == "isubexpr":
        d = -(amt_in * 3 + 1)
    elif amount in ("var_i", "var_q", "local_i"):
        d = amt_in
    elif amount == "isubvar_i":
        d = -amt_in
    elif amount in ("var_I", "regw"):
        d = amt_in & 0xffffffff
    elif amount == "isubregw":
        d = -(amt_in & 0xffffffff)
    elif amount in ("zero_then_const", "const_after_fixed", "after_table"):
        d = amount_value
    elif amount == "named_diff":
        d = -(amt_in - 3)
    elif amount == "mm_same":
        return amt_in if fmt in "qQx" else amt_in & 0xffffffff
    elif amount == "var_x":
        return amt_in           # fixed-point amounts: raw units
    elif amount == "isubvar_x":
        return -amt_in
    elif amount == "isubxexpr":
        return -2 * amt_in
    return d * FB if fmt == "x" else d


def slot_pcs(code):
    """opcode index -> instruction slot (LD_IMM64 takes two slots, and
    ebpfcat keeps both halves in its opcode list, so they coincide)"""
    return None


class Cell:
    """where the shared cell lives in V"""

    def __init__(self, region, off, size):
        self.region, self.off, self.size = region, off, size

    def get(self):
        return int.from_bytes(self.region.data[self.off:self.off + self.size],
                              "little")

    def set(self, v):
        self.region.data[self.off:self.off + self.size] = (
            v & ((1 << (8 * self.size)) - 1)).to_bytes(self.size, "little")


def snapshot(vms, mem):
    return ([(vm.pc, list(vm.regs), bytes(vm.stack.data),
              bytes(vm.stack.init), vm.exited, vm.steps) for vm in vms],
            [(r, bytes(r.data)) for r in mem.regions
             if r.tag and r.tag[0] == "map"])


def restore(snap, vms):
    for vm, (pc, regs, st, init, ex, steps) in zip(vms, snap[0]):
        vm.pc = pc
        vm.regs = list(regs)
        vm.stack.data[:] = st
        vm.stack.init[:] = init
        vm.exited = ex
        vm.steps = steps
    for r, data in snap[1]:
        r.data[:] = data


def run_to(vm, pc_stop, limit=5000):
    n = 0
    while not vm.exited and vm.pc != pc_stop:
        vm.step()
        n += 1
        if n > limit:
            raise ebpfvm.VMFault("step-limit", "run_to", vm.pc)
    return n


def in_range(vm, start, stop):
    return not vm.exited and start <= vm.pc < stop


def explore(fmt, kind, amount, res, rng, tier, amount_value=None):
    amount_value = amount_value or rng.choice([1, 2, 3, 7, 1000, 0x7fffffff, 0x80000000,
                               0x80000000, 0xffffffff, 0x100000000,
                               0x80000001, 1 << 40])
    amt_in = rng.choice([1, 5, -3, 123456, -(1 << 31)])
    with kern.session() as sess:
        import os
        pinned = rng.random() < 0.25
        allowed = os.sched_getaffinity(0)
        if pinned:
            # the master that generates the program is confined to one core
            # (taskset, a cpuset); the kernel runs the program on all
            os.sched_setaffinity(0, {min(allowed)})
            res.count("programs_generated_while_confined_to_one_cpu")
        try:
            e, r, size = build(fmt, kind, amount, amount_value)
            ld = prog.Loaded(e, sess)
        finally:
            if pinned:
                os.sched_setaffinity(0, allowed)
        start, stop = r["start"], r["stop"]
        nins = stop - start
        res.count(f"stmt_instructions[{nins}]")
        try:
            ld.load()
            loaded = True
        except OSError as ex:
            loaded = False
            res.count("load_failed")
            res.sample(dict(load_failed=[fmt, kind, amount],
                            log=str(ex)[-300:]), limit=2)
        try:
            mem = ld.memory()
            m = e.__dict__["m"]
            mask = (1 << (8 * size)) - 1
            delta = amount_raw(fmt, amount, amount_value, amt_in)
            # a per-CPU variable is shared by the instances that run on one
            # CPU (a program preempted by another instance of itself); the
            # reference machine's per-CPU map is one CPU's copy
            shared = kind in ("array", "dict", "percpu") or \
                kind.startswith("ptr")
            ninst_list = [1] if not shared else [2, 3]
            inits = [0, 1, mask, mask >> 1, rng.getrandbits(8 * size)]
            if tier == "quick":
                inits = inits[:2] + [inits[-1]]
            for ninst in ninst_list:
                for init in inits:
                    # set inputs
                    m[:] = bytes(len(m))
                    pos = e.__dict__["amt"]
                    m[pos:pos + 8] = struct.pack("<q", amt_in)
                    pos = e.__dict__["amt_i"]
                    m[pos:pos + 4] = struct.pack("<i", amt_in)
                    pos = e.__dict__["amt_I"]
                    m[pos:pos + 4] = struct.pack("<I", amt_in & 0xffffffff)
                    pos = e.__dict__["amt_x"]
                    m[pos:pos + 8] = struct.pack("<q", amt_in)
                    if "tidx" in e.__dict__:
                        pos = e.__dict__["tidx"]
                        m[pos:pos + 4] = struct.pack("<I", 3)
                    pos = e.__dict__["cellinit"]
                    m[pos:pos + 8] = struct.pack("<Q", init)
                    vms = [ebpfvm.VM(mem, ebpfvm.Program(ld.code, f"i{i}"),
                                     bytes(64), ident=i)
                           for i in range(ninst)]
                    try:
                        cell = locate_cell(e, kind, mem, size, sess, init)
                        if cell is not None:
                            cell.set(init)
                        for vm in vms:
                            run_to(vm, start)
                        base = snapshot(vms, mem)
                        # steps each instance needs inside the statement
                        ks = []
                        for vm in vms:
                            k = 0
                            while in_range(vm, start, stop):
                                vm.step()
                                k += 1
                            ks.append(k)
                            restore(base, vms)
                        total = sum(ks)
                        scheds = schedules(ks, rng,
                                           40000 if tier == "thorough"
                                           else 3000)
                        for sched in scheds:
                            restore(base, vms)
                            accesses = []

                            def hook(vm, k_, region, off, sz, value):
                                if cell is not None and \
                                        region is cell.region and \
                                        off < cell.off + cell.size and \
                                        cell.off < off + sz:
                                    accesses.append((vm.ident, k_, vm.pc))
                            mem.hooks = [hook]
                            for who in sched:
                                vms[who].step()
                            for vm in vms:
                                while not vm.exited:
                                    vm.step()
                            mem.hooks = []
                            if cell is not None:
                                final = cell.get()
                            else:
                                pos = e.__dict__["out"]
                                final = int.from_bytes(m[pos:pos + size],
                                                       "little")
                            want = (init + ninst * delta) & mask
                            owners = [a[0] for a in accesses]
                            interleaved = len(set(owners)) > 1
                            res.case([fmt, kind, amount, ninst, init,
                                      list(sched)],
                                     nontrivial=interleaved or not shared)
                            res.count(f"schedules[{fmt}/{kind}/{amount}/"
                                      f"{ninst}]")
                            if final != want:
                                res.violation(
                                    f"lost-update:{kind}",
                                    f"{fmt} {kind} {amount}: {ninst} "
                                    f"instances, init {init}, delta {delta}: "
                                    f"final {final} != {want}",
                                    case=dict(fmt=fmt, kind=kind,
                                              amount=amount, init=init,
                                              schedule=list(sched)),
                                    witness=dict(
                                        accesses=accesses,
                                        disasm=ebpfvm.disasm(ld.code)))
                            plain = [a for a in accesses if a[1] == "w"]
                            if plain and shared:
                                res.count("plain_store_to_shared_cell")
                        res.info.setdefault("exhaustive_2", True)
                    finally:
                        for vm in vms:
                            vm.release()
            if len(res.samples) < 4:
                res.sample(dict(fmt=fmt, kind=kind, amount=amount,
                                statement=[
                                    l for l in ebpfvm.disasm(ld.code)
                                    if start <= int(l.split(":")[0]) < stop],
                                steps_per_instance=ks))
        finally:
            ld.close()


def schedules(ks, rng, cap):
    """all interleavings of len(ks) instances with ks[i] steps each, or a
    seeded sample of `cap` when there are more"""
    n = len(ks)
    total = sum(ks)
    if n == 1:
        return [tuple([0] * ks[0])]
    count = 1
    rem = total
    for k in ks:
        from math import comb
        count *= comb(rem, k)
        rem -= k
    if count <= cap:
        out = []

        def rec(prefix, left):
            if not any(left):
                out.append(tuple(prefix))
                return
            for i in range(n):
                if left[i]:
                    left[i] -= 1
                    prefix.append(i)
                    rec(prefix, left)
                    prefix.pop()
                    left[i] += 1
        rec([], list(ks))
        return out
    out = set()
    base = [i for i, k in enumerate(ks) for _ in range(k)]
    while len(out) < cap:
        b = base[:]
        rng.shuffle(b)
        out.add(tuple(b))
    return sorted(out)


def locate_cell(e, kind, mem, size, sess, init):
    if kind == "array" or kind.startswith("ptr"):
        fd = [fd for fd, mm in sess.maps.items()
              if mm["type"].name == "ARRAY"][0]
        return Cell(mem.maps[fd].region, e.__dict__["cell"], size)
    if kind == "dict":
        fd = e.d.fd
        vm = mem.maps[fd]
        key = struct.pack("<I", 7)
        if key not in vm.entries:
            mem.hash_insert(vm, key, bytes(16))
        return Cell(vm.entries[key], 8, size)
    if kind == "percpu":
        fd = [fd for fd, mm in sess.maps.items()
              if mm["type"].name == "PERCPU_ARRAY"][0]
        return Cell(mem.maps[fd].region, e.__dict__["cell"], size)
    return None


def stress(res, tier, rng):
    """real parallelism: threads hammering the loaded program"""
    N = 100000 if tier == "quick" else 400000
    T = 8
    for fmt, kind, amount in [("I", "array", "const"), ("q", "array", "reg"),
                              ("Q", "dict", "const"), ("x", "array",
                                                       "fixedconst"),
                              ("i", "dict", "isub"), ("Q", "array", "expr"),
                              ("q", "array", "isubreg"),
                              ("Q", "dict", "isubvar_i"),
                              ("I", "array", "isubexpr")]:
        amount_value, amt_in = 3, 5
        with kern.session() as sess:
            e, r, size = build(fmt, kind, amount, amount_value)
            ld = prog.Loaded(e, sess)
            try:
                ld.load()
            except OSError as ex:
                res.count("stress_load_failed")
                continue
            try:
                m = e.__dict__["m"]
                m[:] = bytes(len(m))
                pos = e.__dict__["amt"]
                m[pos:pos + 8] = struct.pack("<q", amt_in)
                pos = e.__dict__["amt_i"]
                m[pos:pos + 4] = struct.pack("<i", amt_in)
                pos = e.__dict__["amt_I"]
                m[pos:pos + 4] = struct.pack("<I", amt_in & 0xffffffff)
                pos = e.__dict__["amt_x"]
                m[pos:pos + 8] = struct.pack("<q", amt_in)
                if "tidx" in e.__dict__:
                    pos = e.__dict__["tidx"]
                    m[pos:pos + 4] = struct.pack("<I", 3)
                mask = (1 << (8 * size)) - 1
                init = rng.getrandbits(8 * size)
                if kind == "array":
                    pos = e.__dict__["cell"]
                    m[pos:pos + size] = init.to_bytes(size, "little")
                else:
                    kern.map_update(e.d.fd, struct.pack("<I", 7),
                                    bytes(8) + init.to_bytes(size, "little")
                                    + bytes(8 - size))
                reps = 3 if tier == "quick" else 5
                for rep in range(reps):
                    if kind == "array":
                        pos = e.__dict__["cell"]
                        before = int.from_bytes(m[pos:pos + size], "little")
                    else:
                        v = kern.map_lookup(e.d.fd, struct.pack("<I", 7), 16)
                        before = int.from_bytes(v[8:8 + size], "little")
                    ths = [threading.Thread(
                        target=lambda: kern.test_run(ld.fd, bytes(64),
                                                     repeat=N))
                        for _ in range(T)]
                    for t in ths:
                        t.start()
                    for t in ths:
                        t.join()
                    if kind == "array":
                        after = int.from_bytes(m[pos:pos + size], "little")
                    else:
                        v = kern.map_lookup(e.d.fd, struct.pack("<I", 7), 16)
                        after = int.from_bytes(v[8:8 + size], "little")
                    delta = amount_raw(fmt, amount, amount_value, amt_in)
                    want = (before + T * N * delta) & mask
                    res.case(["stress", fmt, kind, amount, rep, before])
                    res.count("kernel_parallel_executions", T * N)
                    if after != want:
                        res.violation(
                            f"lost-update:{kind}",
                            f"kernel stress {fmt} {kind} {amount}: "
                            f"{T}x{N} runs, {before} -> {after}, want {want} "
                            f"(lost {(want - after) & mask})",
                            case=dict(fmt=fmt, kind=kind, amount=amount,
                                      stress=True))
            finally:
                ld.close()


def gen_context(rng, depth=2):
    """statements: ["add", counter, k] | ["sub", counter, k] |
    ["if", flag, body, else-body or None]"""
    out = []
    for _ in range(rng.randint(1, 4)):
        if depth and rng.random() < 0.4:
            out.append(["if", rng.randrange(3), gen_context(rng, depth - 1),
                        gen_context(rng, depth - 1)
                        if rng.random() < 0.4 else None])
        else:
            out.append([rng.choice(["add", "add", "add", "sub"]),
                        rng.randrange(4), rng.choice([1, 1, 1, 2, 3, 0x1234])])
    return out


def context_leg(res, rng, n):
    """in-place additions inside whole programs: several counters, the same
    and different constants in a row, inside and after conditional blocks
    that some executions skip; every combination of the conditions is run in
    the kernel, then two threads run the program in parallel; each counter
    must end at initial + sum of the amounts of the statements executed"""
    for _ in range(n):
        fmts = [rng.choice(["I", "Q", "q", "i"]) for _ in range(4)]
        stmts = gen_context(rng)
        m = ArrayMap()
        ns = {"license": "GPL", "m": m}
        for j, f in enumerate(fmts):
            ns[f"c{j}"] = m.globalVar(f)
        for j in range(3):
            ns[f"f{j}"] = m.globalVar("B")

        def emit(e, st):
            for s_ in st:
                if s_[0] == "if":
                    with getattr(e, f"f{s_[1]}") != 0 as Else:
                        emit(e, s_[2])
                    if s_[3] is not None:
                        with Else:
                            emit(e, s_[3])
                else:
                    cur = getattr(e, f"c{s_[1]}")
                    if s_[0] == "add":
                        cur += s_[2]
                    else:
                        cur -= s_[2]
                    setattr(e, f"c{s_[1]}", cur)

        def program(self):
            emit(self, stmts)
            self.r0 = 2
            self.exit()
        ns["program"] = program

        def deltas(st, flags, acc):
            for s_ in st:
                if s_[0] == "if":
                    if flags[s_[1]]:
                        deltas(s_[2], flags, acc)
                    elif s_[3] is not None:
                        deltas(s_[3], flags, acc)
                else:
                    acc[s_[1]] += s_[2] if s_[0] == "add" else -s_[2]
            return acc
        desc = dict(context=True, fmts=fmts, stmts=stmts)
        with kern.session() as sess:
            e = type("VfCtx", (XDP,), ns)()
            ld = prog.Loaded(e, sess)
            try:
                ld.load()
            except OSError:
                res.count("context_load_failed")
                continue
            try:
                res.count("context_programs")
                for flags in itertools.product((0, 1), repeat=3):
                    init = [rng.getrandbits(8 * struct.calcsize(f)) >> 1
                            for f in fmts]
                    for j, f in enumerate(fmts):
                        setattr(e, f"c{j}", init[j])
                    for j in range(3):
                        setattr(e, f"f{j}", flags[j])
                    ld.run_k(bytes(64))
                    d = deltas(stmts, flags, [0, 0, 0, 0])
                    res.case(["context", stmts, flags],
                             nontrivial=any(d))
                    res.count("context_runs")
                    for j, f in enumerate(fmts):
                        bits = 8 * struct.calcsize(f)
                        want = (init[j] + d[j]) & ((1 << bits) - 1)
                        got = getattr(e, f"c{j}") & ((1 << bits) - 1)
                        if got != want:
                            res.violation(
                                "wrong-amount:context",
                                f"conditions {flags}: counter c{j} ({f}) "
                                f"went from {init[j]} to {got}, the "
                                f"statements executed add {d[j]}",
                                case=dict(desc, flags=flags))
                            break
                    else:
                        continue
                    break
                else:
                    # two threads, conditions fixed
                    flags = tuple(rng.randrange(2) for _ in range(3))
                    for j in range(3):
                        setattr(e, f"f{j}", flags[j])
                    for j in range(4):
                        setattr(e, f"c{j}", 0)
                    N = 20000
                    ths = [threading.Thread(
                        target=lambda: kern.test_run(ld.fd, bytes(64),
                                                     repeat=N))
                        for _ in range(2)]
                    for t in ths:
                        t.start()
                    for t in ths:
                        t.join()
                    d = deltas(stmts, flags, [0, 0, 0, 0])
                    res.count("context_parallel_executions", 2 * N)
                    for j, f in enumerate(fmts):
                        bits = 8 * struct.calcsize(f)
                        want = (2 * N * d[j]) & ((1 << bits) - 1)
                        got = getattr(e, f"c{j}") & ((1 << bits) - 1)
                        if got != want:
                            res.violation(
                                "lost-update:context",
                                f"2x{N} parallel runs with conditions "
                                f"{flags}: counter c{j} ({f}) is {got}, "
                                f"expected {want}",
                                case=dict(desc, flags=flags, parallel=True))
                            break
            finally:
                ld.close()


def run_shard(params):
    res = Result()
    rng = random.Random(params["seed"] * 100069 + params["shard"])
    if params.get("stress"):
        stress(res, params["tier"], rng)
        return res
    if params.get("context"):
        context_leg(res, rng, params["n"])
        return res
    for fmt, kind, amount in params["combos"]:
        try:
            explore(fmt, kind, amount, res, rng, params["tier"])
            if amount in ("const", "negconst", "isub"):
                # the 32-bit immediate boundary, always
                explore(fmt, kind, amount, res, rng, params["tier"],
                        amount_value=0x80000000)
        except ebpfvm.VMFault as ex:
            res.inconc(f"V fault in {fmt}/{kind}/{amount}: {ex}")
    return res


def finalize(res, tier, seed):
    c = res.counters
    missing = [f"{f}/{k}/{a}" for f in FMTS for k in ("array", "dict")
               for a in AMOUNTS if not (a in FIXED_ONLY and f != "x")
               and not (a == "mm_same" and f == "x")
               and not (a == "stack_value" and k != "dict")
               and not c.get(f"schedules[{f}/{k}/{a}/2]")]
    res.info["shared_combinations_without_schedules"] = missing
    if missing:
        res.inconc(f"no schedules explored for {missing}")
    if not c.get("context_runs"):
        res.inconc("whole-program leg did not run")
    if not c.get("kernel_parallel_executions"):
        res.inconc("kernel stress leg did not run")


def replay(v):
    res = Result()
    c = v["case"]
    if c.get("stress"):
        stress(res, "quick", random.Random(0))
    else:
        explore(c["fmt"], c["kind"], c["amount"], res, random.Random(0),
                "quick")
    return res
