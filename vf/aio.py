"""virtual-time asyncio loop and task-scheduling helpers"""
import asyncio
import selectors


class Idle(Exception):
    """nothing is ready and nothing is scheduled: the program would block
    forever"""


class _VSelector(selectors.DefaultSelector):
    loop = None

    def select(self, timeout=None):
        ready = super().select(0)
        if ready:
            return ready
        if timeout is None:
            raise Idle("virtual loop idle: no ready callback, no timer")
        if timeout > 0:
            self.loop._vtime += timeout
        return ready


class VLoop(asyncio.SelectorEventLoop):
    """SelectorEventLoop whose clock only moves when nothing is ready"""

    def __init__(self):
        sel = _VSelector()
        super().__init__(sel)
        sel.loop = self
        self._vtime = 1000.0
        self.iterations = 0
        self.on_iteration = None

    def time(self):
        return self._vtime

    def _run_once(self):
        self.iterations += 1
        if self.on_iteration is not None:
            self.on_iteration()
        super()._run_once()


class WallClock(Exception):
    """generous wall-clock watchdog fired: inconclusive, never a verdict"""


def _alarm(signum, frame):
    raise WallClock("wall-clock watchdog fired")


def run(coro_fn, max_iterations=2_000_000, patch_monotonic=True,
        wall_limit=60, stop_if=None):
    """run coro_fn(loop) to completion on a fresh virtual loop; stop_if() is
    asked at every loop iteration and ends the run with Idle(its message):
    a bound in logical terms the caller knows (e.g. accesses issued)"""
    import signal
    import threading
    use_alarm = threading.current_thread() is threading.main_thread()
    if use_alarm:
        old_handler = signal.signal(signal.SIGALRM, _alarm)
        signal.setitimer(signal.ITIMER_REAL, wall_limit)
    try:
        return _run(coro_fn, max_iterations, patch_monotonic, stop_if)
    finally:
        if use_alarm:
            signal.setitimer(signal.ITIMER_REAL, 0)
            signal.signal(signal.SIGALRM, old_handler)


def _run(coro_fn, max_iterations, patch_monotonic, stop_if=None):
    loop = VLoop()
    asyncio.set_event_loop(loop)
    olds = []
    if patch_monotonic:
        import ebpfcat.ebpfcat as ec
        olds.append((ec, "monotonic", ec.monotonic))
        ec.monotonic = loop.time
        try:
            import ebpfcat.devices as dv
            olds.append((dv, "monotonic", dv.monotonic))
            dv.monotonic = loop.time
        except Exception:
            pass

    def guard():
        if loop.iterations > max_iterations:
            raise Idle(f"more than {max_iterations} loop iterations")
        if stop_if is not None:
            why = stop_if()
            if why:
                raise Idle(why)
    loop.on_iteration = guard
    try:
        return loop.run_until_complete(coro_fn(loop))
    finally:
        for mod, name, val in olds:
            setattr(mod, name, val)
        try:
            pending = [t for t in asyncio.all_tasks(loop) if not t.done()]
            for t in pending:
                t.cancel()
            if pending:
                loop.on_iteration = None
                loop.run_until_complete(
                    asyncio.gather(*pending, return_exceptions=True))
        except BaseException:
            pass
        asyncio.set_event_loop(None)
        loop.close()
