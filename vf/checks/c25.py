"""C25 terminal addresses assigned by the master are unique"""
import asyncio
import random
import struct

from .. import aio, bus, frames, use_repo
from ..core import Result
use_repo()

from ebpfcat.ethercat import EtherCat, Terminal  # noqa: E402

PROPERTY = "C25"
LEVEL = "exploration"
RULE = ("simulated buses of 2-40 terminals with seeded pre-assigned station "
        "addresses (inside and outside the configured range, distinct) and "
        "unaddressed ones; terminal_addr_range narrowed on the instance to "
        "count+slack so that collisions are likely if the bookkeeping is "
        "wrong; concurrent Terminal.initialize(relative=-i) for all "
        "terminals, scan_serial_numbers(), and both one after the other, "
        "with seeded frame delays; every write to register 0x10 seen by the "
        "terminal models is checked: inside the range, never equal to an "
        "address at which a terminal already answered, pairwise distinct at "
        "every moment. a case = one bus history; non-trivial = >= 2 "
        "addresses assigned")
ASSUMPTIONS = []
MIN_EVALUATIONS = {"quick": 100, "thorough": 3000}
SHARD_TIMEOUT = {"quick": 240, "thorough": 3000}


def plan(tier, seed):
    n = 50 if tier == "quick" else 400
    return [dict(seed=seed, shard=i, n=n) for i in range(16)]


def eeprom_image(serial):
    img = bytearray(b"\0" * 16) + struct.pack("<IIII", 2, 0x1234, 1, serial)
    img += bytes(128 - len(img)) + b"\xff" * 24
    return bytes(img)


def gen_case(rng):
    mode = rng.choice(["initialize", "scan", "scan+initialize",
                       "scan||initialize", "scan||initialize",
                       "two-masters", "cancelled-scan+scan",
                       "reinit-after-insert", "reconnect", "scan+hotplug"])
    n = rng.randint(2, 40)
    if mode == "scan||initialize":
        n = rng.randint(2, 6)      # few addresses: collisions are likely
    if mode in ("cancelled-scan+scan", "reinit-after-insert", "reconnect",
                "scan+hotplug"):
        n = rng.randint(2, 8)
    lo = rng.choice([1, 100, 1000, 30000])
    slack = rng.choice([0, 1, 2, 5, 20])
    # scan followed by initialize hands out up to 2n addresses; the range
    # is never exhausted (exhaustion is outside the statement)
    hi = lo + 2 * n + slack - 1
    if mode == "two-masters":
        # each master hands out addresses from its own half of the range
        hi = lo + 2 * (2 * n + slack) - 1
    pre = {}
    used = set()
    for i in range(n):
        r = rng.random()
        if r < 0.3:
            a = rng.randint(lo, hi)
        elif r < 0.4:
            a = rng.choice([hi + 1 + rng.randint(0, 50), max(1, lo - 1
                                                             - rng.randint(0, 5))])
        else:
            continue
        if a == 0:
            continue
        if a in used and rng.random() > 0.5:
            continue
        # (now and then two terminals carry the same stale address from an
        # earlier configuration: a probe there comes back processed twice)
        used.add(a)
        pre[i] = a
    if mode in ("initialize", "scan") and rng.random() < 0.3:
        # a range with exactly as many addresses as there are terminals
        # (all of them unaddressed): the last free address is found while
        # the others are still being written
        n = rng.randint(2, 10)
        if rng.random() < 0.25:
            # a long segment: more than a hundred allocations in flight at
            # the same time
            n = rng.randint(70, 160)
        hi = lo + n - 1 + rng.choice([0, 0, 3])
        pre = {}
    return dict(n=n, range=[lo, hi], pre={str(k): v for k, v in pre.items()},
                mode=mode, tight=(hi - lo + 1 == n and not pre),
                stagger=[rng.randint(0, 60) for _ in range(8)],
                # now and then a reply takes a third of a second and more
                # (a long segment, a busy gateway): no verdict may hang on
                # how long a probe takes
                delays=[rng.choice([0.0001, 0.0002, 0.001] * 8
                                   + [0.35, 1.2]) for _ in
                        range(20)], rseed=rng.getrandbits(32),
                # transport faults: some reply frames arrive truncated
                faults=rng.choice([0, 0, 0, 0.02, 0.06]),
                faultseed=rng.getrandbits(32),
                serials=[rng.choice([0, rng.getrandbits(24) + 1])
                         for _ in range(n)],
                # loop iterations after which the first scan is cancelled
                cancel_after=rng.randint(1, 400))


def run_case(case):
    random.seed(case["rseed"])
    n = case["n"]
    terms = []
    for i in range(n):
        t = bus.SimTerminal(f"T{i}", eeprom=eeprom_image(case["serials"][i]),
                            station=case["pre"].get(str(i), 0))
        terms.append(t)
    b = bus.Bus(terms)
    writes = []        # (terminal index, address) in global order
    def hook(i, t):
        orig = t.write

        def w(addr, data, t=t, orig=orig):
            orig(addr, data)
            if addr <= 0x10 < addr + len(data):
                # (terminal index at that moment, address, everybody's)
                writes.append((terms.index(t), t.station,
                               [x.station for x in terms]))
        t.write = w
    for i, t in enumerate(terms):
        hook(i, t)
    result = {}

    async def main(loop):
        ec = EtherCat("vf")
        ec.terminal_addr_range = tuple(case["range"])
        k = [0]

        frng = random.Random(case.get("faultseed", 0))

        apwr = [0]
        hooks = {}

        def policy(nf, data):
            k[0] += 1
            resp = b.process(data)
            if hooks.get("on_apwr"):
                try:
                    dgs = frames.parse(data)[2]
                except Exception:
                    dgs = []
                for d in dgs[1:]:
                    if d.cmd == 2 and d.addr[1] == 0x10:
                        apwr[0] += 1
                        hooks["on_apwr"](apwr[0])
            if case.get("faults") and frng.random() < case["faults"] \
                    and len(resp) > 20:
                resp = resp[:frng.randint(16, len(resp) - 1)]
                result["truncated"] = result.get("truncated", 0) + 1
            return [(case["delays"][k[0] % len(case["delays"])], resp)]
        if case["mode"] == "reconnect":
            # the master object connects (its own connect()), starts on the
            # first terminals, connects a second time while their probes
            # are on the wire (FastEtherCat does so when connect() is
            # followed by run(); a reconnect does, too), then initialises
            # the others
            await bus.connect(ec, loop, b, policy)
            ts = [Terminal(ec) for _ in range(n)]
            half = max(1, n // 2)
            t1 = [asyncio.ensure_future(ts[i].initialize(relative=-i))
                  for i in range(half)]
            for _ in range(case["stagger"][0] % 12):
                await asyncio.sleep(0.0001)
            await bus.connect(ec, loop, b, policy)
            await asyncio.wait_for(asyncio.gather(
                *t1, *[ts[i].initialize(relative=-i)
                       for i in range(half, n)]), 5000)
            result["positions"] = [t.position for t in ts]
            return
        bus.attach(ec, loop, b, policy)
        if case["mode"] == "two-masters":
            # a second master on the same segment (same ethertype): both
            # see every returning frame; each initialises its own terminals
            # out of its own half of the range
            ec2 = EtherCat("vf")
            lo, hi = case["range"]
            mid = (lo + hi) // 2
            ec.terminal_addr_range = (lo, mid)
            ec2.terminal_addr_range = (mid + 1, hi)
            masters = [ec, ec2]

            def mk(me):
                def pol(nf, data):
                    k[0] += 1
                    resp = b.process(data)
                    d = case["delays"][k[0] % len(case["delays"])]
                    for other in masters:
                        if other is not me:
                            loop.call_later(d, other.datagram_received,
                                            resp, None)
                    return [(d, resp)]
                return pol
            ec.transport.policy = mk(ec)
            bus.attach(ec2, loop, b, mk(ec2))
            ts1 = [Terminal(ec) for _ in range(n)]
            ts2 = [Terminal(ec2) for _ in range(n)]
            jobs = []
            for i in range(n):
                t = (ts1 if i % 2 == 0 else ts2)[i]
                jobs.append(t.initialize(relative=-i))
            await asyncio.wait_for(asyncio.gather(*jobs), 5000)
            return
        if case["mode"] == "scan||initialize":
            # a scan while terminals are being initialised one by one
            ts = [Terminal(ec) for _ in range(n)]
            stag = case.get("stagger") or [0]

            async def later(i, t):
                for _ in range(stag[i % len(stag)]):
                    await asyncio.sleep(0)
                await t.initialize(relative=-i)

            pick = [i for i in range(n) if (i * 7 + stag[0]) % 3 == 0] or [0]
            rest = [i for i in range(n) if i not in pick]

            async def scan():
                for _ in range(stag[-1]):
                    await asyncio.sleep(0)
                result["scan"] = await ec.scan_serial_numbers()
                # the same task goes on initialising terminals right after
                for i in rest[:2]:
                    await ts[i].initialize(relative=-i)
            await asyncio.wait_for(asyncio.gather(
                scan(), *[later(i, ts[i]) for i in pick]), 5000)
            return
        if case["mode"] == "cancelled-scan+scan":
            # an application time-out cancels a scan somewhere in the
            # middle (requests may still be on the wire and take effect);
            # the scan is then run again
            task = asyncio.ensure_future(ec.scan_serial_numbers())
            if case["cancel_after"] % 2:
                # cancelled exactly while the reply to the k-th address
                # assignment is on the wire
                kth = 1 + case["cancel_after"] % max(1, sum(
                    1 for i in range(n) if str(i) not in case["pre"]))

                def on_apwr(count):
                    if count == kth and not task.done():
                        loop.call_soon(task.cancel)
                        result["cancelled_with_assignment_on_the_wire"] = 1
                hooks["on_apwr"] = on_apwr
                for _ in range(100000):
                    if task.done():
                        break
                    await asyncio.sleep(0.0005)
                hooks.clear()
            else:
                for _ in range(case["cancel_after"]):
                    if task.done():
                        break
                    await asyncio.sleep(0)
            result["first_scan_cancelled"] = not task.done() or bool(
                result.get("cancelled_with_assignment_on_the_wire"))
            task.cancel()
            await asyncio.gather(task, return_exceptions=True)
            await asyncio.sleep(0.05)      # what was on the wire lands
            result["scan"] = await asyncio.wait_for(
                ec.scan_serial_numbers(), 5000)
            return
        if case["mode"] == "reinit-after-insert":
            # terminals are initialised, a new terminal is plugged in at
            # the head of the segment (all positions shift), and the same
            # Terminal objects are initialised again
            ts = [Terminal(ec) for _ in range(n)]
            first = [i for i in range(n) if (i + case["stagger"][0]) % 2]
            first = first or [0]
            await asyncio.wait_for(asyncio.gather(
                *[ts[i].initialize(relative=-i) for i in first]), 5000)
            new = bus.SimTerminal("Tnew", eeprom=eeprom_image(77),
                                  station=0)
            terms.insert(0, new)
            hook(len(terms) - 1, new)
            await asyncio.wait_for(asyncio.gather(
                *[ts[i].initialize(relative=-i) for i in first]), 5000)
            return
        if case["mode"] == "scan+hotplug":
            # the bus is scanned; later terminals are plugged in behind the
            # others, some of them carrying an address from elsewhere
            # (configured by another tool, another master) that lies in this
            # master's range, the others without one: those are initialised.
            # The range has hardly more addresses than terminals.
            result["scan"] = await asyncio.wait_for(
                ec.scan_serial_numbers(), 5000)
            hrng = random.Random(case["faultseed"] ^ 0x77)
            lo_, hi_ = case["range"]
            free = [a for a in range(lo_, hi_ + 1)
                    if a not in {x.station for x in terms}]
            hrng.shuffle(free)
            nfree = len(free)
            k_ = min(hrng.randint(1, 3), max(0, nfree - 1))
            j_ = min(hrng.randint(1, 3), nfree - k_)
            foreign = free[:k_]
            # leave exactly the addresses the newcomers need (plus one now
            # and then): every other address of the range is in use
            spare = free[k_ + j_ + hrng.choice([0, 0, 1]):]
            new = []
            for a in foreign + spare:
                t_ = bus.SimTerminal(f"Tf{a}", eeprom=eeprom_image(0),
                                     station=a)
                terms.append(t_)
                hook(len(terms) - 1, t_)
            first_new = len(terms)
            for q in range(j_):
                t_ = bus.SimTerminal(f"Tn{q}", eeprom=eeprom_image(0),
                                     station=0)
                terms.append(t_)
                hook(len(terms) - 1, t_)
            result["hotplugged"] = [len(foreign) + len(spare), j_]
            ts = [Terminal(ec) for _ in range(j_)]
            await asyncio.wait_for(asyncio.gather(
                *[t.initialize(relative=-(first_new + q))
                  for q, t in enumerate(ts)]), 5000)
            return
        if "scan" in case["mode"]:
            result["scan"] = await asyncio.wait_for(
                ec.scan_serial_numbers(), 5000)
        if "initialize" in case["mode"]:
            ts = [Terminal(ec) for _ in range(n)]
            await asyncio.wait_for(asyncio.gather(
                *[t.initialize(relative=-i) for i, t in enumerate(ts)]),
                5000)
            result["positions"] = [t.position for t in ts]
    try:
        aio.run(main, max_iterations=3_000_000, wall_limit=30)
    except aio.WallClock as ex:
        result["watchdog"] = str(ex)
    except Exception as ex:
        result["error"] = f"{type(ex).__name__}: {str(ex)[:200]}"
    return terms, writes, result


def check_case(case, res):
    terms, writes, result = run_case(case)
    lo, hi = case["range"]
    res.case(case, nontrivial=len(writes) >= 2)
    res.count("address_writes", len(writes))
    res.count("mode[" + case["mode"] + "]")
    if case.get("tight"):
        res.count("ranges_with_exactly_one_address_per_terminal")
    if "watchdog" in result:
        res.inconc(f"wall-clock watchdog fired for {case}")
        return
    res.count("truncated_replies", result.get("truncated", 0))
    if case["mode"] == "cancelled-scan+scan" and \
            result.get("first_scan_cancelled"):
        res.count("scans_cancelled_in_the_middle")
        res.count("scans_cancelled_with_an_assignment_on_the_wire",
                  result.get("cancelled_with_assignment_on_the_wire", 0))
    if "error" in result and case["mode"] == "scan||initialize":
        # the scan may address a terminal whose address an initialisation
        # has just changed: the statement does not promise success, only
        # that whatever was handed out is unique and in range
        res.count("failed_under_concurrent_scan")
    elif "error" in result and result.get("truncated"):
        # a transport fault may make the initialisation fail; whatever
        # was assigned before must still be unique
        res.count("failed_under_transport_faults")
    elif "error" in result:
        res.violation("unexplained:raised", result["error"], case=case)
        return
    answered = set(int(v) for v in case["pre"].values())
    for i, addr, snapshot in writes:
        if not lo <= addr <= hi:
            res.violation("unexplained:outside-range",
                          f"terminal {i} got address {addr} outside "
                          f"[{lo}, {hi}]", case=case)
            return
        others = [a for j, a in enumerate(snapshot) if j != i and a != 0]
        if addr in others:
            res.violation("unexplained:duplicate-address",
                          f"terminal {i} got address {addr} which terminal "
                          f"{[j for j, a in enumerate(snapshot) if a == addr and j != i][0]}"
                          f" already answers to",
                          case=case)
            return
    # (terminals the master never wrote may keep a stale address they
    # shared from the start)
    written = {i for i, _, _ in writes}
    stale = [t.station for i, t in enumerate(terms)
             if t.station and i not in written]
    final = [t.station for i, t in enumerate(terms)
             if t.station and i in written] + sorted(set(stale))
    if len(final) != len(set(final)):
        res.violation("unexplained:duplicate-address",
                      f"final addresses not distinct: {sorted(final)}",
                      case=case)
        return
    if "positions" in result and not result.get("truncated") and \
            case["mode"] != "scan||initialize":
        if result["positions"] != [t.station for t in terms]:
            res.violation("unexplained:position-mismatch",
                          f"Terminal.position {result['positions'][:8]} vs "
                          f"registers {[t.station for t in terms][:8]}",
                          case=case)
            return
    if "scan" in result and case["mode"] == "scan" and \
            not result.get("truncated"):
        for i, t in enumerate(terms):
            if t.station == 0:
                res.violation("unexplained:scan-left-unaddressed",
                              f"terminal {i} has no address after the scan",
                              case=case)
                return
    if len(res.samples) < 2:
        res.sample(dict(n=case["n"], range=case["range"], pre=case["pre"],
                        mode=case["mode"],
                        writes=[(i, a) for i, a, _ in writes][:10]))


def run_shard(params):
    res = Result()
    rng = random.Random(params["seed"] * 100297 + params["shard"])
    if params["shard"] == 0:
        fork_leg(res, rng)
    for i in range(params["n"]):
        case = gen_case(rng)
        check_case(case, res)
        if case["mode"] == "scan||initialize" and i % 4 == 0:
            # sweep the start of the initialisations against the scan
            for off in range(0, 120, 3):
                c2 = dict(case, stagger=[off + (x % 5)
                                         for x in case["stagger"][:-1]]
                          + [case["stagger"][-1] % 8])
                check_case(c2, res)
                res.count("concurrent_sweep_points")
    return res


def fork_trial(rng, nterm=8):
    """two worker processes forked from this one (the default start method
    of multiprocessing on Linux) address the two halves of one bus at the
    same time; the bus lives here and serves both over socket pairs.
    Returns the station addresses, or None (watchdog)."""
    import os
    import selectors
    import socket
    terms = [bus.SimTerminal(f"T{i}", eeprom=eeprom_image(i + 1))
             for i in range(nterm)]
    b = bus.Bus(terms)
    # (station addresses above 32767 cannot be sent: the datagram header
    # is packed with a signed address)
    lo = rng.choice([1000, 100, 3000])
    rang = (lo, lo + 28999)
    halves = [list(range(0, nterm // 2)), list(range(nterm // 2, nterm))]
    socks, pids = [], []
    for idxs in halves:
        mine, theirs = socket.socketpair(socket.AF_UNIX,
                                         socket.SOCK_SEQPACKET)
        pid = os.fork()
        if pid == 0:
            code = 1
            try:
                mine.close()
                for s_ in socks:
                    s_.close()

                class Tr:
                    _sock = bus.FakeSock()

                    def get_extra_info(self, name, default=None):
                        return bus.FakeSock() if name == "socket" \
                            else default

                    def sendto(self, data, addr=None):
                        theirs.send(bytes(data))

                    def close(self):
                        pass

                async def worker():
                    loop = asyncio.get_running_loop()
                    ec = EtherCat("vf")
                    ec.terminal_addr_range = rang
                    ec.send_queue = asyncio.Queue()
                    ec.connection_made(Tr())
                    loop.add_reader(theirs, lambda: ec.datagram_received(
                        theirs.recv(65536), None))
                    ts = [Terminal(ec) for _ in idxs]
                    await asyncio.wait_for(asyncio.gather(
                        *[t.initialize(relative=-i)
                          for t, i in zip(ts, idxs)]), 25)
                theirs.recv(1)                  # the start signal
                asyncio.run(worker())
                code = 0
            except BaseException:
                import traceback
                traceback.print_exc()
            finally:
                os._exit(code)
        theirs.close()
        socks.append(mine)
        pids.append(pid)
    sel = selectors.DefaultSelector()
    for s_ in socks:
        sel.register(s_, selectors.EVENT_READ)
        s_.send(b"g")
    live = set(socks)
    import time
    t0 = time.time()
    # the frames of the two masters travel at the same time: a frame of
    # each is taken off the sockets before either is processed (a worker
    # that has nothing to send within 3 s is not waited for: every frame is
    # answered, so a live worker sends its next one as soon as it is given
    # the CPU - on a loaded machine that can take a while)
    while live and time.time() - t0 < 120:
        pending = {}
        t1 = time.time()
        while live - set(pending) and time.time() - t1 < 3:
            for key, _ in sel.select(0.05):
                s_ = key.fileobj
                if s_ in pending:
                    continue
                try:
                    data = s_.recv(65536)
                except OSError:
                    data = b""
                if not data:
                    sel.unregister(s_)
                    live.discard(s_)
                    continue
                pending[s_] = data
        for s_, data in pending.items():
            try:
                s_.send(b.process(data))
            except OSError:
                pass
    ok = not live
    for pid in pids:
        if live:
            try:
                os.kill(pid, 9)
            except OSError:
                pass
        _, st = os.waitpid(pid, 0)
        ok = ok and st == 0
    for s_ in socks:
        s_.close()
    return [t.station for t in terms] if ok else None


def fork_leg(res, rng):
    """(the draws of two independent masters can coincide - the code has no
    protection against that beyond the size of the range, about 5e-4 per
    trial here - so the verdict needs duplicates in two of three trials)"""
    dup = []
    for trial in range(3):
        st = fork_trial(rng)
        if st is None:
            res.inconc("fork leg: a worker did not finish")
            return
        res.count("fork_trials")
        res.case(["fork", trial, st], nontrivial=True)
        if 0 in st:
            res.violation("unexplained:fork-unaddressed",
                          f"forked workers left terminals unaddressed: {st}",
                          case=dict(kind="fork"))
            return
        if len(set(st)) != len(st):
            dup.append(st)
    if len(dup) >= 2:
        res.violation(
            "unexplained:forked-workers-hand-out-the-same-addresses",
            f"two forked worker processes addressed the two halves of one "
            f"bus at the same time; in {len(dup)} of 3 trials terminals "
            f"share an address: {dup[0]}", case=dict(kind="fork"))


def finalize(res, tier, seed):
    c = res.counters
    if not c.get("fork_trials"):
        res.inconc("fork leg did not run")
    for m in ("initialize", "scan", "scan+initialize", "scan||initialize",
              "two-masters", "cancelled-scan+scan", "reinit-after-insert",
              "reconnect", "scan+hotplug"):
        if not c.get(f"mode[{m}]"):
            res.inconc(f"mode {m} never ran")


def replay(v):
    res = Result()
    if v["case"].get("kind") == "fork":
        fork_leg(res, random.Random(0))
        return res
    check_case(v["case"], res)
    return res
