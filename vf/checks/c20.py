"""C20 a terminal's FMMUs are never shared by two live mappings"""
import asyncio
import struct

from .. import aio, bus, use_repo
from ..core import Result
use_repo()

from ebpfcat.ethercat import EtherCat, Terminal  # noqa: E402

PROPERTY = "C20"
LEVEL = "exploration"
RULE = ("ALL sequences of <= L operations (L=5 quick, 7 thorough) over {open "
        "read mapping, open write mapping, close the i-th open mapping} on "
        "terminals with 1..4 FMMUs, entered through the real "
        "Terminal.map_fmmu context manager over the simulated bus; after "
        "every step the slot table and the FMMU registers written at the "
        "terminal model are checked: live mappings <-> distinct FMMU indices "
        "inside [0, n), programming an FMMU that is live for another "
        "mapping is a violation, opening with none free raises and changes "
        "nothing, closing frees exactly its own FMMU and deactivates it; "
        "logical addresses distinct, starting at 0, all equal, or pairwise "
        "equal (inputs and outputs at one address as for LRW). "
        "Plus seeded histories of 2-4 concurrent tasks (sync groups sharing "
        "the terminal) opening, holding and closing mappings at random "
        "offsets: no FMMU is given to a task while another still uses it; "
        "closes by an exception in the body and with a faulted switch-off "
        "datagram; real sync groups over 2-3 terminals of which one has no "
        "free FMMU: after the failed start nothing stays booked. "
        "a case = one sequence; non-trivial = at least two mappings live at "
        "some point")
ASSUMPTIONS = ["a mapping that fails although some FMMU is free is not a "
               "violation (the statement only forbids sharing)"]
MIN_EVALUATIONS = {"quick": 500, "thorough": 10000}


def plan(tier, seed):
    L = 5 if tier == "quick" else 7
    return [dict(n=n, L=L, first=f, addr="distinct") for n in (1, 2, 3, 4)
            for f in ("R", "W")] + [
        # other logical-address layouts: starting at 0, all mappings at one
        # address, inputs and outputs pairwise at one address (LRW layout)
        dict(n=n, L=L - 1, first=f, addr=a) for n in (1, 2, 3, 4)
        for f in ("R", "W") for a in ("zero", "same", "pairs")] + [
        dict(n=n, concurrent=True, seed=seed,
             count=600 if tier == "quick" else 6000) for n in (1, 2, 3, 4)] \
        + [dict(n=0, group=True, seed=seed,
                count=40 if tier == "quick" else 600)]


def sequences(L, first):
    """all operation sequences: 'R', 'W', or ('C', i) closing the i-th
    currently open mapping; pruned to valid closes"""
    out = []

    def rec(seq, nopen):
        if seq:
            out.append(list(seq))
        if len(seq) == L:
            return
        for op in ("R", "W"):
            seq.append(op)
            rec(seq, nopen + 1)      # may fail to open; handled at run time
            seq.pop()
        if nopen >= 1 and "G" not in seq and len(seq) < L - 1:
            # the same Terminal object is looked at again by a parallel
            # user (gentle_initialize: re-reads EEPROM and sync managers)
            # while mappings are live
            seq.append("G")
            rec(seq, nopen)
            seq.pop()
        for i in range(nopen):
            # normal end, end by an exception raised in the body, end with
            # a faulted switch-off datagram (working counter 0)
            for how in ("C", "X", "F"):
                if how != "C" and len(seq) + 1 < L - 1 and nopen > 1:
                    continue        # variants only near the leaves
                seq.append((how, i))
                rec(seq, nopen - 1)
                seq.pop()
    rec([first], 1)
    return out


def next_logical(addr, k):
    """logical address of the k-th mapping opened (k = 0, 1, ...)"""
    if addr == "zero":
        return 0x1000 * k
    if addr == "same":
        return 0x10000
    if addr == "pairs":
        return 0x11000 + 0x1000 * (k // 2)
    return 0x11000 + 0x1000 * k


def run_seq(n, seq, addr="distinct"):
    img = bytearray(b"\0" * 16) + struct.pack("<IIII", 2, 0x99, 1, 5)
    img += bytes(128 - len(img)) + b"\xff" * 24
    t = bus.SimTerminal("T", station=9, fmmus=n, eeprom=bytes(img))
    t.al_state = 2
    struct.pack_into("<HHBBBB", t.mem, 0x810, 0x1000, 4, 0x24, 0, 1, 0)
    struct.pack_into("<HHBBBB", t.mem, 0x818, 0x1100, 6, 0x20, 0, 1, 0)
    b = bus.Bus([t])
    trace = []

    async def main(loop):
        ec = EtherCat("vf")
        bus.attach(ec, loop, b)
        term = Terminal(ec)
        term.position = 9
        term.fmmu_used = [None] * n
        term.pdo_in_off, term.pdo_in_sz = 0x1100, 6
        term.pdo_out_off, term.pdo_out_sz = 0x1000, 4
        live = []            # (cm, index, write, logical)
        nopened = 0
        for step, op in enumerate(seq):
            mark = len(t.events)
            before = list(term.fmmu_used)
            if op == "G":
                try:
                    await term.gentle_initialize(absolute=9)
                    outcome = ("gentle",)
                except Exception as ex:
                    outcome = ("gentle-failed", repr(ex))
            elif op in ("R", "W"):
                logical = next_logical(addr, nopened)
                nopened += 1
                cm = term.map_fmmu(logical, op == "W")
                try:
                    idx = await cm.__aenter__()
                    live.append((cm, idx, op == "W", logical))
                    outcome = ("opened", idx)
                except Exception as ex:
                    outcome = ("failed", type(ex).__name__)
            else:
                if op[1] >= len(live):
                    outcome = ("skip",)
                else:
                    cm, idx, w, lg = live.pop(op[1])
                    try:
                        if op[0] == "X":
                            class Boom(Exception):
                                pass
                            try:
                                await cm.__aexit__(Boom, Boom("body"), None)
                            except Boom:
                                pass
                            outcome = ("closed-by-exception", idx)
                        elif op[0] == "F":
                            b.wkc_override = lambda fno, dno, wkc: 0
                            try:
                                await cm.__aexit__(None, None, None)
                                outcome = ("closed", idx)
                            except Exception as ex:
                                outcome = ("closed-faulted", idx,
                                           type(ex).__name__)
                            finally:
                                b.wkc_override = None
                        else:
                            await cm.__aexit__(None, None, None)
                            outcome = ("closed", idx)
                    except Exception as ex:
                        outcome = ("close-failed", repr(ex))
            regs = [e for e in t.events[mark:] if e[0] == "fmmu"]
            trace.append(dict(op=op, outcome=outcome, before=before,
                              after=list(term.fmmu_used),
                              live=[(i, w, lg) for _, i, w, lg in live],
                              fmmu_writes=[(e[1], e[2].hex()) for e in regs]))
        for cm, idx, w, lg in reversed(live):
            await cm.__aexit__(None, None, None)
        return trace
    return aio.run(main), t


def check_trace(n, trace):
    live = {}     # index -> logical
    maxlive = 0
    for k, st in enumerate(trace):
        op, out = st["op"], st["outcome"]
        if out[0] == "opened":
            idx = out[1]
            lg = st["live"][-1][2]
            if not 0 <= idx < n:
                return f"step {k}: mapping got FMMU index {idx} of {n}", 0
            if idx in live:
                return (f"step {k}: new {'write' if op == 'W' else 'read'} "
                        f"mapping got FMMU {idx}, live for logical "
                        f"{live[idx]:#x}"), maxlive
            for fi, raw in st["fmmu_writes"]:
                if fi != idx and fi in live:
                    return (f"step {k}: programmed FMMU {fi} which is live "
                            f"for another mapping"), maxlive
            prog = [(fi, raw) for fi, raw in st["fmmu_writes"] if fi == idx]
            if not prog:
                return f"step {k}: FMMU {idx} was not programmed", maxlive
            lstart, ln, lsb, leb, phys, pb, typ, act = struct.unpack(
                "<IHBBHBBB", bytes.fromhex(prog[-1][1])[:13])
            if lstart != lg or not act & 1 or \
                    typ != (2 if op == "W" else 1):
                return (f"step {k}: FMMU {idx} programmed with logical "
                        f"{lstart:#x} type {typ} act {act}, expected "
                        f"{lg:#x}"), maxlive
            live[idx] = lg
        elif out[0] == "gentle":
            if st["after"] != st["before"]:
                return (f"step {k}: gentle_initialize changed the slot table "
                        f"{st['before']} -> {st['after']} while mappings "
                        f"were live"), maxlive
            if st["fmmu_writes"]:
                return (f"step {k}: gentle_initialize wrote FMMU registers "
                        f"of live mappings"), maxlive
        elif out[0] == "gentle-failed":
            return f"step {k}: gentle_initialize raised {out[1]}", maxlive
        elif out[0] == "failed":
            if st["after"] != st["before"]:
                return f"step {k}: failed open changed the slot table", \
                    maxlive
            if st["fmmu_writes"]:
                return f"step {k}: failed open wrote FMMU registers", maxlive
        elif out[0] in ("closed-by-exception", "closed-faulted"):
            # however a mapping ends, it frees its own slot (the statement
            # does not say the FMMU is switched off on these paths)
            idx = out[1]
            if idx not in live:
                return f"step {k}: closed FMMU {idx} that was not live", \
                    maxlive
            del live[idx]
        elif out[0] == "closed":
            idx = out[1]
            if idx not in live:
                return f"step {k}: closed FMMU {idx} that was not live", \
                    maxlive
            del live[idx]
            for fi, raw in st["fmmu_writes"]:
                if fi != idx:
                    return (f"step {k}: closing FMMU {idx} touched FMMU "
                            f"{fi}"), maxlive
            if not st["fmmu_writes"]:
                return f"step {k}: closing did not deactivate FMMU {idx}", \
                    maxlive
        elif out[0] == "close-failed":
            return f"step {k}: closing raised {out[1]}", maxlive
        table = {i for i, v in enumerate(st["after"]) if v is not None}
        if table != set(live):
            return (f"step {k}: slot table {st['after']} vs live mappings "
                    f"{sorted(live)}"), maxlive
        maxlive = max(maxlive, len(live))
    return None, maxlive


def run_concurrent(n, rng):
    """2-4 tasks (think: sync groups sharing the terminal) open mappings at
    seeded offsets, hold them and close them; returns the merged event list
    (FMMU register writes seen by the terminal + enter/exit of each task)"""
    t = bus.SimTerminal("T", station=9, fmmus=n)
    b = bus.Bus([t])
    ntask = rng.choice([2, 3, 4, 4, 5, 6])
    addr = rng.choice(["distinct", "distinct", "zero", "same", "pairs"])
    # (a bus round trip takes several passes of the event loop: offsets up
    # to a few dozen passes let a mapping start inside another mapping's
    # configuration or switch-off round trip)
    wide = rng.choice([4, 4, 12, 40])
    plan_ = [dict(write=rng.random() < 0.4, start=rng.randint(0, wide),
                  hold=rng.randint(0, rng.choice([6, 6, 20])),
                  logical=next_logical(addr, k))
             for k in range(ntask)]
    # a terminal that never went through initialize (gentle_initialize)
    # has no slot table when its first mappings are requested
    no_table = rng.random() < 0.12
    if no_table:
        plan_[0]["no_slot_table"] = True
        for p_ in plan_[:3]:
            p_["start"] = rng.choice([0, 0, 1, 2])
    if rng.random() < 0.5:
        # chained: most tasks start relative to an earlier one
        for k in range(1, ntask):
            if rng.random() < 0.8:
                plan_[k]["after"] = [rng.choice(["exit", "exit", "done"]),
                                     rng.randrange(k)]
                plan_[k]["start"] = rng.randint(0, 6)
                plan_[k]["hold"] = rng.choice([0, 3, 10, 30, 60])

    async def main(loop):
        ec = EtherCat("vf")
        bus.attach(ec, loop, b)
        term = Terminal(ec)
        term.position = 9
        if not no_table:
            term.fmmu_used = [None] * n
        term.pdo_in_off, term.pdo_in_sz = 0x1100, 6
        term.pdo_out_off, term.pdo_out_sz = 0x1000, 4

        marks = {}

        def mark(kind, k):
            marks.setdefault((kind, k), asyncio.Event()).set()

        async def user(k, p):
            if p.get("after"):
                # start relative to another task: when its block is left
                # (its switch-off round trip begins) or when its mapping
                # has ended altogether
                kind, j = p["after"]
                ev = marks.setdefault((kind, j), asyncio.Event())
                try:
                    await asyncio.wait_for(ev.wait(), 5)
                except asyncio.TimeoutError:
                    pass
            for _ in range(p["start"]):
                await asyncio.sleep(0)
            try:
                async with term.map_fmmu(p["logical"], p["write"]) as idx:
                    t.events.append(("enter", k, idx,
                                     list(term.fmmu_used)))
                    for _ in range(p["hold"]):
                        await asyncio.sleep(0)
                    t.events.append(("exit", k, idx))
                    mark("exit", k)
            except (ValueError, IndexError, AttributeError) as ex:
                # (AttributeError: a terminal that was taken over without
                # initialize has no slot table; refusing to map is no
                # violation)
                t.events.append(("failed", k, type(ex).__name__,
                                 list(getattr(term, "fmmu_used", None)
                                      or [])))
            finally:
                mark("exit", k)
                mark("done", k)
        await asyncio.gather(*[user(k, p) for k, p in enumerate(plan_)])
        return list(getattr(term, "fmmu_used", None) or [])
    final = aio.run(main)
    return plan_, t.events, final


def check_concurrent(n, plan_, events, final):
    live = {}          # fmmu index -> task
    maxlive = 0
    for e in events:
        if e[0] == "enter":
            _, k, idx, table = e
            if not 0 <= idx < n:
                return f"task {k} got FMMU index {idx} of {n}", maxlive
            if idx in live:
                return (f"task {k} was given FMMU {idx} while task "
                        f"{live[idx]} still uses it"), maxlive
            live[idx] = k
            maxlive = max(maxlive, len(live))
        elif e[0] == "exit":
            _, k, idx = e
            if live.get(idx) == k:
                del live[idx]
        elif e[0] == "fmmu":
            fi, raw = e[1], e[2]
            lstart, ln, lsb, leb, phys, pb, typ, act = struct.unpack(
                "<IHBBHBBB", raw[:13])
            if act & 1 and fi in live and \
                    plan_[live[fi]]["logical"] != lstart:
                return (f"FMMU {fi} reprogrammed for logical {lstart:#x} "
                        f"while task {live[fi]} uses it"), maxlive
        elif e[0] == "failed":
            _, k, exn, table = e
            if len(live) < (min(2, n) if plan_[k]["write"] else n) and \
                    False:
                pass     # failing with a free FMMU is not a violation
    if any(v is not None for v in final):
        return f"slot table {final} after all mappings ended", maxlive
    return None, maxlive


def group_leg(params, res):
    """a real sync group over 2-3 terminals of which one has no free FMMU
    left (another live mapping holds it): the group's start fails, and
    afterwards every FMMU of the other terminals is free again and the
    mapping that was live before is untouched"""
    import random
    from .. import simgroup
    from ebpfcat.ebpfcat import SimpleEtherCat, SyncGroup
    rng = random.Random(params["seed"] * 31 + 5)
    for round_ in range(params["count"]):
        terms = simgroup.gen_terms(rng, nmax=3)
        if len(terms) < 2:
            terms = terms + simgroup.gen_terms(rng, nmax=1)
            terms[-1]["pos"] = 30
        for d in terms:
            d["fmmu"] = True
        victim = rng.randrange(len(terms))
        sims = simgroup.make_sims(terms)
        b = bus.Bus(sims)
        out = {}

        async def main(loop):
            ec = SimpleEtherCat("vf")
            bus.attach(ec, loop, b)
            ts, devs = simgroup.make_rig(terms, ec)
            nf = rng.choice([1, 2])
            ts[victim].fmmu_used = [None] * nf
            holders = []
            for k in range(nf):
                cm = ts[victim].map_fmmu(0x70000 + 0x1000 * k, False)
                await cm.__aenter__()
                holders.append(cm)
            held = list(ts[victim].fmmu_used)
            sg = SyncGroup(ec, devs)
            task = sg.start()
            res_ = await asyncio.gather(task, return_exceptions=True)
            await asyncio.sleep(0.05)
            out["outcome"] = repr(res_[0])[:100]
            out["held_before"], out["held_after"] = held, \
                list(ts[victim].fmmu_used)
            out["others"] = {t.name: list(t.fmmu_used)
                             for i, t in enumerate(ts) if i != victim}
            for cm in holders:
                await cm.__aexit__(None, None, None)
        try:
            aio.run(main, max_iterations=200000)
        except aio.Idle:
            res.inconc("group leg: virtual loop ran away")
            continue
        desc = dict(terms=terms, victim=victim)
        res.case(["group", round_, desc])
        res.count("group_starts_with_exhausted_terminal")
        if "ValueError" not in out["outcome"] and \
                "IndexError" not in out["outcome"]:
            res.count("group_outcome_other")
            res.sample(dict(group_outcome=out["outcome"], **desc), limit=2)
        if out["held_after"] != out["held_before"]:
            res.violation("unexplained:group-failure-disturbed-live-mapping",
                          f"slots of the exhausted terminal {out['held_before']}"
                          f" -> {out['held_after']}", case=desc)
        leaked = {k: v for k, v in out["others"].items()
                  if any(x is not None for x in v)}
        if leaked:
            res.violation("unexplained:group-failure-leaks-fmmu",
                          f"the group failed ({out['outcome']}) but "
                          f"terminals keep FMMUs booked: {leaked}",
                          case=desc)


def cancel_leg(params, res):
    """a real sync group is cancelled while it runs, its task is awaited,
    and right then - by the one who awaited it - a new group over the same
    terminal objects is started: the cancelled group's mappings have ended,
    so their FMMUs are free (the new group maps; no two live mappings share
    an FMMU)"""
    import random
    from .. import simgroup
    from ebpfcat.ebpfcat import SimpleEtherCat, SyncGroup
    rng = random.Random(params["seed"] * 37 + 11)
    for round_ in range(params["count"] // 2):
        terms = simgroup.gen_terms(rng, nmax=3)
        for d in terms:
            d["fmmu"] = True
        nf = rng.choice([2, 2, 3, 4])
        wait = rng.choice([0.01, 0.03, 0.06])
        sims = simgroup.make_sims(terms)
        b = bus.Bus(sims)
        out = {}

        async def main(loop):
            ec = SimpleEtherCat("vf")
            bus.attach(ec, loop, b)
            ts, devs = simgroup.make_rig(terms, ec)
            for t in ts:
                t.fmmu_used = [None] * nf
            sg = SyncGroup(ec, devs)
            task = sg.start()
            await asyncio.sleep(wait)
            out["booked"] = {t.name: list(t.fmmu_used) for t in ts}
            task.cancel()
            try:
                await task
            except asyncio.CancelledError:
                pass
            out["after"] = {t.name: list(t.fmmu_used) for t in ts}
            sg2 = SyncGroup(ec, devs)
            task2 = sg2.start()
            await asyncio.sleep(wait)
            out["second"] = repr(task2.exception())[:120] if task2.done() \
                else "running"
            out["booked2"] = {t.name: list(t.fmmu_used) for t in ts}
            task2.cancel()
            await asyncio.gather(task2, return_exceptions=True)
        import logging
        logging.disable(logging.WARNING)
        try:
            aio.run(main, max_iterations=200000)
        except aio.Idle:
            res.inconc("cancel leg: virtual loop ran away")
            continue
        finally:
            logging.disable(logging.NOTSET)
        desc = dict(kind="cancel", terms=terms, fmmus=nf, wait=wait)
        res.case(["cancel", round_, desc],
                 nontrivial=any(x is not None for v in out["booked"].values()
                                for x in v))
        res.count("groups_cancelled_and_started_again")
        held = {k: v for k, v in out["after"].items()
                if any(x is not None for x in v)}
        if held:
            res.violation(
                "unexplained:cancelled-group-keeps-fmmus",
                f"the group was cancelled and its task awaited; the one who "
                f"awaited it finds FMMUs still booked: {held} (booked while "
                f"running: {out['booked']})", case=desc)
        elif out["second"] != "running":
            res.violation(
                "unexplained:cancelled-group-keeps-fmmus",
                f"a second group over the same terminals, started right "
                f"after the first was cancelled, ended {out['second']}",
                case=desc)


def reinit_leg(params, res):
    """a terminal is initialised again (the real Terminal.initialize) while
    a group's task enters a mapping at some point of that initialisation;
    afterwards another mapping is entered: the two live mappings must not
    get the same FMMU, and no FMMU that is live for one logical address is
    programmed for another"""
    for n in (2, 3, 4):
        for k in range(0, 40):
            img = bytearray(b"\0" * 16) + struct.pack("<IIII", 2, 0x99, 1, 5)
            img += bytes(128 - len(img)) + b"\xff" * 24
            t = bus.SimTerminal("T", station=9, fmmus=n, eeprom=bytes(img))
            b = bus.Bus([t])
            out = {}

            async def main(loop):
                ec = EtherCat("vf")
                bus.attach(ec, loop, b)
                term = Terminal(ec)
                await term.initialize(absolute=9)
                term.pdo_in_off, term.pdo_in_sz = 0x1100, 6
                t.events.clear()
                again = asyncio.ensure_future(term.initialize(absolute=9))
                for _ in range(k):
                    await asyncio.sleep(0.00005)
                out["during"] = not again.done()
                cm2 = term.map_fmmu(0x2000, False)
                i2 = await cm2.__aenter__()
                await again
                cm3 = term.map_fmmu(0x3000, False)
                i3 = await cm3.__aenter__()
                out["idx"] = (i2, i3)
                out["table"] = list(term.fmmu_used)
                await cm3.__aexit__(None, None, None)
                await cm2.__aexit__(None, None, None)
            try:
                aio.run(main, max_iterations=200000)
            except aio.WallClock:
                res.inconc("re-initialisation leg: wall-clock watchdog")
                continue
            except Exception as ex:
                res.count("reinit_histories_that_raised")
                continue
            desc = dict(reinit=True, fmmus=n, enter_after=k)
            res.case(["reinit", n, k], nontrivial=out.get("during", False))
            res.count("reinit_histories")
            if out.get("during"):
                res.count("mappings_entered_during_a_re_initialisation")
            # (a mapping entered before the re-initialisation resets the
            # slot table dies with it: its FMMU is switched off by the
            # initialisation. What must not happen is that an FMMU which
            # is still switched on for one logical address is programmed
            # for another - followed in the register writes)
            live = {}
            for e in t.events:
                if e[0] != "fmmu":
                    continue
                lstart, ln, lsb, leb, phys, pb, typ, act = struct.unpack(
                    "<IHBBHBBB", e[2][:13])
                if act & 1 and ln:
                    if e[1] in live and live[e[1]] != lstart:
                        res.violation(
                            "unexplained:reinit-shared-fmmu",
                            f"{n} FMMUs, mapping entered {k} steps into the "
                            f"re-initialisation: FMMU {e[1]}, switched on "
                            f"for logical {live[e[1]]:#x}, was programmed "
                            f"for {lstart:#x} (slot table {out['table']})",
                            case=desc)
                        break
                    live[e[1]] = lstart
                elif not act & 1:
                    live.pop(e[1], None)


def shared_leg(params, res):
    """two real sync groups that share terminals: group A (reads and
    writes) runs, then - optionally after a terminal has raised its error
    flag, which the second bring-up acknowledges - group B (reads only)
    starts on the same terminals; A then ends by cancellation or by an
    exception in a device, or not at all. The FMMU register writes at the
    terminals are followed: no FMMU that is live for one mapping is
    programmed for another, and while B runs its mappings stay switched
    on"""
    import random
    from .. import simgroup
    from ebpfcat.ebpfcat import (PacketVar, SimpleEtherCat, SyncGroup,
                                 SyncManager)
    rng = random.Random(params["seed"] * 37 + 11)
    for round_ in range(params["count"]):
        terms = simgroup.gen_terms(rng, nmax=3)
        for d in terms:
            d["fmmu"] = True
        terms[0]["rw"] = True
        how = rng.choice(["cancel", "cancel", "raise", "stay"])
        error_on = rng.choice([None, None, 0, len(terms) - 1])
        third = rng.random() < 0.5
        sims = simgroup.make_sims(terms)
        b = bus.Bus(sims)
        out = {}

        class Boom(Exception):
            pass

        async def main(loop):
            ec = SimpleEtherCat("vf")
            bus.attach(ec, loop, b)
            ts, devs_a = simgroup.make_rig(terms, ec)
            sub = [i for i in range(len(ts)) if rng.random() < 0.7] or [0]
            devs_b = [simgroup.RecDevice(
                PacketVar(ts[i], SyncManager.IN, 0, "H"), None, 50 + i)
                for i in sub]
            sga = SyncGroup(ec, devs_a)
            ta = sga.start()
            await asyncio.sleep(0.1)
            if error_on is not None:
                sims[error_on].al_error = True
                sims[error_on].al_code = 0x1b
            sgb = SyncGroup(ec, devs_b)
            tb = sgb.start()
            await asyncio.sleep(0.1)
            tc = None
            if third:
                # (FMMUs are mapped before the bring-up: what a bring-up did
                # to the slot table shows when the next group maps)
                sgc = SyncGroup(ec, [simgroup.RecDevice(
                    PacketVar(ts[i], SyncManager.IN, 0, "H"), None, 70 + i)
                    for i in sub])
                tc = sgc.start()
                await asyncio.sleep(0.1)
            out["b_updates_before"] = devs_b[0].n
            if how == "cancel":
                ta.cancel()
            elif how == "raise":
                def boom():
                    raise Boom("device failed")
                devs_a[0].update = boom
            await asyncio.sleep(0.15)
            out["b_running"] = not tb.done()
            out["b_outcome"] = None if not tb.done() else repr(
                tb.exception() if not tb.cancelled() else "cancelled")[:80]
            out["b_maps"] = {t.position: dict(m)
                             for t, m in sgb.fmmu_maps.items()}
            out["active"] = {s.station: [(i, ls) for i, ls, ln, ph, ty
                                         in s.fmmus()] for s in sims}
            out["b_updates"] = devs_b[0].n
            tb.cancel()
            ta.cancel()
            if tc is not None:
                tc.cancel()
                await asyncio.gather(tc, return_exceptions=True)
            await asyncio.gather(ta, tb, return_exceptions=True)
        try:
            aio.run(main, max_iterations=400000)
        except aio.Idle:
            res.inconc("shared-terminal leg: virtual loop ran away")
            continue
        except aio.WallClock:
            res.inconc("shared-terminal leg: wall-clock watchdog")
            continue
        desc = dict(terms=terms, how=how, error_on=error_on, shared=True,
                    third_group=third)
        if third:
            res.count("histories_with_a_third_group")
        res.case(["shared", round_, desc])
        res.count("histories_of_two_groups_sharing_terminals")
        res.count(f"first_group_end[{how}]")
        if error_on is not None:
            res.count("second_bring_up_acknowledges_an_error")
        # 1. register writes: an FMMU live for one mapping is not programmed
        # for another
        bad = None
        for s_ in sims:
            live = {}
            for e in s_.events:
                if e[0] != "fmmu":
                    continue
                lstart, ln, lsb, leb, phys, pb, typ, act = struct.unpack(
                    "<IHBBHBBB", e[2][:13])
                if act & 1 and ln:
                    if e[1] in live and live[e[1]] != lstart:
                        bad = (f"{s_.name}: FMMU {e[1]}, live for logical "
                               f"{live[e[1]]:#x}, was programmed for "
                               f"{lstart:#x}")
                        break
                    live[e[1]] = lstart
                elif not act & 1:
                    live.pop(e[1], None)
            if bad:
                break
        if bad:
            res.violation("unexplained:shared-fmmu-reprogrammed", bad,
                          case=desc)
            continue
        # 2. B's mappings are still switched on while B runs
        if not out["b_running"]:
            res.violation("unexplained:second-group-ended",
                          f"the second group ended by itself: "
                          f"{out['b_outcome']}", case=desc)
            continue
        for pos, maps in out["b_maps"].items():
            for sm, base in maps.items():
                if not any(ls == base for i, ls in out["active"][pos]):
                    res.violation(
                        "unexplained:live-mapping-switched-off",
                        f"terminal {pos}: the running second group maps "
                        f"logical {base:#x}, no active FMMU has it "
                        f"(active {out['active'][pos]}) after the first "
                        f"group ended by {how}", case=desc)
                    break
            else:
                continue
            break


def run_shard(params):
    res = Result()
    if params.get("group"):
        group_leg(params, res)
        shared_leg(params, res)
        reinit_leg(params, res)
        cancel_leg(params, res)
        return res
    n = params["n"]
    if params.get("concurrent"):
        import random
        rng = random.Random(params["seed"] * 7919 + n)
        sigs = set()
        for _ in range(params["count"]):
            plan_, events, final = run_concurrent(n, rng)
            why, maxlive = check_concurrent(n, plan_, events, final)
            order = tuple((e[0], e[1]) for e in events
                          if e[0] in ("enter", "exit", "failed", "fmmu"))
            sigs.add(hash(order))
            desc = dict(fmmus=n, concurrent=plan_)
            res.case(desc, nontrivial=maxlive >= 2)
            res.count("concurrent_histories")
            res.count("concurrent_outcome:failed",
                      sum(1 for e in events if e[0] == "failed"))
            res.count("concurrent_outcome:entered",
                      sum(1 for e in events if e[0] == "enter"))
            if why:
                res.violation("unexplained:concurrent-" + why.split(" ")[0],
                              f"{n} FMMUs, tasks {plan_}: {why}", case=desc,
                              witness=[e[:3] for e in events
                                       if e[0] != "write"][:40])
        res.info["distinct_interleavings"] = len(sigs)
        return res
    for seq in sequences(params["L"], params["first"]):
        addr = params.get("addr", "distinct")
        trace, t = run_seq(n, seq, addr)
        why, maxlive = check_trace(n, trace)
        res.count("sequences[addresses " + addr + "]")
        desc = dict(fmmus=n, addresses=addr, ops=[o if isinstance(o, str) else list(o)
                                  for o in seq])
        res.case(desc, nontrivial=maxlive >= 2)
        res.count("steps", len(trace))
        for st in trace:
            res.count("outcome:" + st["outcome"][0])
        if why:
            key = "unexplained:" + why.split(": ", 1)[1].split(" ")[0]
            if "live for logical" in why and "write" in why:
                key = "write-mapping-slot-search-off-by-one"
            res.violation(key, f"{n} FMMUs, ops {desc['ops']}: {why}",
                          case=desc, witness=trace)
        elif len(res.samples) < 2 and maxlive >= 2:
            res.sample(dict(desc, trace=[(s["op"], s["outcome"], s["after"])
                                         for s in trace]))
    res.info["exhaustive"] = True
    return res


def finalize(res, tier, seed):
    c = res.counters
    for k in ("outcome:opened", "outcome:failed", "outcome:closed",
              "concurrent_outcome:entered", "concurrent_outcome:failed",
              "group_starts_with_exhausted_terminal",
              "outcome:closed-by-exception", "outcome:closed-faulted"):
        if not c.get(k):
            res.inconc(f"{k} never observed")


def replay(v):
    return Result()
