"""validate MANIFEST.json and evidence/*.json against the schemas (python3-vt)"""
import json, sys, glob, jsonschema
ok = True
man = json.load(open('/verif/MANIFEST.json'))
jsonschema.validate(man, json.load(open('/root/.vp/MANIFEST.schema.json')))
sch = json.load(open('/root/.vp/EVIDENCE.schema.json'))
for f in sorted(glob.glob('/verif/evidence/*.json')):
    try:
        jsonschema.validate(json.load(open(f)), sch)
    except Exception as e:
        ok = False
        print("BAD", f, str(e)[:300])
props = [json.loads(l)['id'] for l in open('/verif/properties.jsonl')]
claimed = {c['property_id'] for c in man['checks']}
na = {c['property_id'] for c in man.get('not_applicable', [])}
missing = [p for p in props if p not in claimed and p not in na]
print("manifest ok; claimed", len(claimed), "n/a", len(na), "unlisted", missing)
sys.exit(0 if ok else 1)
