"""C28 serial channels transfer bytes exactly once, in order"""
import itertools
import os
import random
import struct

from .. import use_repo
from ..core import Result
use_repo()

from ebpfcat.ebpfcat import SimpleEtherCat, SyncGroup, SyncManager  # noqa: E402
from ebpfcat.serial import Serial  # noqa: E402
from ebpfcat.terminals import EL6002  # noqa: E402

PROPERTY = "C28"
LEVEL = "exploration"
RULE = ("the real Serial.update bound to an EL6002 channel (1 or 2) of a "
        "real slow SyncGroup frame, against a terminal-side handshake model "
        "(init request/accept, transmit request/accept, receive "
        "request/accept, 22-byte strings) with accept delays 0..k cycles in "
        "each direction and traffic in both directions at once; the "
        "application writes random chunks of 1..60 bytes to the device's "
        "pipe and drains the receive pipe every cycle. quick: all delay "
        "patterns with k<=1 for 4 transfers per direction plus seeded "
        "random ones; thorough: all patterns k<=2 for 5 transfers. Oracle: "
        "a trace automaton over the request/accept bits and strings seen by "
        "the terminal each cycle and the bytes on the application pipes. "
        "a case = one handshake history; non-trivial = at least one string "
        "transferred in each direction")
ASSUMPTIONS = ["the application keeps reading its receive pipe (as the "
               "statement says)", "pipes never fill up (chunks are small)"]
MIN_EVALUATIONS = {"quick": 300, "thorough": 5000}
MAXCYC = 400


def plan(tier, seed):
    if tier == "quick":
        k, n, rnd = 1, 4, 200
    else:
        k, n, rnd = 2, 5, 300
    pats = list(itertools.product(range(k + 1), repeat=n))
    shards = []
    for i in range(16):
        shards.append(dict(seed=seed, shard=i, k=k, ntr=n,
                           tx_pats=pats[i::16], rnd=rnd))
    return shards


class Rig:
    def __init__(self, channel):
        self.ec = SimpleEtherCat("vf")
        t = EL6002(self.ec)
        t.position = 5
        t.pdo_in_sz = t.pdo_out_sz = 48
        t.pdo_in_off, t.pdo_out_off = 0x1100, 0x1000
        t.use_fmmu = False
        self.t = t
        ch = t.channel1 if channel == 1 else t.channel2
        self.dev = Serial(ch)
        self.sg = SyncGroup(self.ec, [self.dev])
        self.sg.allocate()
        self.sg.current_data = bytearray(self.sg.packet.size + 8)
        a = self.sg.pdo_assign[t]
        off = 0 if channel == 1 else 24
        self.inb = a[SyncManager.IN] + off
        self.outb = a[SyncManager.OUT] + off
        self.outb_other = a[SyncManager.OUT] + (24 - off)
        self.data = self.sg.current_data

    def close(self):
        for fd in (self.dev.in_read, self.dev.in_write, self.dev.out_read,
                   self.dev.out_write):
            try:
                os.close(fd)
            except OSError:
                pass


def run_history(channel, tx_delays, rx_delays, init_delay, chunks, rx_strings,
                rx_gaps, res, desc):
    if desc.get("prior"):
        # an earlier Serial instance of the same process (the other channel)
        # that is abandoned with bytes still pending
        prior = Rig(2 if channel == 1 else 1)
        try:
            _run(prior, [3], [0], 0, [bytes(range(60))], [], [0], Result(),
                 dict(desc, prior=False), max_cycles=desc["prior"])
        finally:
            prior.close()
    rig = Rig(channel)
    try:
        return _run(rig, tx_delays, rx_delays, init_delay, chunks,
                    rx_strings, rx_gaps, res, desc,
                    init_rr=desc.get("init_rr", 0),
                    init_ta=desc.get("init_ta", 0))
    finally:
        rig.close()


def _run(rig, tx_delays, rx_delays, init_delay, chunks, rx_strings, rx_gaps,
         res, desc, init_rr=0, init_ta=0, max_cycles=None):
    d = rig.data
    dev = rig.dev
    # terminal state; the receive-request toggle is not reset by an
    # initialisation: a second session may start with it set
    # (neither is the transmit-accept toggle)
    status = (2 if init_rr else 0) | (1 if init_ta else 0)
    # bit0 tx_accept, bit1 rx_request, bit2 init
    d[rig.inb] = status
    tx_pending = None            # (string, cycles left)
    tx_seen = []                 # strings accepted by the terminal
    tx_toggles = 0
    rx_queue = list(rx_strings)
    rx_wait = None               # string awaiting accept
    rx_gap = rx_gaps[0] if rx_gaps else 0
    rx_done = 0
    init_count = None
    init_hold = [desc.get("init_hold", 0)]
    last_ctrl = 0
    app_sent = b""
    app_recv = b""
    chunks = list(chunks)
    connected_cycle = None
    txi = 0
    problems = []

    def fail(key, msg):
        res.violation(key, f"{msg} ({desc})", case=desc)
        return False

    # the other channel's half of the output image as its own device left
    # it (handshake bits set, a string pending): nothing this channel's
    # device does may change it
    neighbour = bytes((0xa5 + 7 * i) & 0xff or 1 for i in range(24))
    d[rig.outb_other:rig.outb_other + 24] = neighbour
    # the working counters of the frame, from the harness's own parser
    from .. import frames as _frames
    wkcs = []
    if desc.get("real_cycle"):
        rig.sg.wkc_errors = 0
        for g_ in _frames.parse(bytes(rig.sg.packet.sterile(3, 0x3333)),
                                strict=False)[2][1:]:
            wkcs.append((g_.wkc_pos, 1))

    for cyc in range(max_cycles or MAXCYC):
        ctrl = d[rig.outb]
        ostr_raw = bytes(d[rig.outb + 1:rig.outb + 24])
        ostr = ostr_raw[1:1 + min(ostr_raw[0], 22)]
        # ---------------- terminal side ----------------
        # init
        if ctrl & 4:
            if init_count is None:
                init_count = init_delay
            if init_count == 0:
                status |= 4
            else:
                init_count -= 1
        else:
            if status & 4 and connected_cycle is None:
                connected_cycle = cyc
            # the terminal takes its time to withdraw init_accept after the
            # controller has taken back its request
            if status & 4 and init_hold[0] > 0:
                init_hold[0] -= 1
            else:
                status &= ~4
            init_count = None
        # transmit direction (controller -> terminal)
        treq = ctrl & 1
        if (last_ctrl ^ ctrl) & 1:
            tx_toggles += 1
            if tx_pending is not None:
                return fail("unexplained:tx-request-toggled-while-pending",
                            f"cycle {cyc}: transmit request toggled again "
                            f"before the accept")
            dl = tx_delays[txi % len(tx_delays)]
            txi += 1
            tx_pending = [ostr, dl]
        if tx_pending is not None:
            if ostr != tx_pending[0]:
                return fail("unexplained:tx-string-changed-before-accept",
                            f"cycle {cyc}: out_string changed from "
                            f"{tx_pending[0]!r} to {ostr!r} before accept")
            if tx_pending[1] == 0:
                tx_seen.append(tx_pending[0])
                status ^= 1          # the terminal toggles "accepted"
                tx_pending = None
            else:
                tx_pending[1] -= 1
        # receive direction (terminal -> controller)
        racc = (ctrl >> 1) & 1
        if (last_ctrl ^ ctrl) & 2:
            if rx_wait is None:
                return fail("unexplained:spurious-receive-accept",
                            f"cycle {cyc}: receive accept toggled without "
                            f"an announcement")
            rx_wait = None
            rx_done += 1
            rx_gap = rx_gaps[rx_done % len(rx_gaps)] if rx_gaps else 0
        elif rx_wait is not None:
            rx_wait[1] += 1
            if rx_wait[1] > 6:
                return fail("unexplained:receive-not-accepted",
                            f"cycle {cyc}: announcement {rx_wait[0]!r} not "
                            f"accepted after 6 cycles")
        if rx_wait is None and rx_queue and status & 0 == 0 and \
                connected_cycle is not None:
            if rx_gap > 0:
                rx_gap -= 1
            else:
                s = rx_queue.pop(0)
                d[rig.inb + 1:rig.inb + 24] = struct.pack("23p", s)
                status ^= 2
                rx_wait = [s, 0]
        last_ctrl = ctrl
        d[rig.inb] = status
        # ---------------- device ----------------
        if desc.get("real_cycle"):
            # the way a received frame reaches the device
            # (SyncGroupBase.run -> SyncGroup.update_devices)
            for pos_, cnt_ in wkcs:
                d[pos_:pos_ + 2] = struct.pack("<H", cnt_)
            rig.sg.update_devices(bytes(d))
            res.count("cycles_through_update_devices")
        else:
            dev.update()
        res.count("updates_checked_against_the_other_channel")
        if bytes(d[rig.outb_other:rig.outb_other + 24]) != neighbour:
            now = bytes(d[rig.outb_other:rig.outb_other + 24])
            k_ = [i for i in range(24) if now[i] != neighbour[i]]
            return fail("unexplained:other-channel-clobbered",
                        f"cycle {cyc}: byte(s) {k_} of the other channel's "
                        f"output image changed from "
                        f"{neighbour[k_[0]]:#04x} to {now[k_[0]]:#04x}")
        # ---------------- application ----------------
        if desc.get("early_write") and cyc == 0 and chunks:
            # the application writes its first command right after creating
            # the device, before the initialisation handshake is through
            c = chunks.pop(0)
            os.write(dev.out_write, c)
            app_sent += c
            res.count("histories_with_a_write_before_the_handshake")
        if dev.connected and chunks and cyc % 2 == 0:
            c = chunks.pop(0)
            os.write(dev.out_write, c)
            app_sent += c
        try:
            app_recv += os.read(dev.in_read, 4096)
        except BlockingIOError:
            pass
        if dev.connected and not chunks and not rx_queue and \
                rx_wait is None and tx_pending is None and \
                b"".join(tx_seen) == app_sent and cyc > 8 and \
                len(app_recv) >= 1 + sum(len(s) for s in rx_strings):
            break
    else:
        pass
    res.count("cycles", cyc + 1)
    if not dev.connected:
        return fail("unexplained:never-connected", "init handshake failed")
    got_tx = b"".join(tx_seen)
    if got_tx != app_sent:
        return fail("unexplained:transmit-bytes",
                    f"terminal accepted {got_tx!r}, application wrote "
                    f"{app_sent!r}")
    if any(len(s) > 22 for s in tx_seen):
        return fail("unexplained:transmit-string-too-long", "string > 22")
    want = b"A" + b"".join(rx_strings)
    if app_recv != want:
        return fail("unexplained:receive-bytes",
                    f"application received {app_recv!r}, terminal announced "
                    f"{want!r}")
    if rx_done != len(rx_strings):
        return fail("unexplained:receive-accept-count",
                    f"{rx_done} accepts for {len(rx_strings)} announcements")
    res.count("strings_to_terminal", len(tx_seen))
    res.count("strings_to_application", len(rx_strings))
    return True


def run_shard(params):
    res = Result()
    rng = random.Random(params["seed"] * 100213 + params["shard"])
    k, ntr = params["k"], params["ntr"]
    rx_pats = list(itertools.product(range(k + 1), repeat=2))

    def payload(n):
        return bytes(rng.getrandbits(8) for _ in range(n))
    cases = []
    for txp in params["tx_pats"]:
        for rxp in rx_pats:
            cases.append((list(txp), list(rxp), rng.randint(0, k)))
    for _ in range(params["rnd"]):
        cases.append(([rng.randint(0, 4) for _ in range(6)],
                      [rng.randint(0, 4) for _ in range(4)],
                      rng.randint(0, 4)))
    for txd, rxg, initd in cases:
        channel = rng.choice([1, 2])
        chunks = [payload(rng.choice([1, 5, 21, 22, 23, 44, 45, 60,
                                      rng.randint(1, 60)]))
                  for _ in range(rng.randint(1, 3))]
        # (a terminal may announce an empty chunk: it is acknowledged like
        # any other and delivers nothing)
        rxs = [payload(rng.choice([1, 22, rng.randint(1, 22), 0,
                                   rng.randint(0, 3)]))
               for _ in range(rng.randint(1, ntr))]
        desc = dict(channel=channel, tx_delays=txd, rx_gaps=rxg,
                    init_rr=rng.choice([0, 0, 1]),
                    init_ta=rng.choice([0, 0, 1]),
                    prior=rng.choice([0, 0, 0, 5, 8]),
                    init_hold=rng.choice([0, 0, 1, 2, 3]),
                    early_write=rng.random() < 0.25,
                    real_cycle=rng.random() < 0.5,
                    init_delay=initd, chunks=[c.hex() for c in chunks],
                    rx_strings=[s.hex() for s in rxs])
        ok = run_history(channel, txd, [0], initd, chunks, rxs, rxg, res,
                         desc)
        res.case(desc, nontrivial=True)
        if ok and len(res.samples) < 2:
            res.sample(desc)
    res.info["exhaustive"] = False
    return res


def finalize(res, tier, seed):
    c = res.counters
    if not c.get("strings_to_terminal") or \
            not c.get("strings_to_application"):
        res.inconc("no string transferred in one of the directions")


def replay(v):
    res = Result()
    c = v["case"]
    run_history(c["channel"], c["tx_delays"], [0], c["init_delay"],
                [bytes.fromhex(x) for x in c["chunks"]],
                [bytes.fromhex(x) for x in c["rx_strings"]], c["rx_gaps"],
                res, c)
    return res
