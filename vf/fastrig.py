"""fast sync groups executed for real: program load, frames, PROG_TEST_RUN"""
import struct

from . import ecat, ebpfvm, kern, prog, use_repo
use_repo()

from ebpfcat.ebpfcat import FastSyncGroup, SyncManager  # noqa: E402

ETH = bytes.fromhex("ffffffffffff" "020000000001" "88a4")


class FastRig:
    """one FastSyncGroup over offline terminals, loaded into the kernel"""

    def __init__(self, sess, devices_fn, index=5, ethertype=0x3456):
        self.sess = sess
        self.ec = ecat.OfflineFastEtherCat(sess)
        self.devs, self.terms = devices_fn(self.ec)
        self.sg = FastSyncGroup(self.ec, self.devs)
        self.sg.allocate()
        self.index = index
        self.ld = prog.Loaded(self.sg, sess)
        self.ld.load()
        self.payload = bytes(self.sg.packet.sterile(index, ethertype))
        self.active_payload = bytes(self.sg.packet.assemble(index, ethertype))
        self.sg.wkc_errors = 1

    def frame(self, payload=None):
        return ETH + (payload if payload is not None else self.payload)

    def region(self, term, sm):
        """offset of the terminal's region inside the Ethernet frame"""
        return self.sg.pdo_assign[term][sm] + 14

    def run_k(self, frame):
        return self.ld.run_k(frame)

    def close(self):
        self.ld.close()
