"""C22 the dispatcher keeps fast groups running under loss and injection
(also hosts the shared runner used by C21)"""
import random
import struct

from .. import dispatch, ebpfvm, kern, use_repo
from ..core import Result
use_repo()

PROPERTY = "C22"
LEVEL = "model_checking"
RULE = ("breadth-first exploration of the state (low byte of the group's "
        "loop counter, multiset of <= 3 in-flight frames each with its "
        "index byte, writer commands and counter classes, output-enabled "
        "flag, run of consecutive passes without the group program) under "
        "deliveries in any order, losses and fresh injections, to depth 11 "
        "(quick) / 16 (thorough) from several start counters with at most "
        "three frames in flight, and from EVERY value of the counter byte "
        "with at most two frames in flight, for group "
        "layouts with 0-3 writer datagrams (direct and FMMU) and for a group "
        "that is registered / not registered / has an index >= MAX_PROGS; "
        "plus random foreign frames, identifiers beyond the program table "
        "whose low 16 bits alias a slot in use, and a registration leg (2-3 "
        "masters sharing one program table register / unregister groups "
        "with colliding random numbers). Every transition executes the real "
        "dispatcher bytecode (and through the tail call the real group "
        "program) in the reference machine; every 50th transition is "
        "replayed in the kernel with a real PROG_ARRAY and must agree")
ASSUMPTIONS = ["the per-group loop counter matters only through its low "
               "byte (the only part the dispatcher reads)",
               "frames of an unregistered group are not re-injected while "
               "they circulate (weaker reading, see DESIGN)",
               "two readings of 'frames pass without running the program' "
               "are monitored: frames sent back to the bus (bound 2 in every "
               "history) and every frame the dispatcher handles (bound 2 "
               "with at most two frames in flight; with three in flight the "
               "pinned code reaches 3, a recorded finding, and 4 would be a "
               "violation)"]
MIN_EVALUATIONS = {"quick": 1, "thorough": 1}
LAYOUTS = ["r", "w", "rw", "f", "wf", "ww", "wwf", "rf"]


def plan(tier, seed):
    depth = 11 if tier == "quick" else 16
    shards = []
    for i, lay in enumerate(LAYOUTS):
        for reg in ("registered", "unregistered", "bigindex"):
            if reg != "registered" and lay not in ("w", "wf"):
                continue
            shards.append(dict(seed=seed, layout=lay, reg=reg, depth=depth,
                               tier=tier))
    # frames of a group without a program that are shorter than the
    # Ethernet minimum (not padded by their sender)
    for lay in ("w", "r", "wf"):
        shards.append(dict(seed=seed, layout=lay, reg="unregistered",
                           depth=7 if tier == "quick" else 10, tier=tier,
                           unpadded=True))
    # identifiers beyond the program table whose low 16 bits alias a slot
    # that is in use
    for idx in (0x10005, 0x1f0005, 0x7fff0005, 0x10000, 65536 * 7 + 63):
        shards.append(dict(seed=seed, layout="w", reg="bigindex",
                           depth=6 if tier == "quick" else 9, tier=tier,
                           index=idx))
    # at most two frames in flight, from every value of the counter byte
    for lay in (["w", "r", "wf"] if tier == "quick" else LAYOUTS):
        for part in range(4):
            shards.append(dict(seed=seed, layout=lay, reg="registered",
                               depth=11 if tier == "quick" else 14,
                               tier=tier, maxinflight=2,
                               starts=list(range(part, 256, 4))))
    for i in range(4):
        shards.append(dict(seed=seed * 4 + i, migration=True, tier=tier,
                           count=6 if tier == "quick" else 40,
                           steps=200 if tier == "quick" else 600))
    shards.append(dict(seed=seed, foreign=True, tier=tier))
    shards.append(dict(seed=seed, registration=True, tier=tier))
    return shards


def run_world(params, res, monitor):
    rng = random.Random(params["seed"] * 7 + hash(params["layout"]) % 1000)
    with kern.session() as sess:
        reg = params["reg"]
        try:
            w = dispatch.World(sess, params["layout"],
                               registered=(reg == "registered"),
                               index=params.get("index") or (
                                   70 if reg == "bigindex" else 5),
                               decoy=params.get("decoy"))
            if params.get("unpadded"):
                w.unpadded = True
                res.count("worlds_with_unpadded_frames")
                res.info["unpadded_frame_length"] = len(
                    w.frame((0, tuple(False for _ in w.writers),
                             tuple("0" for _ in w.writers))))
        except Exception as ex:
            import traceback
            res.case(["world", params["layout"], reg, params.get("decoy")])
            res.violation(
                "unexplained:dispatcher-or-group-program-cannot-be-built",
                f"layout {params['layout']} ({reg}, earlier group "
                f"{params.get('decoy')}): {type(ex).__name__}: "
                f"{str(ex)[-300:]}",
                case=dict(layout=params["layout"], reg=reg,
                          decoy=params.get("decoy")),
                witness=traceback.format_exc()[-1500:])
            return
        try:
            starts = [0, 1, 2, 254, 255, rng.randrange(256)]
            if params["tier"] == "quick":
                starts = starts[:4]
            starts = params.get("starts") or starts
            kstat = dict(n=0, bad=0)

            def on_step(rec):
                res.count("transitions")
                res.case([params["layout"], params["reg"],
                          params.get("decoy"),
                          params.get("maxinflight", 3), rec["state"],
                          rec["frame"]], nontrivial=bool(rec["state"][1]))
                res.count("action[" + str(rec["action"]) + "]")
                if rec["ran"]:
                    res.count("group_program_ran")
                if "k_agrees" in rec:
                    kstat["n"] += 1
                    if not rec["k_agrees"]:
                        kstat["bad"] += 1
                        res.inconc(f"K/V disagree: {rec['state']} "
                                   f"{rec['frame']} K={rec.get('k_result')}")
                if len(res.samples) < 3 and rec["ran"] and rec["frame"][0]:
                    res.sample(dict(layout=params["layout"],
                                    reg=params["reg"], state=rec["state"],
                                    delivered=rec["frame"],
                                    action=rec["action"],
                                    group_program_ran=rec["ran"],
                                    frame_after=rec["out"],
                                    counter=(rec["c_before"],
                                             rec["c_after"])))
                monitor(w, rec, res, params)
            nstates, ntrans = dispatch.explore(
                w, starts, params["depth"], res, on_step,
                maxinflight=params.get("maxinflight", 3))
            res.count(f"states[<={params.get('maxinflight', 3)} in flight]",
                      nstates)
            res.count("states", nstates)
            res.count("k_replays", kstat["n"])
            res.info["states"] = nstates
            res.info["transitions"] = ntrans
            res.info["traces_validated_against_impl"] = kstat["n"]
        finally:
            w.close()


def monitor22(w, rec, res, params):
    desc = dict(layout=params["layout"], reg=params["reg"],
                state=rec["state"], frame=rec["frame"])
    if rec.get("random_dependence"):
        rv, r2 = rec["random_dependence"]
        res.violation("unexplained:outcome-depends-on-the-random-number",
                      f"with the loss simulator off, the random number "
                      f"{rv:#x} changes the outcome (action {r2} instead of "
                      f"{rec['action']})", case=desc)
        return
    if rec.get("counter_dependence"):
        cv, r3, ran3, c3 = rec["counter_dependence"]
        res.violation("unexplained:outcome-depends-on-the-upper-counter-bits",
                      f"with the group's loop counter at {cv:#x} instead of "
                      f"{cv & 0xff:#x} the same frame is treated differently "
                      f"(action {r3}, program ran {ran3}, counter then "
                      f"{c3:#x}; with the small counter: action "
                      f"{rec['action']}, ran {rec['ran']})", case=desc)
        return
    if rec["action"] not in (dispatch.TX, dispatch.PASS):
        res.violation("unexplained:dropped-frame",
                      f"dispatcher returned action {rec['action']}",
                      case=desc)
        return
    out = rec["out_frame"]
    if rec["action"] == dispatch.PASS:
        et, = struct.unpack_from("!H", out, 12)
        if et != dispatch.USER_ETHERTYPE:
            res.violation("unexplained:pass-ethertype",
                          f"frame passed to user space with ethertype "
                          f"{et:#x}, identification datagram says "
                          f"{dispatch.USER_ETHERTYPE:#x}", case=desc)
    if rec["action"] == dispatch.TX and len(out) >= 14:
        # a frame that goes back onto the bus is still an EtherCAT frame:
        # the terminals ignore any other ethertype, and so does the
        # dispatcher when the frame comes round again
        et, = struct.unpack_from("!H", out, 12)
        res.count("frames_sent_back_checked_for_ethertype")
        if et != 0x88A4:
            res.violation("unexplained:tx-ethertype",
                          f"frame sent back to the bus with ethertype "
                          f"{et:#x} instead of 0x88a4", case=desc)
            return
    if params["reg"] == "registered":
        run = 0 if rec["ran"] else rec["run_before"] + (
            1 if rec["action"] == dispatch.TX else 0)
        if run >= 3:
            res.violation("unexplained:three-frames-without-program",
                          "three consecutive frames were sent back to the "
                          "bus without running the group's program",
                          case=desc,
                          witness=dispatch.path_to(w, rec["state"]))
        # literal reading: every frame the dispatcher handles counts
        srun = 0 if rec["ran"] else rec["srun_before"] + 1
        res.count(f"longest_run_seen[{min(srun, 4)}]")
        if srun >= 3:
            two = params.get("maxinflight", 3) == 2
            if two or srun >= 4:
                res.violation(
                    "unexplained:three-frames-pass-without-program"
                    if two else
                    "unexplained:four-frames-pass-without-program",
                    f"{srun} consecutive frames of the group passed the "
                    f"dispatcher without running the group's program (at "
                    f"most {params.get('maxinflight', 3)} frames in "
                    f"flight): last action "
                    f"{'TX' if rec['action'] == dispatch.TX else 'PASS'} "
                    f"of frame index {rec['frame'][0]} at counter "
                    f"{rec['c_before']}", case=desc,
                    witness=dispatch.path_to(w, rec["state"]))
            else:
                res.violation(
                    "three-passes-without-program-when-frames-overtake",
                    "three consecutive frames passed the dispatcher "
                    "without running the group's program in a history "
                    "with three frames in flight delivered out of order",
                    case=desc, witness=dispatch.path_to(w, rec["state"]))
    else:
        if rec["ran"]:
            res.violation("unexplained:program-ran-unregistered",
                          "a group program ran for a frame whose group has "
                          "no registered program", case=desc)
        if rec.get("counters_touched"):
            res.violation("unexplained:foreign-identifier-steps-a-counter",
                          "a frame with an identifier beyond the program "
                          "table changed a group's loop counter", case=desc)
        # bounded progress: without further injections the frame reaches
        # user space within a few passes
        if rec["action"] == dispatch.TX:
            frame = rec["out_frame"]
            for k in range(4):
                ret, frame2, ran = w.step_v(frame)
                res.count("unregistered_chain_steps")
                if ret == dispatch.PASS:
                    break
                frame = frame2
            else:
                res.violation("unexplained:unregistered-frame-circulates",
                              "frame of an unregistered group was sent back "
                              "to the bus 5 times in a row", case=desc)


def foreign_leg(params, res):
    rng = random.Random(params["seed"] * 11 + 3)
    with kern.session() as sess:
        w = dispatch.World(sess, "w", registered=True)
        try:
            n = 400 if params["tier"] == "quick" else 5000
            for i in range(n):
                kind = rng.choice(["ethertype", "cmd0", "short", "garbage"])
                ln = rng.randint(14, 120)
                f = bytearray(rng.getrandbits(8) for _ in range(ln))
                if kind == "ethertype":
                    et = rng.choice([0x0800, 0x0806, 0x86dd, 0x88a5, 0x4567,
                                     rng.getrandbits(16)])
                    if et == 0x88a4:
                        et = 0x88a5
                    f = bytearray(w.frame((0, (False,), ("ok",))))
                    struct.pack_into("!H", f, 12, et)
                elif kind == "cmd0":
                    f = bytearray(w.frame((rng.getrandbits(8), (False,),
                                           ("ok",))))
                    f[16] = rng.randint(1, 14)
                elif kind == "short":
                    f = bytearray(w.frame((0, (False,), ("ok",))))[
                        :rng.randint(14, 30)]
                else:
                    if ln > 13 and f[12:14] == b"\x88\xa4":
                        f[12] = 0x08
                w.set_state(rng.getrandbits(8), 5)
                c0 = w.get_state()
                ret, out, ran = w.step_v(bytes(f))
                res.case(["foreign", kind, bytes(f).hex()[:60]])
                res.count("foreign[" + kind + "]")
                if ret != dispatch.PASS or out != bytes(f) or ran or \
                        w.get_state() != c0:
                    res.violation(
                        "unexplained:foreign-frame",
                        f"{kind} frame of {len(f)} bytes: action {ret}, "
                        f"unchanged={out == bytes(f)}, program ran={ran}, "
                        f"state {c0} -> {w.get_state()}",
                        case=dict(kind=kind, frame=bytes(f).hex()))
                if i % 40 == 0:
                    rk, ok = w.step_k(bytes(f))
                    res.count("k_replays")
                    if (rk, ok) != (ret, out):
                        res.inconc(f"K/V disagree on foreign frame {kind}")
        finally:
            w.close()


def registration_leg(params, res):
    """2-3 masters share one program table (as ParallelEtherCat processes
    do); fast groups are registered and unregistered in random order with
    the random group number drawn from 0..3 so that collisions are likely:
    live groups always hold distinct numbers whose table slots are occupied,
    and ending one group leaves the others' slots alone"""
    import ebpfcat.ebpfcat as ecmod
    from .. import ecat
    from ebpfcat.ebpfcat import FastSyncGroup, SyncManager
    rng = random.Random(params["seed"] * 13 + 1)
    old_rr = ecmod.randrange
    hostile = dict(collide=0, live=None)

    def draw(n, *a):
        # an unlucky streak: the next so many draws name numbers that are
        # taken (any sequence is a possible outcome of randrange; with 63
        # of 64 numbers taken 64 misses in a row have a chance of 36 %)
        taken = [i for _, i, _ in (hostile["live"] or {}).values()]
        hostile["draws"] = hostile.get("draws", 0) + 1
        if hostile["draws"] > 20000:
            # (a bound in draws, not in seconds: with at most three live
            # groups one of the four numbers is free)
            raise RuntimeError("registration: 20000 draws without finding "
                               "a free number")
        if hostile["collide"] > 0 and taken:
            hostile["collide"] -= 1
            res.count("registration_draws_that_hit_a_taken_number")
            return rng.choice(taken)
        return rng.randrange(4)
    ecmod.randrange = draw
    try:
        for round_ in range(30 if params["tier"] == "quick" else 300):
            with kern.session() as sess:
                nm = rng.choice([2, 2, 3])
                ecs = [ecat.OfflineFastEtherCat(sess)]
                for _ in range(nm - 1):
                    e2 = ecat.OfflineFastEtherCat(sess)
                    e2.programs = ecs[0].programs
                    ecs.append(e2)
                live = {}            # key -> (ctx, index, master)
                history = []
                n = 0
                for step in range(rng.randint(3, 7)):
                    if live and (len(live) >= 3 or rng.random() < 0.4):
                        k = rng.choice(sorted(live))
                        ctx, idx, m = live.pop(k)
                        history.append(("end", k, idx))
                        try:
                            ctx.__exit__(None, None, None)
                            if idx not in [i for _, i, _ in live.values()] \
                                    and kern.map_lookup(
                                        ecs[0].programs,
                                        struct.pack("<I", idx), 4) \
                                    is not None:
                                res.violation(
                                    "unexplained:ended-group-keeps-its-"
                                    "program-slot",
                                    f"group {k} (number {idx}) has ended, "
                                    f"its slot of the program table is "
                                    f"still set", case=dict(history=history))
                                live.clear()
                                break
                        except Exception as ex:
                            res.violation(
                                "unexplained:unregistering-raised",
                                f"ending group {k} (number {idx}) raised "
                                f"{type(ex).__name__}: {ex}",
                                case=dict(history=history))
                            live.clear()
                            break
                    else:
                        m = rng.randrange(nm)
                        t, v = ecat.make_terminal(ecs[m], 1 + n, [("H",)],
                                                  [("H",)], use_fmmu=False)
                        sg = FastSyncGroup(ecs[m], [dispatch.CountDev(
                            v[SyncManager.IN, 0], v[SyncManager.OUT, 0])])
                        sg.allocate()
                        hostile["live"] = live
                        hostile["draws"] = 0
                        hostile["collide"] = rng.choice(
                            [0, 0, 1, 5, 63, 64, 65, 200])
                        ctx = ecs[m].register_sync_group(sg)
                        try:
                            idx = ctx.__enter__()
                        except RuntimeError as ex:
                            res.violation(
                                "unexplained:registration-never-finds-a-"
                                "free-number",
                                f"{ex}; live groups hold "
                                f"{[i for _, i, _ in live.values()]}, "
                                f"history {history}",
                                case=dict(history=history))
                            break
                        hostile["collide"] = 0
                        live[n] = (ctx, idx, m)
                        history.append(("register", n, idx, m))
                        n += 1
                    res.case(["registration", round_, step, history[-1]])
                    res.count("registration_steps")
                    idxs = [i for _, i, _ in live.values()]
                    desc = dict(history=history)
                    if len(set(idxs)) != len(idxs):
                        res.violation(
                            "unexplained:two-live-groups-one-number",
                            f"live groups hold numbers {idxs}", case=desc)
                        break
                    empty = [i for i in idxs if kern.map_lookup(
                        ecs[0].programs, struct.pack("<I", i), 4) is None]
                    if empty:
                        res.violation(
                            "unexplained:live-group-without-program-slot",
                            f"slots {empty} of live groups are empty",
                            case=desc)
                        break
                for ctx, idx, m in live.values():
                    try:
                        ctx.__exit__(None, None, None)
                    except Exception:
                        pass
    finally:
        ecmod.randrange = old_rr


def connect_leg(params, res):
    """the master's own connect() builds the program table (only the
    datagram endpoint and the netlink attach are replaced); groups are
    registered with the random group number walking through the ends of
    whatever range the library asks for; for every number handed out a fresh
    frame of the group goes through the real dispatcher: the group's
    program must run"""
    import asyncio
    import os
    import ebpfcat.ebpfcat as ecmod
    from .. import aio, bus, ecat
    from ebpfcat.ebpfcat import FastEtherCat, FastSyncGroup, SyncManager

    class Tr:
        _sock = bus.FakeSock()

        def get_extra_info(self, n, d=None):
            return self._sock if n == "socket" else d

        def sendto(self, *a):
            pass

        def close(self):
            pass
    picks = []

    def boundary(a, b=None):
        lo, hi = (0, a) if b is None else (a, b)
        picks.append((lo, hi))
        ends = [lo, lo + 1, hi - 1, hi - 2, (lo + hi) // 2]
        return ends[(len(picks) - 1) % len(ends)]
    out = []

    async def main(loop):
        ec = FastEtherCat("lo")

        async def endpoint(factory, **kw):
            p_ = factory()
            t_ = Tr()
            p_.connection_made(t_)
            return t_, p_
        loop.create_datagram_endpoint = endpoint

        async def attach(self, *a, **k):
            self.load(log_level=1)
        old_attach, old_rr = ecmod.EtherXDP.attach, ecmod.randrange
        ecmod.EtherXDP.attach = attach
        ecmod.randrange = boundary
        try:
            await ec.connect()
            for n in range(10):
                t, v = ecat.make_terminal(ec, 1 + n, [("H",)], [("H",)],
                                          use_fmmu=False)
                dev = dispatch.CountDev(v[SyncManager.IN, 0],
                                        v[SyncManager.OUT, 0])
                sg = FastSyncGroup(ec, [dev])
                sg.allocate()
                with ec.register_sync_group(sg) as idx:
                    sg.wkc_errors = 1
                    frame = dispatch.ETH + bytes(
                        sg.packet.sterile(idx, dispatch.USER_ETHERTYPE))
                    runs = []
                    for _ in range(3):
                        ret, o, _d = kern.test_run(
                            ec.ebpf.file_descriptor, frame)
                        runs.append((ret, dev.runs))
                    out.append((idx, picks[-1], runs))
        finally:
            ecmod.EtherXDP.attach, ecmod.randrange = old_attach, old_rr
            for fd in (getattr(ec, "programs", None),):
                try:
                    if isinstance(fd, int):
                        os.close(fd)
                except OSError:
                    pass
    try:
        aio.run(main)
    except aio.WallClock:
        res.inconc("connect leg: wall-clock watchdog")
        return
    except Exception as ex:
        res.violation("unexplained:connect-leg-raised",
                      f"{type(ex).__name__}: {str(ex)[:200]}",
                      case=dict(connect_leg=True, picks=picks[-3:]))
        return
    for idx, rng_, runs in out:
        res.case(["connect", idx, rng_], nontrivial=True)
        res.count("groups_registered_through_the_master's_own_table")
        if not any(r for _, r in runs):
            res.violation(
                "unexplained:registered-program-never-runs",
                f"a group was registered under number {idx} (drawn from "
                f"{rng_}); three fresh frames of it went through the "
                f"dispatcher (actions {[a for a, _ in runs]}) and its "
                f"program never ran", case=dict(connect_leg=True, number=idx))


def migration_leg(params, res):
    """closed loop in the kernel only, no state is injected: two frames of a
    registered group circulate in wire order (the bus answers every enabled
    writer correctly), user space feeds a fresh frame for every frame it is
    handed and for every lost one; the CPU that handles the returning
    frames changes now and then (the interface's interrupt migrates). The
    longest run of frames that pass the dispatcher without the group's
    program is bounded by two, whichever CPUs handled them."""
    import os
    import random
    rng = random.Random(params["seed"] * 977 + 13)
    allowed = sorted(os.sched_getaffinity(0))
    if len(allowed) < 2:
        res.count("migration_leg_skipped_one_cpu")
        return
    for hist in range(params["count"]):
        layout = rng.choice(["w", "wf", "r", "ww"])
        index = rng.choice([5, 0, 63, 17])
        p_switch = rng.choice([0.0, 0.1, 0.3, 0.5])
        p_loss = rng.choice([0.0, 0.0, 0.05, 0.15])
        two_loops = hist % 3 == 0
        with kern.session() as sess:
            try:
                w = dispatch.World(sess, layout, True, index)
                # a second master on another interface in the same process,
                # its group under the same number: its frames go through
                # its own dispatcher, in between the first one's
                w_other = dispatch.World(sess, layout, True, index) \
                    if two_loops else None
            except OSError as ex:
                res.count("migration_histories_whose_world_was_not_built")
                res.info["world_not_built"] = str(ex)[:100]
                continue
            try:
                runs_pos = [d.__dict__["runs"] for d in w.devs]

                def runs():
                    return sum(struct.unpack_from("<I", w.props, p_)[0]
                               for p_ in runs_pos)
                # the group is operational (user space sets this when the
                # terminals have reached OP)
                w.props[w.wpos:w.wpos + 4] = struct.pack("<I", 1)
                fresh = w.frame((0, tuple(False for _ in w.writers),
                                 tuple("0" for _ in w.writers)))
                wire = [fresh, fresh]
                if w_other is not None:
                    w_other.props[w_other.wpos:w_other.wpos + 4] = \
                        struct.pack("<I", 1)
                    wire_other = [fresh, fresh]
                    res.count("migration_histories_next_to_a_second_loop")
                cpu = rng.choice(allowed)
                os.sched_setaffinity(0, {cpu})
                cpus_used = {cpu}
                streak = worst = 0
                trace = []
                for step in range(params["steps"]):
                    if w_other is not None:
                        # the other loop's frames in between (answered
                        # correctly, never lost)
                        for _ in range(rng.choice([0, 1, 1, 2, 5])):
                            g = wire_other.pop(0)
                            i0, en_, _wk = w_other.abstract(g)
                            g = w_other.frame((i0, en_, tuple(
                                "ok" if e_ else "0" for e_ in en_)))
                            r_, o_ = w_other.dl.run_k(g)[:2]
                            wire_other.append(bytes(o_) if r_ == dispatch.TX
                                              else fresh)
                    f = wire.pop(0)
                    if rng.random() < p_loss:
                        wire.append(fresh)      # time-out, fed in again
                        trace.append("lost")
                        continue
                    idx0, enabled, wk = w.abstract(f)
                    f = w.frame((idx0, enabled, tuple(
                        "ok" if en else "0" for en in enabled)))
                    if rng.random() < p_switch:
                        cpu = rng.choice(allowed)
                        os.sched_setaffinity(0, {cpu})
                        cpus_used.add(cpu)
                    before = runs()
                    ret, out = w.dl.run_k(f)[:2]
                    ran = runs() != before
                    trace.append((cpu, ret, ran))
                    res.count("migration_frames")
                    if ran:
                        streak = 0
                    else:
                        streak += 1
                        worst = max(worst, streak)
                    if ret == dispatch.TX:
                        wire.append(bytes(out))
                    else:
                        wire.append(fresh)
                desc = dict(migration=True, layout=layout, index=index,
                            p_switch=p_switch, p_loss=p_loss,
                            cpus=len(cpus_used), second_loop=two_loops)
                res.case(["migration", hist, desc],
                         nontrivial=len(cpus_used) > 1)
                res.count("migration_histories")
                if len(cpus_used) > 1:
                    res.count("migration_histories_on_several_cpus")
                res.count(f"migration_longest_run_without_program[{worst}]")
                if worst > 2:
                    res.violation(
                        "unexplained:three-frames-without-program",
                        f"closed loop, two frames in flight in wire order, "
                        f"{len(cpus_used)} CPUs: {worst} consecutive frames "
                        f"passed without the group's program [{desc}]",
                        case=desc, witness=trace[-12:])
            finally:
                os.sched_setaffinity(0, set(allowed))
                w.close()
                if w_other is not None:
                    w_other.close()


def run_shard(params):
    res = Result()
    if params.get("migration"):
        migration_leg(params, res)
        return res
    if params.get("registration"):
        registration_leg(params, res)
        connect_leg(params, res)
        return res
    if params.get("foreign"):
        foreign_leg(params, res)
    else:
        run_world(params, res, monitor22)
    return res


def finalize(res, tier, seed):
    c = res.counters
    res.info["states"] = c.get("states", 0)
    res.info["transitions"] = c.get("transitions", 0)
    res.info["traces_validated_against_impl"] = c.get("k_replays", 0)
    if not c.get("transitions"):
        res.inconc("no transition was executed")
    if not c.get("group_program_ran"):
        res.inconc("the group program never ran")
    for k in ("foreign[ethertype]", "foreign[cmd0]", "foreign[short]"):
        if not c.get(k):
            res.inconc(f"{k} never tried")
    if not c.get("registration_steps"):
        res.inconc("registration leg did not run")
    if not c.get("unregistered_chain_steps"):
        res.inconc("unregistered group never circulated a frame")


def replay(v):
    return Result()
