"""C15 mailbox exchanges with a terminal are serialised and counted"""
import asyncio
import os
import random
import shutil
import struct
import subprocess
import sys
import tempfile

from .. import aio, bus, use_repo, VERIF_ROOT, REPO
from ..core import Result, PYTHON
use_repo()

import ebpfcat.lock as lockmod  # noqa: E402
from ebpfcat.ethercat import (  # noqa: E402
    CoECmd, EtherCat, EtherCatError, MachineState, ODCmd, Terminal)
from ebpfcat.lock import LockFile, MailboxLock, ParallelMailboxLock  # noqa

PROPERTY = "C15"
LEVEL = "exploration"
RULE = ("(a) in-process: 2-3 tasks per terminal run sdo_read, expedited "
        "sdo_write and coe_request concurrently through the simulated "
        "mailbox with seeded response latencies, once with MailboxLock and "
        "once with ParallelMailboxLock over a real lock file, plus histories "
        "in which a user queued behind a slow exchange is cancelled while "
        "it waits and another user starts afterwards; the terminal "
        "model records every mailbox write (counter, owner tag = unique "
        "index per task) and read; (b) creation window: a second LockFile "
        "is opened at every point between the first opener's O_EXCL create "
        "and its initialising write (os proxy), then both take counters; "
        "(c) cross-process: 2-3 real processes, each with one task per "
        "terminal for two terminals, perform m locked "
        "exchanges per terminal on one lock file with random sleeps and, in most rounds, "
        "injected delays before and after every pread/pwrite/lockf of the "
        "lock protocol, appending to a shared log; in half of the rounds each: "
        "a task receives pickled copies of the lock file, uses them for a "
        "third terminal and drops them while the others are inside their "
        "exchanges; the process is connected to two loops (two "
        "ParallelEtherCat objects with their own lock files, locks obtained "
        "from get_mbx_lock) which both have a terminal 1042; a task's "
        "attempts are cancelled after 0..200 loop iterations (waiting for a "
        "task of its own process, for another process, or inside the "
        "exchange). The workers run on the virtual loop, which ends a "
        "process all of whose tasks wait for ever with a deadlock verdict. "
        "History checker: no other user's request between a "
        "request and the read of its response, counter chain 1..7 with no "
        "repeat or gap (only the very first may be 0), late opener gets a "
        "valid counter. a case = one history; non-trivial = >= 2 users "
        "overlapped in time")
ASSUMPTIONS = ["cross-process interleavings are those the OS scheduler and "
               "random sleeps produce (uncontrolled); the creation window "
               "is explored deterministically"]
MIN_EVALUATIONS = {"quick": 60, "thorough": 1500}


def plan(tier, seed):
    n = 25 if tier == "quick" else 150
    shards = [dict(seed=seed, shard=i, n=n, mode="inproc")
              for i in range(12)]
    shards.append(dict(seed=seed, shard=50, mode="window",
                       lifecycles=30 if tier == "quick" else 300))
    shards += [dict(seed=seed, shard=60 + i, mode="xproc",
                    rounds=8 if tier == "quick" else 40) for i in range(3)]
    return shards


class InfoServer(bus.SdoServer):
    def sdo_info(self, body):
        op = body[0] & 0x7f
        payload = struct.pack("<BxH", op + 1, 0) + struct.pack("<H", 1) + \
            bytes((op + i) & 0xff for i in range(10))
        return [self.reply(8, payload)]


def chain_ok(counters):
    """None or description: each counter is succ(previous) in 1..7, the
    very first may be 0"""
    prev = None
    for i, c in enumerate(counters):
        if i == 0:
            if not 0 <= c <= 7:
                return f"first counter {c}"
        else:
            want = prev % 7 + 1
            if c != want:
                return (f"message {i} carries counter {c} after {prev} "
                        f"(expected {want}); chain {counters[:i + 1][-10:]}")
        prev = c
    return None


def inproc_history(rng, parallel, tmpdir):
    ntask = rng.choice([2, 2, 3])
    nops = rng.randint(2, 5)
    t = bus.SimTerminal("T", station=40)
    struct.pack_into("<HHBBBB", t.mem, 0x800, 0x1000, 64, 0x26, 0, 1, 0)
    struct.pack_into("<HHBBBB", t.mem, 0x808, 0x1400, 64, 0x22, 0, 1, 0)
    objs = {}
    for k in range(ntask):
        for s in range(1, 4):
            objs[0x7000 + k, s] = bytes([k, s, 7, 9])
    srv = InfoServer(objs, 64, 64)
    t.mbx_handler = srv.handle
    lats = [rng.choice([0, 0, 1, 2, 4]) for _ in range(64)]
    it = iter(lats)
    t.mbx_resp_latency = lambda: next(it, 0)
    # fault: one of the reads of the send mailbox's status (the first bus
    # access of an exchange) is not processed; that exchange fails before
    # anything was sent and must not use up a counter
    fault_at = rng.choice([None, None, 1, 2, 3, 5])
    seen805 = [0]

    def refuse(addr, n):
        if addr == 0x805 and fault_at is not None:
            seen805[0] += 1
            return seen805[0] == fault_at
        return False
    t.read_refuse = refuse
    b = bus.Bus([t])
    # "abort": an exchange that ends with an exception after its request
    # went out (upload of an object the terminal does not have)
    plan_ = [[rng.choice(["read", "write", "coe", "read", "abort"])
              for _ in range(nops)] for _ in range(ntask)]
    gaps = [[rng.choice([0, 0, 1, 3]) for _ in range(nops)]
            for _ in range(ntask)]
    errors = []

    async def main(loop):
        ec = EtherCat("vf")
        bus.attach(ec, loop, b)
        term = Terminal(ec)
        term.position = 40
        term.mbx_out_off, term.mbx_out_sz = 0x1000, 64
        term.mbx_in_off, term.mbx_in_sz = 0x1400, 64
        if parallel:
            lf = LockFile(os.path.join(tmpdir, f"lf{rng.getrandbits(30)}"),
                          0, 100)
            term.mbx_lock = ParallelMailboxLock(lf, 40)
        else:
            term.mbx_lock = MailboxLock()

        async def user(k):
            for op, g in zip(plan_[k], gaps[k]):
                for _ in range(g):
                    await asyncio.sleep(0)
                try:
                    if op == "read":
                        r = await term.sdo_read(0x7000 + k, 2)
                        if r != bytes([k, 2, 7, 9]):
                            errors.append(f"user {k} read {r!r}")
                    elif op == "write":
                        await term.sdo_write(bytes([k, 1]), 0x7000 + k, 1)
                    elif op == "abort":
                        try:
                            await term.sdo_read(0x6f00 + k, 1)
                            errors.append(f"user {k}: upload of a missing "
                                          "object succeeded")
                        except EtherCatError:
                            pass
                    else:
                        await term.coe_request(CoECmd.SDOINFO,
                                               ODCmd.LIST_REQ, "H", 1)
                except EtherCatError as ex:
                    if "not processed" in str(ex) and fault_at is not None:
                        continue        # the injected fault, as it should
                    errors.append(f"user {k} {op}: {type(ex).__name__}: "
                                  f"{str(ex)[:60]}")
                except Exception as ex:
                    errors.append(f"user {k} {op}: {type(ex).__name__}: "
                                  f"{str(ex)[:60]}")
        await asyncio.wait_for(asyncio.gather(*[user(k)
                                                for k in range(ntask)]), 500)
    try:
        # bounded progress: histories of this size end within ~500 loop
        # iterations; 50000 without ending is a verdict (somebody polls for
        # ever), the wall clock is not
        aio.run(main, max_iterations=50000)
    except aio.WallClock:
        raise
    except aio.Idle as ex:
        errors.append(f"history never ends: {ex}")
    except Exception as ex:
        errors.append(f"history aborted: {type(ex).__name__}: {ex}")
    # events at the terminal
    evs = []
    for e in t.events:
        if e[0] == "mbx_write":
            msg = e[1]
            length, addr, chan, tc = struct.unpack_from("<HHBB", msg, 0)
            body = msg[6:6 + length]
            coe = struct.unpack_from("<H", body, 0)[0] >> 12
            owner = None
            if coe == 2 and len(body) >= 5:
                owner = struct.unpack_from("<H", body, 3)[0] - 0x7000
            evs.append(("W", tc >> 4, owner, coe))
        elif e[0] == "mbx_read":
            evs.append(("R",))
    return evs, errors, dict(tasks=ntask, plan=plan_, gaps=gaps,
                             parallel=parallel, latencies=lats[:12],
                             status_read_fault=fault_at)


def cancel_waiter_history(rng, parallel, tmpdir):
    """A holds the mailbox (slow response), B queues behind it and is
    cancelled while it waits, C starts afterwards: B's cancellation must not
    let C into A's exchange"""
    t = bus.SimTerminal("T", station=40)
    struct.pack_into("<HHBBBB", t.mem, 0x800, 0x1000, 64, 0x26, 0, 1, 0)
    struct.pack_into("<HHBBBB", t.mem, 0x808, 0x1400, 64, 0x22, 0, 1, 0)
    objs = {}
    for k in range(4):
        for s_ in range(1, 4):
            objs[0x7000 + k, s_] = bytes([k, s_, 7, 9])
    srv = InfoServer(objs, 64, 64)
    t.mbx_handler = srv.handle
    lats = [rng.choice([5, 6, 8])] + [rng.choice([0, 1, 2, 4])
                                     for _ in range(32)]
    it = iter(lats)
    t.mbx_resp_latency = lambda: next(it, 0)
    b = bus.Bus([t])
    errors = []
    nvict = rng.choice([1, 1, 2])
    wait_before = rng.randint(1, 3)
    info = dict(victims_waiting=0)

    async def main(loop):
        ec = EtherCat("vf")
        bus.attach(ec, loop, b)
        term = Terminal(ec)
        term.position = 40
        term.mbx_out_off, term.mbx_out_sz = 0x1000, 64
        term.mbx_in_off, term.mbx_in_sz = 0x1400, 64
        if parallel:
            lf = LockFile(os.path.join(tmpdir, f"lf{rng.getrandbits(30)}"),
                          0, 100)
            term.mbx_lock = ParallelMailboxLock(lf, 40)
        else:
            term.mbx_lock = MailboxLock()

        async def user(k, n):
            for i in range(n):
                try:
                    r = await term.sdo_read(0x7000 + k, 2)
                    if r != bytes([k, 2, 7, 9]):
                        errors.append(f"user {k} read {r!r}")
                except asyncio.CancelledError:
                    raise
                except Exception as ex:
                    errors.append(f"user {k}: {type(ex).__name__}: "
                                  f"{str(ex)[:60]}")
        a = asyncio.ensure_future(user(0, 1))
        await asyncio.sleep(0)
        victims = [asyncio.ensure_future(user(1 + i, 1))
                   for i in range(nvict)]
        for _ in range(wait_before):
            await asyncio.sleep(0)
        if not a.done():
            info["victims_waiting"] = nvict
        for v in victims:
            v.cancel()
        await asyncio.sleep(0)
        c = asyncio.ensure_future(user(3, 2))
        await asyncio.wait_for(asyncio.gather(a, c), 500)
        for v in victims:
            if not v.cancelled():
                errors.append("cancelled waiter did not end cancelled")
    try:
        # bounded progress: histories of this size end within ~500 loop
        # iterations; 50000 without ending is a verdict (somebody polls for
        # ever), the wall clock is not
        aio.run(main, max_iterations=50000)
    except aio.WallClock:
        raise
    except aio.Idle as ex:
        errors.append(f"history never ends: {ex}")
    except Exception as ex:
        errors.append(f"history aborted: {type(ex).__name__}: {ex}")
    evs = []
    for e in t.events:
        if e[0] == "mbx_write":
            msg = e[1]
            length, addr, chan, tc = struct.unpack_from("<HHBB", msg, 0)
            body = msg[6:6 + length]
            coe = struct.unpack_from("<H", body, 0)[0] >> 12
            owner = None
            if coe == 2 and len(body) >= 5:
                owner = struct.unpack_from("<H", body, 3)[0] - 0x7000
            evs.append(("W", tc >> 4, owner, coe))
        elif e[0] == "mbx_read":
            evs.append(("R",))
    return evs, errors, dict(kind="cancelled-waiter", tasks=2 + nvict,
                             parallel=parallel, latencies=lats[:6],
                             wait_before=wait_before,
                             victims_waiting=info["victims_waiting"])


def check_events(evs):
    counters = [e[1] for e in evs if e[0] == "W"]
    why = chain_ok(counters)
    if why:
        return "counter", why
    pending = False
    for i, e in enumerate(evs):
        if e[0] == "W":
            if pending:
                return "exclusion", (f"mailbox written again (event {i}: "
                                     f"{e}) before the previous response "
                                     f"was read: {evs[max(0, i - 4):i + 1]}")
            pending = True
        else:
            pending = False
    return None


WORKER = r'''
import sys, os, asyncio, random, time
sys.path.insert(0, %(repo)r)
sys.path.insert(1, %(verif)r)
import ebpfcat.lock as L
from ebpfcat.lock import LockFile, ParallelMailboxLock
path, who, m, seed = sys.argv[1], int(sys.argv[2]), int(sys.argv[3]), int(sys.argv[4])
delays = sys.argv[5] == "1"
rng = random.Random(seed)
# injected delays between the system calls of the lock protocol: a real
# process can be preempted between any two of them
def nap():
    if delays and rng.random() < 0.35:
        time.sleep(rng.random() * 0.0015)
class OSProxy:
    def __getattr__(self, n):
        return getattr(os, n)
    def pread(self, *a):
        nap(); r = os.pread(*a); nap(); return r
    def pwrite(self, *a):
        nap(); r = os.pwrite(*a); nap(); return r
class FcntlProxy:
    def __getattr__(self, n):
        return getattr(L_fcntl, n)
    def lockf(self, *a):
        nap()
        try:
            return L_fcntl.lockf(*a)
        finally:
            nap()
L_fcntl = L.fcntl
L.os = OSProxy()
L.fcntl = FcntlProxy()
async def main(loop):
    # (the range starts low: a position that is taken relative to the
    # minimum twice is still inside the file)
    lf = LockFile(path, 10, 1100)
    log = os.open(path + ".log", os.O_WRONLY | os.O_APPEND | os.O_CREAT)

    # a process talks to several terminals; the tasks that talk to one
    # terminal share its Terminal object and hence its lock object
    locks = {no: ParallelMailboxLock(lf, no) for no in (1042, 1043)}
    if sys.argv[9] == "1" and who %% 2:
        # this process got the lock of terminal 1043 pickled (a Terminal
        # handed over from another process)
        import pickle
        locks[1043] = pickle.loads(pickle.dumps(locks[1043]))
    # a process connected to two EtherCAT loops, which both have a terminal
    # 1042: the terminals get their locks the way Terminal does, from their
    # loop object, each loop with its own lock file
    if sys.argv[7] == "2":
        from ebpfcat.ebpfcat import ParallelEtherCat
        for li in (0, 1):
            ec = ParallelEtherCat("vf%%d" %% li)
            ec.mbx_lock_file = lf if li == 0 else LockFile(path + ".b", 10, 1100)
            for no in (1042, 1043):
                locks[no + 100000 * li] = ec.get_mbx_lock(no)

    async def user(no):
        lock = locks[no]
        for i in range(m):
            async with lock:
                c = lock.next_counter()
                os.write(log, b"S %%d %%d %%d\n" %% (who, c, no))
                if rng.random() < 0.5:
                    time.sleep(rng.random() * 0.002)
                if rng.random() < 0.03:
                    # a slow terminal: the exchange takes a long time (in
                    # real time; the other processes poll for the lock
                    # hundreds of times meanwhile)
                    time.sleep(0.15)
                for _ in range(rng.randint(1, 3)):
                    await asyncio.sleep(0)
                os.write(log, b"E %%d %%d %%d\n" %% (who, c, no))
            if rng.random() < 0.3:
                time.sleep(rng.random() * 0.001)
            await asyncio.sleep(0)
    # a lock file object that arrived pickled (that is what LockFile is
    # picklable for) is a second object for the same file in this process;
    # it is used for a third terminal and then dropped, while the other
    # tasks are in the middle of their exchanges
    async def visitor():
        import pickle
        for i in range(max(m // 5, 2)):
            lf2 = pickle.loads(pickle.dumps(lf))
            lock = ParallelMailboxLock(lf2, 1044)
            async with lock:
                c = lock.next_counter()
                os.write(log, b"S %%d %%d %%d\n" %% (who, c, 1044))
                await asyncio.sleep(0)
                os.write(log, b"E %%d %%d %%d\n" %% (who, c, 1044))
            del lock, lf2
            for _ in range(rng.randint(1, 6)):
                await asyncio.sleep(0)
    # a user that gives up: its attempt is cancelled after a number of
    # loop iterations, which may be while it waits for a task of its own
    # process, for another process, or during its exchange
    async def attempt(lock, no):
        async with lock:
            c = lock.next_counter()
            os.write(log, b"S %%d %%d %%d\n" %% (who, c, no))
            try:
                await asyncio.sleep(0)
            finally:
                os.write(log, b"E %%d %%d %%d\n" %% (who, c, no))

    async def quitter(no):
        lock = locks[no]
        for i in range(max(m // 4, 3)):
            t = asyncio.ensure_future(attempt(lock, no))
            for _ in range(rng.choice([0, 1, 2, 3, 5, 8, 13, 40, 200])):
                await asyncio.sleep(0)
                if t.done():
                    break
            if not t.done():
                os.write(log, b"C %%d 0 %%d\n" %% (who, no))
            t.cancel()
            try:
                await t
            except asyncio.CancelledError:
                pass
            await asyncio.sleep(0)
    users = [user(1042), user(1043), user(1042)]
    if sys.argv[8] == "1":
        users.append(quitter(1042))
    if sys.argv[7] == "2":
        users.append(user(101042))
    if sys.argv[6] == "1":
        users.append(visitor())
    await asyncio.gather(*users)
from vf import aio
try:
    # the virtual loop raises Idle when no callback is ready and no timer
    # is set while main() has not finished: every task of this process
    # waits for something that nobody will ever do
    aio.run(main, max_iterations=10**9, wall_limit=100)
except aio.Idle as ex:
    sys.stderr.write("DEADLOCK %%s" %% ex)
    sys.exit(7)
except aio.WallClock:
    sys.exit(8)
'''


def xproc_round(rng, tmpdir, res):
    nproc = rng.choice([2, 3])
    m = rng.randint(20, 60)
    path = os.path.join(tmpdir, f"x{rng.getrandbits(30)}")
    script = WORKER % dict(repo=REPO, verif=VERIF_ROOT)
    delays = rng.random() < 0.7
    visitor = rng.random() < 0.5
    loops = rng.choice([1, 2])
    quitter = rng.random() < 0.5
    pickled = rng.random() < 0.5
    procs = [subprocess.Popen([PYTHON, "-c", script, path, str(w), str(m),
                               str(rng.getrandbits(30)),
                               "1" if delays else "0",
                               "1" if visitor else "0", str(loops),
                               "1" if quitter else "0",
                               "1" if pickled else "0"],
                              stderr=subprocess.PIPE)
             for w in range(nproc)]
    errs = []
    for p in procs:
        try:
            _, err = p.communicate(timeout=120)
        except subprocess.TimeoutExpired:
            p.kill()
            res.inconc("cross-process worker timed out")
            return
        if p.returncode == 8:
            res.inconc("cross-process worker: wall-clock watchdog")
            return
        if p.returncode:
            errs.append(err.decode(errors="replace")[-300:])
    desc = dict(mode="xproc", processes=nproc, exchanges=m,
                injected_delays=delays, pickled_lock_file_copies=visitor)
    if visitor:
        res.count("xproc_rounds_with_pickled_lock_file_copies")
    if pickled:
        desc["pickled_lock_objects"] = True
        res.count("xproc_rounds_with_pickled_lock_objects")
    if quitter:
        desc["cancelled_attempts"] = True
        res.count("xproc_rounds_with_cancelled_attempts")
    if loops == 2:
        desc["loops"] = 2
        res.count("xproc_rounds_with_two_loops_per_process")
    res.count("xproc_rounds_" + ("with_delays" if delays else "plain"))
    with open(path + ".log") as f:
        lines = [l.split() for l in f.read().splitlines()]
    bad = None
    chains = {}
    for no in sorted({l[3] for l in lines}):
        cur = None
        counters = chains.setdefault(no, [])
        for l in lines:
            if l[3] != no:
                continue
            kind, who, c = l[0], int(l[1]), int(l[2])
            if kind == "C":
                res.count("xproc_attempts_cancelled_before_their_end")
                continue
            if kind == "S":
                if cur is not None and bad is None:
                    bad = ("exclusion", f"terminal {no}: process {who} "
                           f"entered while {cur} held the lock")
                cur = who
                counters.append(c)
            else:
                cur = None
    counters = [c for ch in chains.values() for c in ch]
    switches = 0
    for no in chains:
        ls = [l for l in lines if l[3] == no and l[0] != "C"]
        switches += sum(1 for a, b in zip(ls, ls[1:])
                        if a[0] == "E" and b[0] == "S" and a[1] != b[1])
    res.case(desc, nontrivial=switches > 0)
    res.count("xproc_exchanges", len(counters))
    res.count("xproc_owner_switches", switches)
    if errs:
        res.violation("lockfile-creation-window-late-opener-fails"
                      if "not enough values" in errs[0] or
                      "ValueError" in errs[0] else
                      "unexplained:xproc-deadlock" if "DEADLOCK" in errs[0]
                      else "unexplained:xproc-worker",
                      f"worker failed: {errs[0]}", case=desc)
        return
    if bad is None:
        for no, ch in chains.items():
            why = chain_ok(ch)
            if why:
                bad = ("counter", f"terminal {no}: {why}")
                break
    if bad:
        res.violation(f"unexplained:xproc-{bad[0]}", bad[1], case=desc)


def window_leg(res, tmpdir):
    """B opens the lock file at every point of A's constructor"""
    real_os = lockmod.os
    points = ["after_open", "before_write"]
    for point in points:
        path = os.path.join(tmpdir, f"w_{point}")
        state = dict(b=None, err=None, done=False)

        def open_b():
            if state["done"]:
                return
            state["done"] = True
            try:
                lockmod.os = real_os
                state["b"] = LockFile(path, 0, 50)
            except Exception as ex:
                state["err"] = repr(ex)
            finally:
                lockmod.os = proxy

        class Proxy:
            def __getattr__(self, name):
                return getattr(real_os, name)

            def open(self, *a, **kw):
                fd = real_os.open(*a, **kw)
                if point == "after_open":
                    open_b()
                return fd

            def write(self, fd, data):
                if point == "before_write":
                    open_b()
                return real_os.write(fd, data)

            def ftruncate(self, fd, n):
                if point == "before_write":
                    open_b()
                return real_os.ftruncate(fd, n)
        proxy = Proxy()
        lockmod.os = proxy
        try:
            a = LockFile(path, 0, 50)
        finally:
            lockmod.os = real_os
        desc = dict(mode="window", point=point)
        res.case(desc, nontrivial=True)
        res.count("window_points")
        if state["err"]:
            res.violation("unexplained:window-open", state["err"], case=desc)
            continue

        async def use():
            out = []
            la = ParallelMailboxLock(a, 7)
            lb = ParallelMailboxLock(state["b"], 7)
            for lk in (lb, la, lb, la):
                async with lk:
                    out.append(lk.next_counter())
            return out
        # B takes its first counter *inside* the window in a second pass
        try:
            counters = asyncio.run(use())
            why = chain_ok(counters)
            if why:
                res.violation("unexplained:window-counter", why, case=desc)
        except Exception as ex:
            res.violation("lockfile-creation-window-late-opener-fails",
                          f"late opener: {type(ex).__name__}: {ex}",
                          case=desc)
    def sharp(no):
        # the sharper variant: B also takes a counter before A initialises
        path = os.path.join(tmpdir, f"w_sharp{no}")
        got = {}

        class Proxy2:
            def __getattr__(self, name):
                return getattr(real_os, name)

            def ftruncate(self, fd, n):
                self.intrude()
                return real_os.ftruncate(fd, n)

            def write(self, fd, data):
                self.intrude()
                return real_os.write(fd, data)

            def intrude(self):
                if "b" not in got:
                    lockmod.os = real_os
                    try:
                        b2 = LockFile(path, 0, 50)
                        got["b"] = b2

                        async def take():
                            lk = ParallelMailboxLock(b2, no)
                            async with lk:
                                return lk.next_counter()
                        got["c"] = asyncio.run(take())
                    except Exception as ex:
                        got["err"] = f"{type(ex).__name__}: {ex}"
                    finally:
                        lockmod.os = proxy2
        proxy2 = Proxy2()
        lockmod.os = proxy2
        try:
            a = LockFile(path, 0, 50)
        finally:
            lockmod.os = real_os
        desc = dict(mode="window", point="counter-taken-inside-window",
                    terminal=no)
        res.case(desc, nontrivial=True)
        res.count("window_points")
        if "b" not in got:
            res.inconc("the creation window was not reached (no initialising "
                       "write/ftruncate seen)")
        elif "err" in got and no == 50 and "AssertionError" in got["err"]:
            # a number at the very end of the range is refused (the file has
            # no byte for it); a lock that accepts it has to keep its counter
            res.count("window_top_of_range_refused")
        elif "err" in got:
            res.violation("lockfile-creation-window-late-opener-fails",
                          f"participant opening during creation: {got['err']}",
                          case=desc)
        else:
            async def rest():
                la = ParallelMailboxLock(a, no)
                async with la:
                    return la.next_counter()
            c2 = asyncio.run(rest())
            why = chain_ok([got["c"], c2])
            if why:
                res.violation("lockfile-creation-window-counter-reset",
                              f"counter taken inside the window was lost: {why}",
                              case=desc)
    for no in (7, 49, 50):
        sharp(no)


def address_leg(res, rng, tmpdir):
    """the lock a terminal is used under belongs to the address it has: a
    multi-process master (lock file, get_mbx_lock as ParallelEtherCat has
    it) brings a mailbox terminal up through the real initialize /
    gentle_initialize - the terminal may still carry a station address from
    an earlier run - and talks to it; afterwards the lock file holds a
    counter in the byte of the terminal's current address and nowhere
    else"""
    sm = struct.pack("<HHBBBB", 0x1000, 64, 0x26, 0, 1, 1) + \
        struct.pack("<HHBBBB", 0x1400, 64, 0x22, 0, 1, 2)
    img = bytearray(b"\0" * 16) + struct.pack("<IIII", 2, 0x4321, 1, 7)
    img += bytes(128 - len(img))
    img += struct.pack("<HH", 41, len(sm) // 2) + sm + b"\xff" * 24
    old = rng.choice([0, 0, 1500, 1077, 2999])
    state0 = rng.choice([1, 1, 2]) if old else 1
    how = rng.choice(["gentle", "gentle", "initialize", "twice"])
    nreads = rng.randint(1, 4)
    desc = dict(address_leg=True, stale_address=old, state=state0, how=how,
                reads=nreads)
    t = bus.SimTerminal("T", station=old, eeprom=bytes(img))
    t.al_state = state0
    if state0 == 2:
        struct.pack_into("<HHBBBB", t.mem, 0x800, 0x1000, 64, 0x26, 0, 1, 0)
        struct.pack_into("<HHBBBB", t.mem, 0x808, 0x1400, 64, 0x22, 0, 1, 0)
    srv = InfoServer({(0x7000, 2): b"\x01\x02\x07\x09"}, 64, 64)
    t.mbx_handler = srv.handle
    b = bus.Bus([t])
    path = os.path.join(tmpdir, f"al{rng.getrandbits(30)}")
    out = {}

    class Master(EtherCat):
        terminal_addr_range = (1000, 3000)

        def get_mbx_lock(self, no):
            out.setdefault("asked", []).append(no)
            return ParallelMailboxLock(self.lf, no)

    async def main(loop):
        ec = Master("vf")
        ec.lf = LockFile(path, 1000, 3000)
        bus.attach(ec, loop, b)
        term = Terminal(ec)
        if how == "initialize":
            await term.initialize(relative=0)
        else:
            await term.gentle_initialize(relative=0)
            if how == "twice":
                await term.gentle_initialize(relative=0)
        await term.to_operational(MachineState.PRE_OPERATIONAL)
        for _ in range(nreads):
            r = await term.sdo_read(0x7000, 2)
            if r != b"\x01\x02\x07\x09":
                out["bad"] = f"read returned {r!r}"
        out["position"] = term.position
        out["fd"] = ec.lf.fd
    random.seed(rng.getrandbits(32))   # find_free_address draws globally
    try:
        aio.run(main, max_iterations=200000)
    except aio.WallClock:
        raise
    except AssertionError as ex:
        if out.get("asked") and out["asked"][-1] == 3000:
            # find_free_address draws from [min, max], the lock file covers
            # [min, max): the lock for the highest address cannot be made
            # (ParallelEtherCat sizes its lock file the same way). A refusal
            # by assertion, no statement of C15 is touched: counted
            res.count("address_histories_refused_at_the_top_of_the_range")
            return
        res.violation("unexplained:address-leg-failed",
                      f"AssertionError: {str(ex)[:120]} [{desc}]", case=desc)
        return
    except Exception as ex:
        res.violation("unexplained:address-leg-failed",
                      f"{type(ex).__name__}: {str(ex)[:120]} [{desc}]",
                      case=desc)
        return
    res.case(desc, nontrivial=True)
    res.count("address_histories")
    if old:
        res.count("address_histories_with_a_stale_station_address")
    station, = struct.unpack_from("<H", t.mem, 0x10)
    data = os.pread(out["fd"], 2000, 0)
    os.close(out["fd"])
    used = {i + 1000: v for i, v in enumerate(data) if v}
    if out.get("bad"):
        res.violation("unexplained:address-leg-read", out["bad"], case=desc)
    elif station != out["position"]:
        res.violation("unexplained:address-leg-position",
                      f"terminal answers to {station}, the Terminal object "
                      f"says {out['position']}", case=desc)
    elif set(used) != {station}:
        res.violation(
            "unexplained:lock-of-another-address",
            f"the terminal has station address {station}; after "
            f"{nreads} exchanges the lock file holds counters at "
            f"{used} [{desc}]", case=desc)


def lifecycle_leg(res, rng, n):
    """participants of ParallelEtherCat.run() come and go (C23's gate
    scheduler runs the real run()); a participant leaves only while another
    one stays, until the end.  Whoever is on the loop at the same time must
    lock and count in the same mailbox lock file: the file a newcomer opens
    is the file the ones already running hold."""
    from . import c23
    for _ in range(n):
        npart = rng.choice([3, 3, 4])
        inside, outside = [], list(range(npart))
        rng.shuffle(outside)
        spec, story = [], []
        # grow to two, then alternate leaves (never the last one) and joins
        while outside or inside:
            can_leave = len(inside) >= 2 or (inside and not outside)
            if outside and (not can_leave or rng.random() < 0.55):
                p = outside.pop()
                inside.append(p)
                spec.append((p, ("hold",)))
                story.append(f"join {p}")
            else:
                p = inside.pop(rng.randrange(len(inside)))
                spec.append((p, None))
                story.append(f"leave {p}")
        trace, status, events = c23.run_schedule(
            (), npart, rng.getrandbits(16), hostile=True,
            director=c23.segments(spec))
        desc = dict(kind="lifecycle", participants=npart, story=story)
        res.case([desc], nontrivial=True)
        res.count("lifecycle_histories")
        if status != "finished":
            if status == "stuck":
                res.inconc(f"lifecycle history {story}: scheduler watchdog")
            else:
                res.violation("unexplained:lifecycle-" + status,
                              f"history {story} ended '{status}'", case=desc)
            continue
        live = {}
        for _, p, op, d in events:
            if op == "failed":
                res.violation("unexplained:lifecycle-participant-failed",
                              f"participant {p} failed in history {story}: "
                              f"{d}", case=desc)
                break
            if op == "running-begin":
                res.count("lifecycle_joins")
                clash = [q for q, f in live.items()
                         if f != d.get("mbx_file")]
                if clash and d.get("mbx_file") is not None:
                    res.violation(
                        "unexplained:participants-on-different-mailbox-"
                        "lock-files",
                        f"history {story}: participant {p} joins with a "
                        f"mailbox lock file (inode {d['mbx_file']}) that is "
                        f"not the one participants {clash} are holding "
                        f"(inode {live[clash[0]]})", case=desc)
                    break
                if live:
                    res.count("lifecycle_joins_next_to_running_participants")
                live[p] = d.get("mbx_file")
            elif op == "running-end":
                live.pop(p, None)


def run_shard(params):
    res = Result()
    rng = random.Random(params["seed"] * 100291 + params["shard"])
    tmpdir = tempfile.mkdtemp(prefix="vf-c15-")
    try:
        if params["mode"] == "inproc":
            for i in range(params["n"]):
                try:
                    address_leg(res, rng, tmpdir)
                except aio.WallClock:
                    res.inconc("address leg: wall-clock watchdog")
                for parallel in (False, True):
                    try:
                        evs, errors, desc = inproc_history(rng, parallel,
                                                           tmpdir)
                    except aio.WallClock:
                        res.inconc("in-process history: wall-clock watchdog")
                        continue
                    nw = sum(1 for e in evs if e[0] == "W")
                    res.case(desc, nontrivial=desc["tasks"] >= 2 and nw >= 2)
                    res.count("mailbox_writes", nw)
                    res.count("histories_" + ("parallel_lock" if parallel
                                              else "mailbox_lock"))
                    bad = check_events(evs)
                    if bad:
                        key = ("parallel-lock-does-not-exclude-tasks-of-one-"
                               "process" if parallel else
                               f"unexplained:inproc-{bad[0]}")
                        res.violation(key, bad[1], case=desc,
                                      witness=dict(events=evs[:40],
                                                   errors=errors[:4]))
                    elif errors:
                        res.violation(
                            "unexplained:inproc-history-never-ends"
                            if any("never ends" in e_ for e_ in errors) else
                            "parallel-lock-does-not-exclude-tasks-of-one-"
                            "process" if parallel else
                            "unexplained:inproc-client-error",
                            f"clients failed: {errors[:3]}", case=desc)
                    elif len(res.samples) < 2:
                        res.sample(dict(desc, events=evs[:16]))
                    # a queued user is cancelled while another holds the lock
                    evs, errors, desc = cancel_waiter_history(rng, parallel,
                                                              tmpdir)
                    res.case(desc, nontrivial=desc["victims_waiting"] > 0)
                    res.count("histories_cancelled_waiter")
                    res.count("waiters_cancelled", desc["victims_waiting"])
                    bad = check_events(evs)
                    if bad or errors:
                        res.violation(
                            "unexplained:cancelled-waiter-" +
                            (bad[0] if bad else "client-error"),
                            (bad[1] if bad else f"clients failed: "
                             f"{errors[:3]}"), case=desc,
                            witness=dict(events=evs[:40],
                                         errors=errors[:4]))
        elif params["mode"] == "window":
            window_leg(res, tmpdir)
            lifecycle_leg(res, rng, params.get("lifecycles", 30))
        else:
            for _ in range(params["rounds"]):
                xproc_round(rng, tmpdir, res)
    finally:
        shutil.rmtree(tmpdir, ignore_errors=True)
    return res


def finalize(res, tier, seed):
    c = res.counters
    for k in ("histories_mailbox_lock", "histories_parallel_lock",
              "window_points", "xproc_exchanges", "waiters_cancelled"):
        if not c.get(k):
            res.inconc(f"{k}: leg did not run")
    if not c.get("xproc_owner_switches"):
        res.inconc("cross-process leg: the lock never changed hands")


def replay(v):
    return Result()
